#!/usr/bin/env python3
"""Regenerates coq/Gen/Encodings.v from oxidize-pdf-core/src/text/encoding.rs (the seven match tables:
TextEncoding::encode WinAnsi/MacRoman, TextEncoding::decode WinAnsi/MacRoman, winansi_encode_char,
winansi_decode_char, macroman_encode_char; the Standard/PDFDoc pass-through shape), parser/encoding.rs
(windows1252_extensions, macroman_chars arrays) and parser/objects.rs (decode_text_string's decoder).
Every `=>` arm inside an extracted match must be recognised, otherwise the translator fails loudly."""
import os, re

REPO = os.environ.get("OXVERIF_REPO", "/repo")
CRATE = os.path.join(REPO, "oxidize-pdf-core", "src")


def strip_tests(src):
    i = src.find("#[cfg(test)]\nmod tests")
    return src if i < 0 else src[:i]


def block_after(src, start, opener="{"):
    """text of the brace block whose `{` is the first one at/after index start"""
    i = src.index(opener, start)
    depth, j = 0, i
    while True:
        c = src[j]
        if c == "{":
            depth += 1
        elif c == "}":
            depth -= 1
            if depth == 0:
                return src[i + 1:j], j
        j += 1


def nocomment(body):
    return re.sub(r"//[^\n]*", "", body)


NUM = r"0x[0-9A-Fa-f_]+|\d+"


def num(s):
    return int(s.replace("_", ""), 0)


def char_lit(s):
    s = s.strip()
    m = re.fullmatch(r"'\\u\{([0-9A-Fa-f]+)\}'", s)
    if m:
        return int(m.group(1), 16)
    m = re.fullmatch(r"'(.)'", s, flags=re.S)
    if m:
        return ord(m.group(1))
    m = re.fullmatch(r"'\\(.)'", s)
    if m and m.group(1) in "'\\":
        return ord(m.group(1))
    raise RuntimeError("unreadable char literal %r" % s)


def parse_encode(body, what):
    """arms of `match ch as u32 { .. }` -> (arms, default) ; arms: ('id', lo, hi) | ('map', cp, byte)"""
    arms, default = [], None
    for arm in [a.strip() for a in re.split(r",\s*\n|,\s*$", nocomment(body)) if a.strip()]:
        m = re.fullmatch(r"(%s)\s*\.\.=\s*(%s)\s*=>\s*(?:Some\(ch as u8\)|result\.push\(ch as u8\))" % (NUM, NUM), arm)
        if m:
            arms.append(("id", num(m.group(1)), num(m.group(2)))); continue
        m = re.fullmatch(r"(%s)\s*=>\s*(?:Some\((%s)\)|result\.push\((%s)\))" % (NUM, NUM, NUM), arm)
        if m:
            arms.append(("map", num(m.group(1)), num(m.group(2) or m.group(3)))); continue
        m = re.fullmatch(r"_\s*=>\s*None", arm)
        if m:
            default = None; continue
        m = re.fullmatch(r"_\s*=>\s*result\.push\(b'(.)'\)", arm)
        if m:
            default = ord(m.group(1)); continue
        raise RuntimeError("%s: unrecognised arm %r" % (what, arm))
    if not arms:
        raise RuntimeError("%s: no arms" % what)
    return arms, default


def parse_decode(body, what):
    """arms of `match byte { .. }` -> (arms, default); arms ('id', lo, hi) | ('map', byte, cp); default 'id' | cp"""
    arms, default = [], "missing"
    for arm in [a.strip() for a in re.split(r",\s*\n|,\s*$", nocomment(body)) if a.strip()]:
        m = re.fullmatch(r"(%s)\s*\.\.=\s*(%s)\s*=>\s*(?:byte as char|char::from_u32\(byte as u32\)\.unwrap_or\('.'\))" % (NUM, NUM), arm)
        if m:
            arms.append(("id", num(m.group(1)), num(m.group(2)))); continue
        m = re.fullmatch(r"(%s)\s*=>\s*('(?:\\u\{[0-9A-Fa-f]+\}|\\?.)')" % NUM, arm, flags=re.S)
        if m:
            arms.append(("map", num(m.group(1)), char_lit(m.group(2)))); continue
        m = re.fullmatch(r"_\s*=>\s*byte as char", arm)
        if m:
            default = "id"; continue
        m = re.fullmatch(r"_\s*=>\s*('(?:\\u\{[0-9A-Fa-f]+\}|\\?.)')", arm)
        if m:
            default = char_lit(m.group(1)); continue
        raise RuntimeError("%s: unrecognised arm %r" % (what, arm))
    if not arms:
        raise RuntimeError("%s: no arms" % what)
    return arms, default


def match_in(src, anchor_re, match_head, what, start=0):
    m = re.compile(anchor_re).search(src, start)
    if not m:
        raise RuntimeError("%s: anchor not found" % what)
    i = src.index(match_head, m.end())
    body, end = block_after(src, i)
    return body, end


def extract():
    src = strip_tests(open(os.path.join(CRATE, "text", "encoding.rs")).read())
    T = {}
    # TextEncoding::encode
    enc_start = src.index("pub fn encode(&self, text: &str) -> Vec<u8>")
    dec_start = src.index("pub fn decode(&self, data: &[u8]) -> String")
    enc_fn = src[enc_start:dec_start]
    if not re.search(r"TextEncoding::StandardEncoding \| TextEncoding::PdfDocEncoding => \{\s*(//[^\n]*\n\s*)*text\.bytes\(\)\.collect\(\)\s*\}", enc_fn):
        raise RuntimeError("encode: Standard/PDFDoc arm is no longer the UTF-8 pass-through `text.bytes().collect()`")
    b, _ = match_in(enc_fn, r"TextEncoding::WinAnsiEncoding => \{", "match ch as u32 {", "encode/WinAnsi")
    T["win_enc_lossy"] = parse_encode(b, "encode/WinAnsi")
    b, _ = match_in(enc_fn, r"TextEncoding::MacRomanEncoding => \{", "match ch as u32 {", "encode/MacRoman")
    T["mac_enc_lossy"] = parse_encode(b, "encode/MacRoman")
    end_impl = src.index("pub fn winansi_encode_char")
    dec_fn = src[dec_start:end_impl]
    if not re.search(r"TextEncoding::StandardEncoding \| TextEncoding::PdfDocEncoding => \{\s*(//[^\n]*\n\s*)*String::from_utf8_lossy\(data\)\.to_string\(\)\s*\}", dec_fn):
        raise RuntimeError("decode: Standard/PDFDoc arm is no longer `String::from_utf8_lossy(data)`")
    b, _ = match_in(dec_fn, r"TextEncoding::WinAnsiEncoding => \{", "match byte {", "decode/WinAnsi")
    T["win_dec_inline"] = parse_decode(b, "decode/WinAnsi")
    b, _ = match_in(dec_fn, r"TextEncoding::MacRomanEncoding => \{", "match byte {", "decode/MacRoman")
    T["mac_dec_inline"] = parse_decode(b, "decode/MacRoman")
    b, _ = match_in(src, r"pub fn winansi_encode_char\(ch: char\) -> Option<u8> \{", "match ch as u32 {", "winansi_encode_char")
    T["win_enc_strict"] = parse_encode(b, "winansi_encode_char")
    b, _ = match_in(src, r"pub fn winansi_decode_char\(byte: u8\) -> char \{", "match byte {", "winansi_decode_char")
    T["win_dec_char"] = parse_decode(b, "winansi_decode_char")
    b, _ = match_in(src, r"pub fn macroman_encode_char\(ch: char\) -> Option<u8> \{", "match ch as u32 {", "macroman_encode_char")
    T["mac_enc_strict"] = parse_encode(b, "macroman_encode_char")
    # encode_strict shape
    strict = src[src.index("pub fn encode_strict"):enc_start]
    for pat, what in ((r"TextEncoding::WinAnsiEncoding => match winansi_encode_char\(ch\) \{\s*Some\(b\) => out\.push\(b\),\s*None => return Err\(ch\),", "encode_strict/WinAnsi"),
                      (r"TextEncoding::MacRomanEncoding => match macroman_encode_char\(ch\) \{\s*Some\(b\) => out\.push\(b\),\s*None => return Err\(ch\),", "encode_strict/MacRoman")):
        if not re.search(pat, strict):
            raise RuntimeError(what + ": shape changed")
    m = re.search(r"TextEncoding::StandardEncoding \| TextEncoding::PdfDocEncoding => \{\s*if \(ch as u32\) (<=|<) (%s) \{\s*out\.push\(ch as u8\);\s*\} else \{\s*return Err\(ch\);" % NUM, strict)
    if not m:
        raise RuntimeError("encode_strict/Standard: shape changed")
    strict_limit = num(m.group(2)) + (1 if m.group(1) == "<=" else 0)    # exclusive bound
    # decode_text_string
    osrc = strip_tests(open(os.path.join(CRATE, "parser", "objects.rs")).read())
    m = re.search(r"pub\(crate\) fn decode_text_string\(bytes: &\[u8\]\) -> String \{(.*?)\n\}\n", osrc, flags=re.S)
    if not m or not re.search(r"\.map\(\|&byte\| crate::text::encoding::winansi_decode_char\(byte\)\)", m.group(1)) \
            or not re.search(r"bytes\.len\(\) >= 2 && bytes\[0\] == 0xFE && bytes\[1\] == 0xFF", m.group(1)):
        raise RuntimeError("decode_text_string: shape changed (expected UTF-16BE BOM test, else winansi_decode_char per byte)")
    # parser/encoding.rs arrays
    psrc = strip_tests(open(os.path.join(CRATE, "parser", "encoding.rs")).read())
    P = {}
    for name in ("windows1252_extensions", "macroman_chars"):
        m = re.search(r"let %s = \[(.*?)\n        \];" % name, psrc, flags=re.S)
        if not m:
            raise RuntimeError("parser/encoding.rs: %s not found" % name)
        body = nocomment(m.group(1))
        ents = re.findall(r"\(\s*(%s)\s*,\s*('(?:\\u\{[0-9A-Fa-f]+\}|\\?.)')\s*\)" % NUM, body, flags=re.S)
        if len(ents) != body.count("("):
            raise RuntimeError("parser/encoding.rs: %s has entries this translator cannot read" % name)
        P[name] = [(num(a), char_lit(b)) for a, b in ents]
    if not re.search(r"for i in 0x80\.\.=0xFF \{.*?self\.latin1_map\.insert\(i, ch\);", psrc, flags=re.S):
        raise RuntimeError("parser/encoding.rs: latin1_map initialisation changed")
    if not re.search(r"EncodingType::PdfDocEncoding => \{\s*(//[^\n]*\n\s*)*self\.decode_with_encoding\(bytes, EncodingType::Latin1, lenient\)", psrc):
        raise RuntimeError("parser/encoding.rs: PdfDocEncoding is no longer decoded as Latin-1")
    return T, strict_limit, P


def coq_enc(name, t):
    arms, default = t
    items = ["EId %d %d" % (a[1], a[2]) if a[0] == "id" else "EMap %d %d" % (a[1], a[2]) for a in arms]
    return ("Definition %s : list earm := [\n  %s\n].\nDefinition %s_default : option N := %s.\n"
            % (name, ";\n  ".join("; ".join(items[i:i + 6]) for i in range(0, len(items), 6)), name,
               "None" if default is None else "Some %d" % default))


def coq_dec(name, t):
    arms, default = t
    if default == "missing":
        default = "id"   # exhaustive match without `_`: never reached (checked by dec_total in Coq)
        total = "true"
    else:
        total = "false"
    items = ["DId %d %d" % (a[1], a[2]) if a[0] == "id" else "DMap %d %d" % (a[1], a[2]) for a in arms]
    return ("Definition %s : list darm := [\n  %s\n].\nDefinition %s_default : option N := %s.\nDefinition %s_no_wildcard : bool := %s.\n"
            % (name, ";\n  ".join("; ".join(items[i:i + 6]) for i in range(0, len(items), 6)), name,
               "None" if default == "id" else "Some %d" % default, name, total))


def generate(gen_dir):
    T, strict_limit, P = extract()
    os.makedirs(gen_dir, exist_ok=True)
    L = ["(* GENERATED by translator/gen_encodings.py from text/encoding.rs, parser/encoding.rs, parser/objects.rs — do not edit *)",
         "From Coq Require Import List NArith.", "Import ListNotations.", "Open Scope N_scope.", "",
         "(* encode arm: EId lo hi = `lo..=hi => ch as u8`; EMap cp b = `cp => b`; default None = `_ => None`, Some b = `_ => push(b)` *)",
         "Inductive earm := EId (lo hi : N) | EMap (cp b : N).",
         "(* decode arm: DId lo hi = `lo..=hi => byte as char`; DMap b cp; default None = `_ => byte as char`, Some c = `_ => c` *)",
         "Inductive darm := DId (lo hi : N) | DMap (b cp : N).", ""]
    for k in ("win_enc_strict", "win_enc_lossy", "mac_enc_strict", "mac_enc_lossy"):
        L.append(coq_enc(k, T[k]))
    for k in ("win_dec_char", "win_dec_inline", "mac_dec_inline"):
        L.append(coq_dec(k, T[k]))
    L += ["(* encode_strict, Standard/PDFDoc: `ch as u32` below this bound is emitted as `ch as u8`, everything else Err *)",
          "Definition strict_ascii_bound : N := %d." % strict_limit, "",
          "(* parser/encoding.rs: (byte, char) arrays laid over the Latin-1 base (windows1252) / alone (macroman) *)",
          "Definition parser_win1252_ext : list (N * N) := [%s]." % "; ".join("(%d, %d)" % e for e in P["windows1252_extensions"]),
          "Definition parser_macroman : list (N * N) := [%s]." % "; ".join("(%d, %d)" % e for e in P["macroman_chars"]), ""]
    out = "\n".join(L)
    p = os.path.join(gen_dir, "Encodings.v")
    if not os.path.exists(p) or open(p).read() != out:
        open(p, "w").write(out)
    return {"tables": {k: len(v[0]) for k, v in T.items()}, "parser": {k: len(v) for k, v in P.items()}, "strict_ascii_bound": strict_limit}


if __name__ == "__main__":
    import sys
    print(generate(sys.argv[1] if len(sys.argv) > 1 else os.path.join(os.path.dirname(os.path.dirname(os.path.abspath(__file__))), "coq", "Gen")))
