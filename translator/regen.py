#!/usr/bin/env python3
"""Regenerates coq/Gen/*.v from /repo's current source (tables and constants).  usage: regen.py all|<name>"""
import os, sys
sys.path.insert(0, os.path.dirname(os.path.abspath(__file__)))
GEN = os.path.join(os.path.dirname(os.path.dirname(os.path.abspath(__file__))), "coq", "Gen")

def main():
    which = sys.argv[1] if len(sys.argv) > 1 else "all"
    import importlib
    mods = [m[:-3] for m in sorted(os.listdir(os.path.dirname(os.path.abspath(__file__)))) if m.startswith("gen_") and m.endswith(".py")]
    rc = 0
    for m in mods:
        if which in ("all", m[4:]):
            try:
                importlib.import_module(m).generate(GEN)
            except Exception as e:
                print("translator %s failed: %s" % (m, e)); rc = 1
    sys.exit(rc)
main()
