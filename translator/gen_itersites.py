#!/usr/bin/env python3
"""C20 census: regenerates coq/Gen/IterSites.v from the writer's Rust sources.

Every iteration over a hash-ordered container (std HashMap / HashSet, objects::Dictionary,
pdf_objects::Dictionary, PdfDictionary — all HashMap-backed) in the non-test part of the writer files is
listed and classified STRUCTURALLY (nothing is taken from a hand-kept table):

  SortedBeforeUse        `let mut v = X.iter()…collect(); v.sort…(` before v is used, or collected into a BTree*
  OrderInsensitive       consumed by max/min/sum/count/any/all/len, collected/extended into a hash or BTree
                         container, or a `for` whose body only inserts into maps (no id allocation, no write,
                         no push onto a sequence)
  EmitsInIterationOrder  everything else (the default): bytes or object ids depend on the order

A receiver counts as hash-ordered when its name is declared/bound with such a type in the same function, is a
struct field of such a type in the crate, or is an accessor returning such a type.  Props/C20.v requires the
list of EmitsInIterationOrder sites to be empty.
"""
import os, re

REPO = os.environ.get("OXVERIF_REPO", "/repo")
SRC = os.path.join(REPO, "oxidize-pdf-core", "src")
FILES = ["writer/pdf_writer/mod.rs", "writer/xref_stream_writer.rs", "writer/object_streams.rs", "metadata/xmp.rs", "page.rs"]
DECL_FILES = FILES + ["objects/dictionary.rs", "document.rs", "forms/form_data.rs", "annotations/annotation.rs", "graphics/mod.rs", "text/mod.rs",
                      "pdf_objects/mod.rs", "parser/objects.rs", "structure/tagged.rs", "fonts/mod.rs"]

HASH_TY = r"(?:std::collections::)?(?:HashMap|HashSet)\s*<|(?<![A-Za-z_<])(?:crate::objects::|crate::pdf_objects::|objects::)?(?:Dictionary|PdfDictionary)\b(?!\s*::)"
ORDERED_WRAP = re.compile(r"^\s*&?\s*(?:mut\s+)?(?:Vec|Option<Vec|BTreeMap|BTreeSet|\[)")
ITER_CALL = re.compile(r"\.(iter|iter_mut|keys|values|values_mut|entries|entries_mut|into_iter|drain|into_keys|into_values)\s*\(")
FOLD_TAIL = re.compile(r"\.(max|min|sum|count|len|is_empty|any|all|max_by_key|min_by_key|max_by|min_by)\s*(::<[^>]*>)?\s*\(")
EFFECT = re.compile(r"allocate_object_id|write_object|write_bytes|write!\s*\(|writeln!\s*\(|\.push\s*\(|push_str|extend_from_slice|write_all|"
                    r"self\s*\.\s*write_|externalize_|write_embedded_font_streams|write_cidfont|write_shading_object|\.write\s*\(")


def strip_tests(src):
    i = src.find("#[cfg(test)]\nmod tests")
    return src if i < 0 else src[:i]


def blank_noncode(src):
    """comments and string/char literal CONTENTS replaced by spaces; length and line numbers are preserved"""
    out, i, n = list(src), 0, len(src)
    while i < n:
        c = src[i]
        if src.startswith("//", i):
            j = src.find("\n", i)
            j = n if j < 0 else j
            for k in range(i, j): out[k] = " "
            i = j
        elif src.startswith("/*", i):
            j = src.find("*/", i + 2)
            j = n if j < 0 else j + 2
            for k in range(i, j):
                if out[k] != "\n": out[k] = " "
            i = j
        elif c == '"' or (c == "r" and re.match(r'r#*"', src[i:i + 6]) and not (i > 0 and (src[i - 1].isalnum() or src[i - 1] == "_"))):
            if c == "r":
                m = re.match(r'r(#*)"', src[i:])
                close = '"' + m.group(1)
                j = src.find(close, i + len(m.group(0)))
                j = n if j < 0 else j + len(close)
                for k in range(i + len(m.group(0)), j - len(close)):
                    if out[k] != "\n": out[k] = " "
                i = j
            else:
                j = i + 1
                while j < n and src[j] != '"':
                    j += 2 if src[j] == "\\" else 1
                for k in range(i + 1, min(j, n)):
                    if out[k] != "\n": out[k] = " "
                i = j + 1
        elif c == "'":
            m = re.match(r"'(\\.[^']*|[^'\\])'", src[i:])
            if m:
                for k in range(i + 1, i + len(m.group(0)) - 1): out[k] = " "
                i += len(m.group(0))
            else:
                i += 1          # lifetime
        else:
            i += 1
    return "".join(out)


def match_brace(s, i):
    depth = 0
    while i < len(s):
        if s[i] == "{": depth += 1
        elif s[i] == "}":
            depth -= 1
            if depth == 0: return i
        i += 1
    return len(s) - 1


def functions(code):
    """(name, sig_start, body_start, body_end) of every fn with a body"""
    res = []
    for m in re.finditer(r"\bfn\s+([A-Za-z_][A-Za-z0-9_]*)\s*(?:<[^>{;]*>)?\s*\(", code):
        j = m.end()
        depth = 1
        while j < len(code) and depth:
            depth += code[j] == "("
            depth -= code[j] == ")"
            j += 1
        k = j
        while k < len(code) and code[k] not in "{;":
            k += 1
        if k >= len(code) or code[k] == ";":
            continue
        res.append((m.group(1), m.start(), k, match_brace(code, k)))
    return res


def is_hash_type(t):
    t = t.strip()
    if ORDERED_WRAP.match(t):
        return False
    return re.search(HASH_TY, t) is not None


FIELD_RE = re.compile(r"^\s*(?:pub(?:\([a-z]+\))?\s+)?([a-z_][a-z0-9_]*)\s*:\s*([^=;{}\n]+?),?\s*$", flags=re.M)


def field_decls(code):
    """(name, type) of struct-field-like declarations; struct-literal initialisers (`x: HashMap::new(),`) are skipped"""
    for m in FIELD_RE.finditer(code):
        t = m.group(2).strip()
        if "(" in t and not t.startswith("(") and "fn(" not in t and "Fn(" not in t:
            continue
        if re.match(r"^[a-z_][a-z0-9_.]*$", t) or re.match(r"^[0-9\"']", t):
            continue
        yield m.group(1), t


def global_env():
    """field names and accessor names whose declared type is hash-ordered, over the crate files that declare them"""
    fields, accessors, ordered = set(), set(), set()
    for f in DECL_FILES:
        p = os.path.join(SRC, f)
        if not os.path.exists(p):
            continue
        code = blank_noncode(strip_tests(open(p).read()))
        for nm, t in field_decls(code):
            (fields if is_hash_type(t) else ordered).add(nm)
        for m in re.finditer(r"\bfn\s+([a-z_][a-z0-9_]*)\s*(?:<[^>]*>)?\s*\([^)]*\)\s*->\s*([^{;]+)", code):
            if is_hash_type(m.group(2)) and not re.search(r"Result<\s*(?:crate::objects::)?Dictionary", m.group(2)):
                accessors.add(m.group(1))
            elif is_hash_type(m.group(2)):
                accessors.add(m.group(1))
    return fields, accessors, ordered


def local_env(sig_and_body, accessors=()):
    """names bound with a hash-ordered type inside one function (parameters, lets, patterns)"""
    names = set()
    for m in re.finditer(r"\b([a-z_][a-z0-9_]*)\s*:\s*&?\s*(?:mut\s+)?([A-Za-z_:][^,)=;{]*)", sig_and_body):
        if is_hash_type(m.group(2)):
            names.add(m.group(1))
    for m in re.finditer(r"(?:Object|PdfObject)::Dictionary\(\s*(?:ref\s+)?(?:mut\s+)?([a-z_][a-z0-9_]*)\s*\)", sig_and_body):
        names.add(m.group(1))
    for m in re.finditer(r"(?:Object|PdfObject)::Stream\(\s*(?:ref\s+)?(?:mut\s+)?([a-z_][a-z0-9_]*)\s*,", sig_and_body):
        names.add(m.group(1))
    for m in re.finditer(r"\blet\s+(?:mut\s+)?([a-z_][a-z0-9_]*)\s*(?::[^=;]+)?=\s*([^;]+);", sig_and_body):
        rhs = m.group(2)
        if re.search(r"\b(?:HashMap|HashSet|Dictionary)\s*::\s*(?:new|with_capacity|default|from)\b", rhs) or \
           re.search(r"\.(?:to_dict|to_annotation_dict|to_pdf_dictionary)\s*\(\s*\)\s*\??\s*$", rhs):
            names.add(m.group(1))
    for m in re.finditer(r"\blet\s+(?:mut\s+)?([a-z_][a-z0-9_]*)\s*=\s*[^;]*?\.\s*([a-z_][a-z0-9_]*)\s*\([^;()]*\)\s*\??\s*;", sig_and_body):
        if m.group(2) in accessors:
            names.add(m.group(1))
    for m in re.finditer(r"Some\(\s*(?:ref\s+)?([a-z_][a-z0-9_]*)\s*\)\s*=\s*&?\s*(?:mut\s+)?(?:self\s*\.\s*)?([a-z_][a-z0-9_]*)\b", sig_and_body):
        if m.group(2) in names:
            names.add(m.group(1))
    # clones / references of a hash-typed name
    changed = True
    while changed:
        changed = False
        for m in re.finditer(r"\blet\s+(?:mut\s+)?([a-z_][a-z0-9_]*)\s*(?::[^=;]+)?=\s*&?\s*([a-z_][a-z0-9_]*)\s*(?:\.clone\(\))?\s*;", sig_and_body):
            if m.group(2) in names and m.group(1) not in names:
                names.add(m.group(1)); changed = True
    return names


def receiver_before(code, dot):
    """text of the expression chain that ends just before index `dot` (method chains may span lines)"""
    i = dot
    depth = 0
    while i > 0:
        c = code[i - 1]
        if c in ")]":
            depth += 1
        elif c in "([":
            if depth == 0: break
            depth -= 1
        elif depth > 0:
            pass
        elif c.isspace():
            # white space is part of the chain only when the chain continues with `.` after it
            j = i
            while j < dot and code[j].isspace(): j += 1
            if code[j] != ".":
                break
        elif not (c.isalnum() or c in "_.:?&*"):
            break
        i -= 1
    return re.sub(r"\s+", "", code[i:dot]).lstrip("&*")


def last_name(recv):
    r = re.sub(r"\([^()]*\)", "()", recv)
    r = r.rstrip("?")
    m = re.search(r"([A-Za-z_][A-Za-z0-9_]*)(\(\))?$", r)
    return (m.group(1), bool(m.group(2))) if m else (None, False)


def statement_bounds(code, pos, lo, hi):
    i = pos
    while i > lo and code[i - 1] not in ";{}":
        i -= 1
    j = pos
    depth = 0
    while j < hi:
        c = code[j]
        if c in "({[": depth += 1
        elif c in ")}]":
            if depth == 0: break
            depth -= 1
        elif c == ";" and depth == 0:
            break
        j += 1
    return i, j



KEY_OK = [
    r"^$",                                                            # .sort() / .sort_unstable(): whole element
    r"^\|&?\(&?([a-z_][a-z0-9_]*),_\)\|\*?\1(?:\.as_str\(\)|\.as_bytes\(\)|\.clone\(\))?$",   # |(k, _)| k / *k / k.as_str()
    r"^\|&?([a-z_][a-z0-9_]*)\|\*?\1(?:\.as_str\(\)|\.as_bytes\(\)|\.clone\(\))?$",             # |k| k
    r"^\|([a-z_]+),([a-z_]+)\|\1\.0\.cmp\(&?\2\.0\)$",                                       # sort_by(|a, b| a.0.cmp(b.0))
]
KEY_REVIEWED = r"^\|&?\(&?([a-z_][a-z0-9_]*),_\)\|\1\.number\(\)$"   # ObjectId number: injective because every key has generation 0


def sort_key_verdict(code, open_paren, whole_src):
    """the sort orders the entries of a hash map: ties of a stable sort stay in iteration order, so the key must be the map
    key itself (injective on the entries).  Returns (ok, key text)."""
    depth, j = 0, open_paren
    while j < len(code):
        if code[j] == "(": depth += 1
        elif code[j] == ")":
            depth -= 1
            if depth == 0: break
        j += 1
    key = re.sub(r"\s+", "", code[open_paren + 1:j])
    if any(re.match(p_, key) for p_ in KEY_OK):
        return True, key
    if re.match(KEY_REVIEWED, key):
        if "ObjectId::new(self.next_object_id, 0)" in whole_src and not re.search(r"\.(?:buffered_objects|xref_positions)\s*\.insert\(\s*ObjectId::new\([^,]+,\s*[^0]", whole_src):
            return True, key
    return False, key


# reviewed exemptions: (function, receiver) -> (statement shape that must still hold, other condition, reason)
REVIEWED = {
    ("write_type0_font_from_font", "used_chars"):
        (r"let used_text: String = used_chars\.iter\(\)\.copied\(\)\.collect\(\)$",
         lambda body: len(re.findall(r"\bused_text\b", body)) == 2 and "font.missing_glyphs(&used_text)" in body and "missing.sort_unstable()" in body,
         "diagnostic only: the text feeds missing_glyphs(), whose result is sorted before it is logged; nothing is written from it"),
}


def classify(code, fn, pos, call_end):
    c, why = classify0(code, fn, pos, call_end)
    name, fs, bs, be = fn
    recv = receiver_before(code, pos) if code[pos] == "." else None
    if c == "EmitsInIterationOrder" and (name, recv) in REVIEWED:
        shape, cond, reason = REVIEWED[(name, recv)]
        s0, s1 = statement_bounds(code, pos, bs, be)
        if re.search(shape, re.sub(r"\s+", " ", code[s0:s1]).strip()) and cond(code[bs:be]):
            return "OrderInsensitive", "reviewed: " + reason
    return c, why


def classify0(code, fn, pos, call_end):
    name, fs, bs, be = fn
    s0, s1 = statement_bounds(code, pos, bs, be)
    stmt = code[s0:s1]
    after = code[s1:min(be, s1 + 400)]
    # for-loop?
    fm = re.match(r"\s*(?:'[a-z_]+\s*:\s*)?for\b[^;]*?\bin\b", code[s0:pos + 1], flags=re.S)
    head_for = fm is not None
    if not head_for:
        lm = re.match(r"\s*let\s+(?:mut\s+)?([a-z_][a-z0-9_]*)\s*(:[^=]+)?=", stmt)
        if lm and re.search(r"\.collect\s*(::<[^;]*>)?\s*\(\s*\)\s*$", stmt.strip()):
            v, ty = lm.group(1), lm.group(2) or ""
            turbofish = re.search(r"\.collect\s*::<([^;]*)>\s*\(\s*\)\s*$", stmt.strip())
            tytxt = ty + (turbofish.group(1) if turbofish else "")
            if re.search(r"BTreeMap|BTreeSet", tytxt):
                return "SortedBeforeUse", "collected into a BTree container"
            if re.search(r"HashMap|HashSet", tytxt):
                return "OrderInsensitive", "collected into a hash container"
            nxt = re.match(r"\s*;\s*(?:[a-z_][a-z0-9_]*\s*\.\s*(?:dedup|retain)[^;]*;\s*)?%s\s*\.\s*sort(?:_unstable)?(?:_by_key|_by)?\s*\(" % re.escape(v), after)
            if nxt:
                ok, key = sort_key_verdict(code, s1 + nxt.end() - 1, code)
                if not ok:
                    return "EmitsInIterationOrder", "`%s` is sorted by `%s`, which is not the map key itself: entries that tie keep the iteration order" % (v, key)
                return "SortedBeforeUse", "`%s` sorted by the map key right after collection" % v
            return "EmitsInIterationOrder", "collected into `%s` without a following sort" % v
        tail = code[call_end:s1]
        if FOLD_TAIL.search(tail) or re.search(r"\.collect\s*::<\s*(?:std::collections::)?(?:HashMap|HashSet|BTreeMap|BTreeSet)", tail):
            return "OrderInsensitive", "order-insensitive consumer"
        if re.search(r"\.extend\s*\($", code[s0:pos].rstrip()[-40:] + "") or re.search(r"\b[a-z_]+\s*\.\s*extend\s*\(", code[s0:pos]):
            tgt = re.search(r"\b([a-z_][a-z0-9_]*)\s*\.\s*extend\s*\(", code[s0:pos])
            return ("OrderInsensitive", "extends a set") if tgt else ("EmitsInIterationOrder", "extend")
        return "EmitsInIterationOrder", "iterator consumed in order"
    # for loop: find the body
    b = code.find("{", call_end if call_end > pos else pos)
    # the `{` that opens the body is the first one at paren depth 0 after `in`
    k, depth = pos, 0
    while k < be:
        c = code[k]
        if c in "([": depth += 1
        elif c in ")]": depth -= 1
        elif c == "{" and depth == 0:
            break
        k += 1
    body = code[k:match_brace(code, k) + 1]
    eff = set(EFFECT.findall(body))
    pm = re.findall(r"\b([a-z_][a-z0-9_]*)\s*\.push\s*\(", body)
    if eff and all(e.strip().startswith(".push") for e in eff) and len(set(pm)) == 1:
        v = pm[0]
        rest = code[match_brace(code, k):be]
        sm = re.search(r"\b%s\s*\.\s*sort(?:_unstable)?(?:_by_key|_by)?\s*\(" % re.escape(v), rest)
        if sm:
            base = match_brace(code, k)
            ok, key = sort_key_verdict(code, base + sm.end() - 1, code)
            if not ok:
                return "EmitsInIterationOrder", "pushed onto `%s`, sorted by `%s` (not the pushed key itself)" % (v, key)
            return "SortedBeforeUse", "pushed onto `%s`, which is sorted after the loop" % v
    if EFFECT.search(body):
        return "EmitsInIterationOrder", "loop body allocates ids / writes / pushes onto a sequence: " + EFFECT.search(body).group(0).strip()
    return "OrderInsensitive", "loop body only inserts into maps"


def census():
    fields, accessors, ordered_fields = global_env()
    sites, n_calls = [], 0
    for f in FILES:
        raw = strip_tests(open(os.path.join(SRC, f)).read())
        code = blank_noncode(raw)
        fns = functions(code)
        # fields declared in this very file take precedence over same-named fields elsewhere in the crate
        own_hash, own_ordered = set(), set()
        for nm_, t_ in field_decls(code):
            (own_hash if is_hash_type(t_) else own_ordered).add(nm_)
        for fn in fns:
            name, fs, bs, be = fn
            # skip nested fn bodies being counted twice: attribute a site to the innermost function
            env = local_env(code[fs:be], accessors)
            seen = set()
            cands = []
            for m in ITER_CALL.finditer(code, bs, be):
                cands.append((m.start(), m.end(), receiver_before(code, m.start()), m.group(1)))
            for m in re.finditer(r"\bfor\b[^;{]*?\bin\s+(&\s*(?:mut\s+)?)?([A-Za-z_][A-Za-z0-9_.]*(?:\(\))?)\s*\{", code[bs:be]):
                cands.append((bs + m.start(2), bs + m.end(2), re.sub(r"\s+", "", m.group(2)), "for"))
            for pos, end, recv, how in sorted(cands):
                inner = [g for g in fns if g[2] > bs and g[3] < be and g[2] <= pos <= g[3]]
                if inner:
                    continue
                n_calls += 1
                nm, is_call = last_name(recv)
                if nm is None:
                    continue
                if how == "for" and ITER_CALL.search(recv + "("):
                    continue
                if not is_call and "." in recv and (nm in own_hash or nm in own_ordered):
                    hashy = nm in own_hash and nm not in own_ordered
                else:
                    hashy = (nm in env and not is_call and "." not in recv) or (is_call and nm in accessors) or \
                            (not is_call and "." in recv and nm in fields and nm not in ordered_fields)
                if recv.endswith(".0") or re.search(r"\.0$", recv):
                    base = last_name(recv[:-2])[0]
                    hashy = base in env
                if not hashy:
                    continue
                line = raw.count("\n", 0, pos) + 1
                cls, why = classify(code, fn, pos, end)
                key = "%s:%s:%s" % (f, name, recv)
                k = 0
                while (key, k) in seen: k += 1
                seen.add((key, k))
                sites.append({"id": "%s#%d" % (key, k), "file": f, "fn": name, "recv": recv, "line": line, "class": cls, "why": why,
                              "text": raw.splitlines()[line - 1].strip()[:110]})
    return sites, n_calls


def generate(gen_dir):
    sites, n_calls = census()
    if len(sites) < 20:
        raise RuntimeError("census found only %d hash-ordered iteration sites: the writer sources changed shape" % len(sites))
    lines = ["(** GENERATED by translator/gen_itersites.py from the writer sources — do not edit. *)",
             "From OxVerif Require Import Base.Util C20.Model.", "Open Scope string_scope.",
             "Definition sites : list (string * site_class) := ["]
    rows = []
    for s in sites:
        rows.append('  ("%s @%d", %s)' % (s["id"].replace('"', "'"), s["line"], s["class"]))
    lines.append(";\n".join(rows))
    lines.append("].")
    lines.append("Definition n_iteration_expressions : N := %d%%N." % n_calls)
    text = "\n".join(lines) + "\n"
    p = os.path.join(gen_dir, "IterSites.v")
    if not os.path.exists(p) or open(p).read() != text:
        open(p, "w").write(text)
    return {"sites": sites, "iteration_expressions_seen": n_calls,
            "by_class": {c: sum(1 for s in sites if s["class"] == c) for c in sorted(set(s["class"] for s in sites))}}


if __name__ == "__main__":
    import json, sys
    sites, n = census()
    for s in sites:
        print("%-22s %s:%d  %s  [%s]  -- %s" % (s["class"], s["file"], s["line"], s["recv"], s["fn"], s["why"]))
    print(len(sites), "hash-ordered sites of", n, "iteration expressions")
