"""Common machinery for the /verif checks: Coq build + audit, harness build/run, evaluation of
correspondence case files inside Coq, verdict logic (known findings, violation lines), evidence."""
import fcntl, glob, hashlib, json, os, re, shutil, subprocess, sys, time
from concurrent.futures import ThreadPoolExecutor

ROOT = os.path.dirname(os.path.dirname(os.path.abspath(__file__)))
COQ = os.path.join(ROOT, "coq")
BUILD = os.path.join(ROOT, "build")
REPO = os.environ.get("OXVERIF_REPO", "/repo")
CRATE = os.path.join(REPO, "oxidize-pdf-core")
GUARD = "oxidizepdf_verif"
OXH = os.path.join(BUILD, "cargo-target", "debug", "oxh")
COQ_INC = ["-Q", os.path.join(COQ, "theories"), "OxVerif", "-Q", os.path.join(COQ, "Gen"), "OxGen"]

TRUSTED_BASE = [
    "Coq 8.16.1 kernel (coqc); vm_compute bytecode VM; no native_compute",
    "no axioms declared by the development; Print Assumptions output audited per theorem",
    "correspondence harness oxh (Rust, debug profile, overflow checks on) and its generators",
    "hand-written Gallina models in coq/theories/*/Model.v, tied to /repo by the correspondence run of this check",
]


def sh(cmd, timeout=600, cwd=None, env=None, input=None):
    e = dict(os.environ)
    e.update({"CARGO_NET_OFFLINE": "true"})
    if env:
        e.update(env)
    try:
        p = subprocess.run(cmd, shell=isinstance(cmd, str), cwd=cwd, env=e, timeout=timeout,
                           stdout=subprocess.PIPE, stderr=subprocess.STDOUT, input=input)
        return p.returncode, p.stdout.decode("utf-8", "replace")
    except subprocess.TimeoutExpired as ex:
        return 124, (ex.stdout or b"").decode("utf-8", "replace") + "\n[timeout]"


def write_cargo_toml():
    h = os.path.join(ROOT, "harness")
    t = open(os.path.join(h, "Cargo.toml.in")).read().replace("@REPO@", REPO)
    p = os.path.join(h, "Cargo.toml")
    if not os.path.exists(p) or open(p).read() != t:
        open(p, "w").write(t)


class Lock:
    def __init__(self, name):
        os.makedirs(BUILD, exist_ok=True)
        self.path = os.path.join(BUILD, name + ".lock")

    def __enter__(self):
        self.f = open(self.path, "w")
        fcntl.flock(self.f, fcntl.LOCK_EX)

    def __exit__(self, *a):
        fcntl.flock(self.f, fcntl.LOCK_UN)
        self.f.close()


def load_known():
    p = os.path.join(ROOT, "KNOWN_FINDINGS.json")
    if not os.path.exists(p):
        return []
    return json.load(open(p))["findings"]


class Run:
    """One invocation of one property's check."""

    def __init__(self, pid, tier, seed, replay=None):
        self.pid, self.tier, self.seed, self.replay = pid, tier, seed, replay
        self.t0 = time.time()
        self.rundir = os.path.join(BUILD, "run", pid)
        shutil.rmtree(self.rundir, ignore_errors=True)
        os.makedirs(self.rundir, exist_ok=True)
        self.replaydir = os.path.join(BUILD, "replay", pid)
        shutil.rmtree(self.replaydir, ignore_errors=True)
        os.makedirs(self.replaydir, exist_ok=True)
        self.violations = []      # (replay_path, message, no_failing_input)
        self.known_seen = {}      # finding id -> count
        self.known = {f["id"]: f for f in load_known() if f["property"] == pid}
        self.obligations = 0
        self.discharged = 0
        self.axioms = []
        self.proof_broken = []    # names of theorems / files that no longer check
        self.corr_broken = []     # channels whose model != impl
        self.cov = {"evaluations": 0, "distinct_nontrivial": 0, "samples": [], "channels": {}}
        self.notes = []
        self.assumptions = []
        self.rule = ""
        self.extra_cov = {}
        self.level = "proof"

    # ---------------------------------------------------------------- Coq side
    def coq_make(self, targets, timeout=1500):
        """build the given .vo targets (and their dependencies) with the generated Makefile"""
        with Lock("coq"):
            sh("./mkproject.sh", cwd=COQ)
            rc, out = sh(["make", "-j16"] + targets, timeout=timeout, cwd=COQ)
        if rc != 0:
            m = re.findall(r'File "([^"]+)", line (\d+)', out)
            self.proof_broken.append("make %s failed at %s" % (" ".join(targets), m[-1] if m else "?"))
            self.note("coq make failed:\n" + out[-1500:])
        return rc == 0

    def audit_sources(self, files):
        """forbidden constructs anywhere in the files this property depends on"""
        bad = re.compile(r"\b(Admitted|admit|Axiom|Parameter|Conjecture|Admit Obligations|Unset Guard Checking|"
                         r"bypass_check|Unset Positivity Checking|Unset Universe Checking|type-in-type|impredicative-set)\b")
        hits = []
        for f in files:
            src = open(f).read()
            src_nc = re.sub(r"\(\*.*?\*\)", "", src, flags=re.S)
            for m in bad.finditer(src_nc):
                hits.append("%s: %s" % (os.path.relpath(f, ROOT), m.group(0)))
            # Variable/Hypothesis outside a section
            depth = 0
            for line in src_nc.splitlines():
                if re.match(r"\s*Section\b", line): depth += 1
                elif re.match(r"\s*End\b", line) and depth > 0: depth -= 1
                elif depth == 0 and re.match(r"\s*(Variables?|Hypothes[ie]s|Context)\b", line):
                    hits.append("%s: %s outside a section" % (os.path.relpath(f, ROOT), line.strip()[:40]))
        if hits:
            self.proof_broken.append("forbidden construct: " + "; ".join(hits[:5]))
        return not hits

    def dep_files(self, vfile):
        """transitive .v dependencies of vfile inside /verif/coq (by Require lines)"""
        seen, todo = set(), [vfile]
        while todo:
            f = todo.pop()
            if f in seen or not os.path.exists(f):
                continue
            seen.add(f)
            src = open(f).read()
            for m in re.finditer(r"From\s+(OxVerif|OxGen)\s+Require\s+(?:Import|Export)?\s*([^.]*(?:\.[A-Za-z_][^.\s]*)*)\.", src):
                root = "theories" if m.group(1) == "OxVerif" else "Gen"
                for mod in m.group(2).split():
                    todo.append(os.path.join(COQ, root, *mod.split(".")) + ".v")
        return sorted(seen)

    def props_compile(self, allow_axioms=(), timeout=900, name=None):
        """compile Props/<pid>.v, pin statements, audit assumptions"""
        vf = os.path.join(COQ, "Props", (name or self.pid) + ".v")
        src = open(vf).read()
        n_ob = len(re.findall(r"^\s*Print Assumptions\s", src, flags=re.M))
        n_thm = len(re.findall(r"^\s*(Theorem|Lemma|Corollary)\s", src, flags=re.M))
        n_chk = len(re.findall(r"^\s*Check\s", src, flags=re.M))
        self.obligations += n_ob
        deps = self.dep_files(vf)
        ok_src = self.audit_sources(deps)
        with Lock("coq"):
            rc, out = sh(["coqc"] + COQ_INC + ["-w", "-notation-overridden,-deprecated-hint-without-locality,-deprecated-syntactic-definition", vf], timeout=timeout, cwd=COQ)
        open(os.path.join(self.rundir, "props.log"), "w").write(out)
        if rc != 0:
            m = re.search(r'line (\d+), characters', out)
            thm = "?"
            if m:
                ln = int(m.group(1))
                for mm in re.finditer(r"^\s*(?:Theorem|Lemma|Corollary|Example|Check)\s+(\w+)", src, flags=re.M):
                    if src.count("\n", 0, mm.start()) + 1 <= ln:
                        thm = mm.group(1)
            self.proof_broken.append("Props/%s.v: %s no longer checks" % (name or self.pid, thm))
            self.note("props compile failed:\n" + out[-1200:])
            return False
        closed = len(re.findall(r"Closed under the global context", out))
        thm_names = set(re.findall(r"^\s*(?:Theorem|Lemma|Corollary|Example)\s+(\w+)", src, flags=re.M))
        n_ax_ok = 0
        for blk in out.split("Axioms:\n")[1:]:
            names = []
            for line in blk.splitlines():
                if line.startswith("Closed under"):
                    break
                m = re.match(r"^([A-Za-z_][\w.']*)\s*(:|$)", line)
                if m:
                    if m.group(1) in thm_names:
                        break
                    names.append(m.group(1))
            bad = [n for n in names if n.split(".")[-1] not in allow_axioms]
            for n in names:
                if n not in self.axioms: self.axioms.append(n)
            if bad:
                self.proof_broken.append("unexpected axioms: " + ", ".join(bad))
            else:
                n_ax_ok += 1
        self.discharged += closed + n_ax_ok
        if n_thm != n_ob or n_chk < n_ob:
            self.proof_broken.append("Props/%s.v: every theorem needs a Check pin and Print Assumptions (%d thm, %d check, %d print)" % (self.pid, n_thm, n_chk, n_ob))
        if closed + n_ax_ok != n_ob:
            self.proof_broken.append("Props/%s.v: %d of %d obligations discharged" % (self.pid, closed + n_ax_ok, n_ob))
        return ok_src and not self.proof_broken

    # ---------------------------------------------------------------- harness side
    def build_harness(self, timeout=1500):
        with Lock("cargo"):
            write_cargo_toml()
            rc, out = sh("cargo build --offline 2>&1 | grep -v '^warning\\|^ *|\\|^ *-->\\|^ *=\\|^$\\|^\\.\\.\\.' | tail -40",
                         timeout=timeout, cwd=os.path.join(ROOT, "harness"),
                         env={"RUSTFLAGS": "--cfg " + GUARD + " -Awarnings"})
        if not os.path.exists(OXH) or "error" in out.lower() and "Finished" not in out:
            self.note("harness build failed:\n" + out[-3000:])
            return False
        return True

    def harness(self, prop, extra=(), timeout=1200, cases_from=None, sub=None, tier=None, seed=None, env=None):
        outdir = os.path.join(self.rundir, sub or prop)
        os.makedirs(outdir, exist_ok=True)
        cmd = [OXH, prop, "--seed", str(self.seed if seed is None else seed), "--tier", tier or self.tier, "--out", outdir] + list(extra)
        if cases_from:
            cmd += ["--cases-from", cases_from]
        rc, out = sh(cmd, timeout=timeout, env=env)
        open(os.path.join(outdir, "harness.log"), "w").write(out)
        if rc != 0:
            self.note("harness %s exited %d: %s" % (prop, rc, out[-800:]))
        return outdir, rc, out

    def coq_eval(self, outdir, channel, timeout=900):
        """evaluate all shards of a channel; returns (meta, [(global_index, code)])"""
        meta = json.load(open(os.path.join(outdir, channel + ".meta.json")))
        shards = sorted(glob.glob(os.path.join(outdir, channel + "_[0-9][0-9][0-9].v")))
        fails, total, errors = [], 0, []

        def one(vf):
            rc, out = sh(["coqc", "-noglob"] + COQ_INC + ["-w", "-all", vf], timeout=timeout, cwd=outdir)
            return vf, rc, out
        with ThreadPoolExecutor(max_workers=16) as ex:
            results = list(ex.map(one, shards))
        for k, (vf, rc, out) in enumerate(results):
            flat = re.sub(r"\s+", " ", out)
            m = re.search(r"= \((\d+), (\[.*?\])\) : N \* list \(N \* N\)", flat)
            if rc != 0 or not m:
                errors.append((vf, out[-600:]))
                continue
            total += int(m.group(1))
            for a, b in re.findall(r"\(\s*(\d+),\s*(\d+)\s*\)", m.group(2)):
                fails.append((k * meta["shard_size"] + int(a), int(b)))
        if errors:
            self.corr_broken.append("channel %s: Coq evaluation failed for %d shard(s): %s" % (channel, len(errors), errors[0][1][-300:]))
        if total != meta["evaluations"] and not errors:
            self.corr_broken.append("channel %s: evaluated %d of %d cases" % (channel, total, meta["evaluations"]))
        ch = self.cov["channels"].setdefault(channel, {"evaluations": 0, "distinct_nontrivial": 0, "classes": {}})
        ch["evaluations"] += meta["evaluations"]
        ch["distinct_nontrivial"] += meta["distinct_nontrivial"]
        for k2, v in meta["classes"].items():
            ch["classes"][k2] = ch["classes"].get(k2, 0) + v
        if meta.get("extra"): ch["extra"] = meta["extra"]
        self.cov["evaluations"] += meta["evaluations"]
        self.cov["distinct_nontrivial"] += meta["distinct_nontrivial"]
        for smp in meta["samples"][:2]:
            if len(self.cov["samples"]) < 8:
                self.cov["samples"].append({"channel": channel, "case": smp})
        return meta, fails

    # ---------------------------------------------------------------- verdict
    def note(self, s):
        self.notes.append(s)
        sys.stderr.write("[%s] %s\n" % (self.pid, s))

    def write_replay(self, name, obj):
        p = os.path.join(self.replaydir, name + ".json")
        json.dump(obj, open(p, "w"), indent=1)
        return p

    def violation(self, name, obj, msg, no_input=False):
        obj = dict(obj)
        obj.setdefault("property", self.pid)
        obj["what"] = msg
        p = self.write_replay(name, obj)
        self.violations.append((p, msg, no_input))

    def known_finding(self, fid):
        self.known_seen[fid] = self.known_seen.get(fid, 0) + 1

    def handle_fails(self, channel, meta, fails, classify=None, prop_bit=2):
        """Default triage of Coq-side failure codes.  classify(case, code) -> known-finding id or None."""
        model_only = []
        # smallest failing cases first: the reported replay is the shortest failing case of the run
        fails = sorted(fails, key=lambda ic: len(json.dumps(meta["cases"][ic[0]])) if ic[0] < len(meta["cases"]) else 0)
        for idx, code in fails:
            case = meta["cases"][idx] if idx < len(meta["cases"]) else None
            fid = classify(case, code) if classify else None
            if fid is not None and fid in self.known and self.known[fid].get("status") == "open":
                self.known_finding(fid)
                continue
            if code & ~1:   # a property bit is set
                if len([v for v in self.violations if not v[2]]) < 5:
                    self.violation("%s_%s_%d" % (self.pid, channel, idx),
                                   {"channel": channel, "case": case, "code": code, "seed": self.seed, "tier": self.tier},
                                   "property predicate fails on the implementation (code %d)" % code)
            else:
                model_only.append((idx, case))
        for f in meta.get("impl_failures", []):
            fid = classify(f.get("case"), -1) if classify else None
            if fid is not None and fid in self.known and self.known[fid].get("status") == "open":
                self.known_finding(fid)
                continue
            if len(self.violations) < 5:
                self.violation("%s_%s_impl%d" % (self.pid, channel, len(self.violations)),
                               {"channel": channel, "case": f.get("case"), "detail": f, "seed": self.seed},
                               "implementation-side failure: %s" % f.get("what"))
        if model_only:
            p = self.write_replay("%s_%s_modeldiff" % (self.pid, channel),
                                  {"property": self.pid, "channel": channel, "cases": [c for _, c in model_only[:5]],
                                   "what": "model and implementation differ (property predicate still holds on these)"})
            self.corr_broken.append("channel %s: model differs from implementation on %d case(s), e.g. %s" % (channel, len(model_only), p))
        return model_only

    def finish(self, technique=""):
        # proof or correspondence broken without a concrete failing input
        real = [v for v in self.violations if not v[2]]
        if (self.proof_broken or self.corr_broken) and not real:
            p = self.write_replay(self.pid + "_obligation",
                                  {"property": self.pid, "proof_broken": self.proof_broken,
                                   "correspondence_broken": self.corr_broken, "notes": self.notes[-3:]})
            self.violations.append((p, "; ".join(self.proof_broken + self.corr_broken)[:300], True))
        wall = time.time() - self.t0
        cov = dict(self.cov)
        cov.update({
            "obligations": self.obligations,
            "discharged": self.discharged,
            "checker_cmd": "coqc -Q coq/theories OxVerif -Q coq/Gen OxGen coq/Props/%s.v (after make of its dependencies); case files evaluated with coqc/vm_compute" % self.pid,
            "trusted_base": TRUSTED_BASE + (["axioms: " + ", ".join(self.axioms)] if self.axioms else ["Print Assumptions: Closed under the global context for every theorem"]),
            "rule": self.rule,
            "known_findings_reproduced": self.known_seen,
            "proof_broken": self.proof_broken,
            "correspondence_broken": self.corr_broken,
        })
        cov.update(self.extra_cov)
        if not cov["samples"]:
            cov["samples"] = [{"note": "no correspondence cases in this run"}]
        ev = {
            "property_id": self.pid, "tier": self.tier, "seed": self.seed, "level": self.level,
            "coverage": cov, "assumptions": self.assumptions, "wall_s": round(wall, 2),
            "violations": len(self.violations),
        }
        os.makedirs(os.path.join(ROOT, "evidence"), exist_ok=True)
        json.dump(ev, open(os.path.join(ROOT, "evidence", self.pid + ".json"), "w"), indent=1)
        for fid, n in sorted(self.known_seen.items()):
            print("KNOWN-FINDING: property=%s %s [%s, %d case(s) this run]" % (self.pid, self.known[fid]["what"], fid, n))
        for p, msg, no_input in self.violations:
            print("VIOLATION property=%s replay=%s %s%s" % (self.pid, p, msg.replace("\n", " ")[:200], " no-failing-input-found" if no_input else ""))
        print("[%s] tier=%s seed=%d obligations=%d/%d evaluations=%d nontrivial=%d wall=%.1fs %s" % (
            self.pid, self.tier, self.seed, self.discharged, self.obligations, self.cov["evaluations"],
            self.cov["distinct_nontrivial"], wall, "FAIL" if self.violations else "ok"))
        return 1 if self.violations else 0


def coqchk(r, proof_targets, allow_axioms=()):
    """thorough tier: re-check the compiled proofs and everything they depend on with the independent checker"""
    mods = ["OxVerif." + t[len("theories/"):-3].replace("/", ".") for t in proof_targets if t.startswith("theories/")]
    rc, out = sh(["coqchk", "-o", "-silent"] + COQ_INC + mods, timeout=2400, cwd=COQ)
    res = {}
    for key in ("Axioms", "Constants/Inductives relying on type-in-type", "Constants/Inductives relying on unsafe (co)fixpoints",
                "Inductives whose positivity is assumed"):
        m = re.search(re.escape("* " + key) + r":\s*(.*?)(?=\n\s*\n|\n\* |\Z)", out, flags=re.S)
        res[key] = re.sub(r"\s+", " ", m.group(1)).strip() if m else "?"
    r.extra_cov["coqchk"] = {"modules": mods, "exit": rc, "report": res}
    bad = [k for k, v in res.items() if v != "<none>" and not (k == "Axioms" and all(a.split(".")[-1] in allow_axioms for a in v.split()))]
    if rc != 0 or bad:
        r.proof_broken.append("coqchk: " + ("exit %d; " % rc if rc else "") + "; ".join("%s: %s" % (k, res[k][:120]) for k in bad))


def standard(r, prop, proof_targets, model_targets, channels, classify=None, allow_axioms=(), pre=None,
             harness_timeout=1500, eval_timeout=1200, extra=()):
    """The common flow: proofs -> audit -> harness -> Coq evaluation of every channel -> triage.
    When an obligation or the correspondence is broken in a quick run and no failing input was found,
    the search is widened once with the thorough generator before reporting no-failing-input-found."""
    ok = r.coq_make(proof_targets)
    if ok:
        r.props_compile(allow_axioms)
        if r.tier == "thorough" and not r.replay:
            coqchk(r, proof_targets, allow_axioms)
    else:
        r.coq_make(model_targets)      # models must still evaluate when a proof breaks
        r.proof_broken = r.proof_broken[:1]
    if pre:
        pre(r)
    if not r.build_harness():
        r.corr_broken.append("harness does not build against the current tree")
        return r.finish()
    for attempt in (0, 1):
        if attempt == 1:
            real = [v for v in r.violations if not v[2]]
            if r.tier != "quick" or r.replay or real or not (r.proof_broken or r.corr_broken):
                break
            r.note("obligation broken: widening the search (thorough generator, seed+1)")
        out, rc, log = r.harness(prop, cases_from=r.replay, tier=("thorough" if attempt else r.tier),
                                 seed=r.seed + attempt, sub="%s_%d" % (prop, attempt), timeout=harness_timeout, extra=extra)
        if rc != 0:
            r.corr_broken.append("harness %s failed (exit %d): %s" % (prop, rc, log[-300:]))
            break
        for ch in channels:
            if not os.path.exists(os.path.join(out, ch + ".meta.json")):
                continue
            meta, fails = r.coq_eval(out, ch, timeout=eval_timeout)
            r.handle_fails(ch, meta, fails, classify)
    return r.finish()
