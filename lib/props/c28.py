"""C28 — outlines and destinations written are navigable as authored."""
from vlib import *

RULE = ("outline: every forest shape with up to N items (N=4 quick, 5 thorough) under every open/closed assignment, plus seeded random "
        "forests (depth <= 4, width <= 4, <= 60 items), written by the real Document/PdfWriter under classic, xref-stream and (rarely) "
        "object-stream configurations, re-opened, ALL outline item dictionaries collected by scanning the objects (not by following "
        "links), compared with the emission model and judged by the 12.3.3 navigability checker; dest: the /Dest of every item against "
        "the authored page; names: named destinations of a Document serialized 1..3 times, every authored name must resolve in every copy. non-trivial = some non-last sibling has children (sibling ids not contiguous); distinct by case text")


def classify(case, code):
    # no open class: C28-dest-bare-page-number (formerly code 6) is FIXED by fix_dest_page_reference; a destination
    # that does not resolve to the authored page (a bare page number included) is code 2 -> VIOLATION
    return None


def run(r):
    r.rule = RULE
    r.assumptions = ["allocate_object_id hands out consecutive ids for the reserved block (checked by the correspondence: model ids = written ids)",
                     "the library's own parser is used to read the written dictionaries back (object level only)"]
    return standard(r, "c28", ["theories/C28/Proofs.vo"], ["theories/C28/Model.vo"], ["outline", "dest", "names"], classify=classify)
