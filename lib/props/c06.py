"""C06 — encrypted files interoperate with an independent implementation."""
import glob, json, os
from vlib import *

RULE = ("library -> independent (channels lkey, l2i): documents written by the real writer under 4 strengths x {classic, classic uncompressed, xref stream, "
        "xref + object streams} x password pairs; the /Encrypt entries and every object with a string or stream, as found in the FILE by an independent "
        "raw scanner, go to Coq where the reference (RefDecrypt over C23's RC4/MD5/AES/SHA-2/CBC and Algorithms 1, 2, 6, 7, 2.A, 11, 12; passwords "
        "PDFDocEncoded for R2-R4, UTF-8 cut at 127 bytes for R5) must arrive at the file key and at the plaintext handed to the writer. "
        "independent -> library (channels ikey, i2l): files built by the harness's own encryptor (own RC4/MD5/SHA-2/AES, ISO algorithms; R2, R3, R4-RC4, "
        "R4-AESV2, R6-AESV3; EncryptMetadata true/false; classic xref or xref stream + encrypted object stream with plaintext members; strings in arrays, "
        "nested dictionaries, a stream dictionary; XMP metadata stream) opened by the real reader with the user or owner password; Coq re-checks the "
        "encryptor's output with RefDecrypt (bit 4) and compares the reader's objects with the plaintext (bit 2) and with the reader model (bit 1). "
        "Object trees of the independent files contain arrays whose elements are only dictionaries (strings at depth 1-3), numbers/names/references + a dictionary, "
        "a dictionary array inside a dictionary array, and mixed arrays, for every cipher. Channel r6: 48 (thorough 150) small R6 files from the harness's own Algorithm 2.B "
        "(4 (password, salt) evaluations each, stopping round and last byte reported per evaluation); salts are searched so that evaluations stop exactly on the boundary "
        "last byte = rounds - 32 (user validation / user key / owner validation / owner key), at rounds - 33, and pass a round at rounds - 31; each file must open with the user AND "
        "the owner password and give the file key and the plaintext objects. Channel h2b: the boundary evaluation of the run is re-computed by the Gallina Algorithm 2.B. "
        "non-trivial = the object has a non-empty string or stream / the password was accepted")

CHANNELS = ["lkey", "l2i", "ikey", "i2l", "r6", "h2b"]


def classify(case, code):
    if not case or code == -1:
        return None
    ch = case.get("ch")
    if ch == "l2i":
        if case.get("skipkey"):
            return "C06-skipped-keys"
        if case.get("marker"):
            return "C06-crypt-marker"
    if ch == "lkey" and code == 4:
        if case.get("r", 9) <= 4 and case.get("nonascii"):
            return "C06-pdfdoc-password"
        if case.get("r") == 5 and case.get("pwlen", 0) > 127:
            return "C06-long-password-r5"
    if ch == "ikey" and code == 2 and case.get("r", 9) <= 4 and case.get("nonascii"):
        return "C06-pdfdoc-password"
    if ch == "i2l" and not (code & 4) and not case.get("member"):
        if case.get("dictstr"):
            return "C06-stream-dict-strings"
        if case.get("clearmeta"):
            return "C06-encrypt-metadata"
    return None


def corpus(r):
    files = sorted(glob.glob(os.path.join(ROOT, "corpus", "C06", "*.json")))
    if not files or r.replay:
        return
    if not r.build_harness():
        return
    cases = []
    for f in files:
        cases += json.load(open(f))
    p = os.path.join(r.rundir, "corpus_cases.json")
    json.dump(cases, open(p, "w"))
    out, rc, log = r.harness("c06", cases_from=p, sub="c06_corpus", timeout=900)
    if rc != 0:
        r.corr_broken.append("harness c06 failed on the corpus (exit %d)" % rc)
        return
    for ch in CHANNELS:
        if os.path.exists(os.path.join(out, ch + ".meta.json")):
            meta, fails = r.coq_eval(out, ch, timeout=2400)
            r.handle_fails(ch, meta, fails, classify)


def run(r):
    r.rule = RULE
    r.assumptions = ["the independent implementation is the Gallina reference C06/RefDecrypt.v over C23's specifications (no qpdf in the sandbox); the harness's own encryptor is only a producer whose output the reference re-checks",
                     "ciphers enter the theorems as functions with dec k id (enc k id iv x) = Some x (see C05)",
                     "model of the reader is of the tree with fix_objstm_double_decrypt.patch applied; the writer with fix_xref_stream_encrypt.patch and fix_objstm_encrypt_writer.patch",
                     "SASLprep is applied by neither side; revision 6 key derivation (Algorithm 2.B) is evaluated for very few cases (minutes each inside Coq)"]
    return standard(r, "c06", ["theories/C06/Proofs.vo"], ["theories/C06/RefDecrypt.vo"], CHANNELS, classify=classify,
                    pre=corpus, harness_timeout=1800, eval_timeout=2400)
