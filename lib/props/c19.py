"""C19 — damaged cross-reference data is reconstructed faithfully."""
import glob, os
from vlib import *

RULE = ("scan: file bytes (reference-rendered single-revision documents intact and damaged, adversarial documents, byte soups with "
        "every white-space / sign / overflow / CR-LF variant, long lines around the carry cap, library-written files) -> the real "
        "scan_object_headers_chunked with chunk sizes 1,7,64,300,1100,65536 and parse_with_recovery_options (cfg hooks) against the "
        "byte-level Gallina scan, add_headers, catalog search and trailer synthesis; for rendered documents the recovered table and /Root "
        "are compared with the true offsets of the document.  open: valid files (library Document->to_bytes with classic xref and no "
        "object streams; reference-rendered documents with permuted numbers/layout, gaps, multi-line dictionaries; STYLED documents: "
        "top-level objects of every value kind (dict, array, name, literal/hex string, integer, real, true/false/null, stream) all "
        "referenced from the page tree, written with every legal delimitation of `obj` (nothing / space / TAB / FF / EOL / a comment "
        "before a delimiter-initial value, white space or comment before a regular one), `endobj` glued to or separated from the value, "
        "LF / CR / CRLF line ends, modes all-compact / all-comment / random / plain) x every damage "
        "operation of the catalogue (36 operations in 9 families) and sampled pairs x presets default/new/tolerant/skip_errors/strict; "
        "catalog, page count and EVERY object of the intact file fetched from both opens and compared.  non-trivial = (scan) at least two "
        "headers found, (open) the damage makes the primary parse fail under a recovering preset so that the reconstruction really runs")

F_PARSEABLE = "C19-parseable-table-wrong-offsets"
F_HEADER = "C19-header-like-line-in-body"
F_CATALOG = "C19-catalog-text-heuristic"


def classify(case, code):
    if not case or code < 0 or not (code & 2):
        return None
    if case.get("ch") == "scan":
        # bits 4 / 8 are computed by the SPEC side from the document (hypotheses of the theorems)
        if code & 4:
            return F_HEADER
        if code & 8:
            return F_CATALOG
        return None
    if case.get("ch") == "open":
        if case.get("primary_ok"):
            return F_PARSEABLE if case.get("primary_table_differs") else None
        adv = case.get("adversarial") or ""
        if adv == "header_line":
            return F_HEADER
        if adv in ("catalog_text", "endobj_text"):
            return F_CATALOG
    return None


def corpus(r):
    if r.replay:
        return
    files = sorted(glob.glob(os.path.join(ROOT, "corpus", "C19", "*.json")))
    if not files or not r.build_harness():
        return
    for i, f in enumerate(files):
        out, rc, log = r.harness("c19", cases_from=f, sub="corpus_%d" % i)
        if rc != 0:
            r.corr_broken.append("corpus replay %s failed" % os.path.basename(f))
            continue
        for ch in ["scan", "open"]:
            if os.path.exists(os.path.join(out, ch + ".meta.json")):
                meta, fails = r.coq_eval(out, ch)
                r.handle_fails(ch, meta, fails, classify)


def run(r):
    r.rule = RULE
    r.assumptions = ["HashMap is a finite map (add_headers_latest_wins iterates an insertion-ordered slice; the final table is compared sorted)",
                     "from_utf8_lossy/split_whitespace are modelled at byte level (lead bytes C2/E1/E2/E3 start a fresh character); tied on byte soups",
                     "the primary cross-reference parser, the lexer and the object parser are NOT modelled: the open channel observes them",
                     "catalog search stages 4e/4f (tail scan, first non-signature object) are not modelled; the model answers 'unknown' there",
                     "scan_file_finds_all is proved for every file size and chunk size under long_lines_dead_doc (body lines longer than the 1024-byte carry are dead); c19_long_body_line_refuted is the witness outside it (candidate input class, not yet reproduced on the real code)",
                     "catalog_found is proved for the modelled stages 4a-4d under cat_hyp (which bounds the file by one 64 KiB read window)"]
    return standard(r, "c19", ["theories/C19/Proofs.vo", "theories/C19/Chunk.vo", "theories/C19/ChunkLong.vo",
                                 "theories/C19/ChunkEx.vo", "theories/C19/Catalog.vo", "theories/C19/Compact.vo"], ["theories/C19/Model.vo"], ["scan", "open"], classify=classify, pre=corpus)
