"""C22 — batch processing reports every job exactly once under any schedule."""
import os, re
from vlib import *

RULE = ("ctl: BatchProcessor::execute on real threads, parked at the cfg(oxidizepdf_verif) sched_point hooks and released one at a "
        "time in a seeded random order (4 bias modes) — 1..6 jobs, outcomes Ok/Err/Panic, custom and non-custom jobs, 1..4 workers, "
        "stop_on_error on/off, external cancel before a random step; the recorded label sequence must be a run of the Gallina "
        "transition system ending in a terminal state with the same summary/progress/execution log (bit 1) and the summary must "
        "satisfy spec_b (bit 2). free: same generator up to 12 jobs, no schedule control (seeded yields/sleeps at the hooks, cancel "
        "after a random delay), bit 2 only with the hook-arrival reading of 'failure recorded'. "
        "non-trivial = at least 2 jobs and (a non-Ok outcome or a cancel); distinct by case text")


def hooks_present(run):
    """the schedule points the model's labels stand for must all still exist in the source"""
    src = open(os.path.join(CRATE, "src/batch/worker.rs")).read()
    want = {"c_store": 1, "d_check": 1, "d_cancel": 1, "d_enq": 1, "d_close": 1, "d_joining": 1, "w_recv": 1, "w_exit": 1,
            "j_start": 2, "j_check": 2, "j_cancelled": 2, "j_done": 2, "j_flag": 2, "j_fail": 2}
    for lab, cnt in want.items():
        got = len(re.findall(r'sched_point\("%s"' % lab, src))
        if got != cnt:
            run.corr_broken.append("hook %s: %d call sites, expected %d (hooks.patch not applied or wrapper restructured)" % (lab, got, cnt))
    run.extra_cov["hooks_checked"] = sorted(want)


def run(r):
    r.rule = RULE
    r.assumptions = [
        "each code segment between two sched_point hooks of one thread is atomic w.r.t. the modelled shared state (one access to the flag / a channel per segment; progress atomics are only read at the end)",
        "std mpsc channels are FIFO and lose nothing; SeqCst atomics; thread::join waits for termination",
        "stated for parallelism >= 1 (BatchOptions::with_parallelism clamps to >= 1)",
        "progress-callback thread and job_timeout (unimplemented in the library) are not modelled",
    ]
    return standard(r, "c22", ["theories/C22/Proofs.vo"], ["theories/C22/Model.vo"], ["ctl", "free"], pre=hooks_present,
                    harness_timeout=800)
