"""C07 — every supported stream filter decodes exactly what a reference encoder encoded."""
import json, os, sys
from vlib import *

RULE = ("byte strings of length 0..64 (structured + seeded random) through each of ASCIIHex/ASCII85/LZW/Flate/RunLength, "
        "every leading byte value for ASCII85, chains of 2-3 filters, predictors {2,10..15} x colours 1-4 x bpc {1,2,4,8,16} x columns 1..64 "
        "with random per-row PNG filter types, LZW inputs crossing the 9/10/11/12-bit boundaries and the 4096 reset for both EarlyChange values, "
        "plus malformed/mutated data to tie the model's error paths. Encodings are produced by the harness and re-judged in Coq by the "
        "Gallina reference encoders/relations (bit 4 if the harness encoding is not a reference encoding). "
        "non-trivial = reference-encoded non-empty data through at least one filter; distinct by case text")

ASSUME = ["flate2's ZlibDecoder is an inflate: dec (enc x) = x (Section hypothesis of the theorems; exercised, not proved)",
          "CCITTFaxDecode, DCTDecode, JBIG2Decode are not modelled (CCITT clause of C07 not covered)",
          "Vec<u8>/slices are finite sequences; usize is 64-bit"]


def regen():
    sys.path.insert(0, os.path.join(ROOT, "translator"))
    import importlib
    m = importlib.import_module("gen_filters")
    m.REPO = REPO
    m.SRC = os.path.join(CRATE, "src", "parser", "filters.rs")
    m.generate(os.path.join(COQ, "Gen"))


def load_own_findings(r):
    p = os.path.join(ROOT, "known_findings", r.pid + ".json")
    if os.path.exists(p):
        for f in json.load(open(p)):
            if f["property"] == r.pid:
                r.known.setdefault(f["id"], f)


def stage_parms(case, i):
    dp = case.get("dp")
    if isinstance(dp, dict):
        return dp
    if isinstance(dp, list) and i < len(dp):
        return dp[i]
    return None


def classify(case, code):
    """C07-TIFF-PREDICTOR: a reference-encoded stream whose only predictor stages use /Predictor 2 and whose
    horizontal differencing actually changed the data (mid != x); nothing else is suppressed."""
    if not case or not isinstance(case.get("ref"), dict) or code in (-1,) or code & 4:
        return None
    hit = False
    for i, st in enumerate(case["ref"].get("stages", [])):
        p = stage_parms(case, i)
        pr = p.get("pr") if isinstance(p, dict) else None
        if pr is None or pr == 1 or st["mid"] == st["x"]:
            continue
        if pr == 2 and case["filters"][i] in ("LZWDecode", "FlateDecode"):
            hit = True
        else:
            return None
    return "C07-TIFF-PREDICTOR" if hit and code == 2 else None


def run(r):
    r.rule = RULE
    r.assumptions = ASSUME
    load_own_findings(r)
    try:
        regen()
    except Exception as e:
        r.proof_broken.append("translator gen_filters failed: %s" % e)
    return standard(r, "c07", ["theories/C07/Proofs.vo", "theories/C07/LzwFull.vo"], ["theories/C07/Check.vo"], ["filters"], classify=classify)
