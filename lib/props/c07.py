"""C07 — every supported stream filter decodes exactly what a reference encoder encoded."""
import json, os, sys
from vlib import *

RULE = ("byte strings of length 0..64 (structured + seeded random) through each of ASCIIHex/ASCII85/LZW/Flate/RunLength, "
        "every leading byte value for ASCII85, chains of 2-3 filters, predictors {2,10..15} x colours 1-4 x bpc {1,2,4,8,16} x columns 1..64 "
        "with random per-row PNG filter types, TIFF predictor 2 systematically for every depth x colours 1-4 x columns 1-5 on wrap-prone rows "
        "and on data that is not an image of the declared shape, LZW inputs crossing the 9/10/11/12-bit boundaries and the 4096 reset for both EarlyChange values, "
        "plus malformed/mutated data to tie the model's error paths. Encodings are produced by the harness and re-judged in Coq by the "
        "Gallina reference encoders/relations (bit 4 if the harness encoding is not a reference encoding). "
        "non-trivial = reference-encoded non-empty data through at least one filter; distinct by case text")

ASSUME = ["flate2's ZlibDecoder is an inflate: dec (enc x) = x (Section hypothesis of the theorems; exercised, not proved)",
          "CCITTFaxDecode, DCTDecode, JBIG2Decode are not modelled (CCITT clause of C07 not covered)",
          "Vec<u8>/slices are finite sequences; usize is 64-bit"]


def regen():
    sys.path.insert(0, os.path.join(ROOT, "translator"))
    import importlib
    m = importlib.import_module("gen_filters")
    m.REPO = REPO
    m.SRC = os.path.join(CRATE, "src", "parser", "filters.rs")
    m.generate(os.path.join(COQ, "Gen"))


def load_own_findings(r):
    p = os.path.join(ROOT, "known_findings", r.pid + ".json")
    if os.path.exists(p):
        for f in json.load(open(p)):
            if f["property"] == r.pid:
                r.known.setdefault(f["id"], f)


def stage_parms(case, i):
    dp = case.get("dp")
    if isinstance(dp, dict):
        return dp
    if isinstance(dp, list) and i < len(dp):
        return dp[i]
    return None


def classify(case, code):
    """No open class: C07-TIFF-PREDICTOR is fixed (fix_tiff_predictor2.patch), so a /Predictor 2 stream that does not
    decode to the original is reported like any other violation."""
    return None


def run(r):
    r.rule = RULE
    r.assumptions = ASSUME
    load_own_findings(r)
    try:
        regen()
    except Exception as e:
        r.proof_broken.append("translator gen_filters failed: %s" % e)
    return standard(r, "c07", ["theories/C07/Proofs.vo", "theories/C07/LzwFull.vo"], ["theories/C07/Check.vo"], ["filters"], classify=classify)
