"""C09 — serialized objects parse back to the same value."""
import json, os
from vlib import *

RULE = ("ser: seeded random object trees (depth <= 8, <= 200 nodes; strings over all chars incl. ( ) \\ CR LF NUL and non-ASCII, "
        "all 256 bytes in hex strings, names over the whole alphabet: white space, delimiters, '#', '#'+digits, controls, 'R', empty, and (one tree in four) non-ASCII; extreme i64, reals incl. -0, 5e-7, 2^53, 9.2e18) "
        "through BOTH private serializers (hook) then PdfObject::parse, names compared as Rust Strings; every char U+0000..U+017F as a string and as a name/key (ASCII ones also first/last in a name); fixed irregular names; "
        "plus small trees of the four known classes. lex: fixed + random token text the writer never emits (octal, nested parens, "
        "#xx, odd hex, signs, comments, skipped bytes) -> PdfObject::parse vs the model. incr: incremental writer's serializer. "
        "non-trivial = nested tree with >= 3 nodes (ser/incr), text longer than 6 bytes (lex); distinct by case text")

# C09-name-nonascii and C09-incr-nonascii-name are FIXED (fix_name_utf8): a non-ASCII name that does not read back is a VIOLATION
KNOWN = {
    "int-int-nameR": "C09-int-int-nameR",
    "real-ge-2p63": "C09-real-ge-2p63",
    "objnum-gt-9999999": "C09-objnum-gt-9999999",
}


def classify(case, code):
    """a failing case belongs to a known class only if the tree has exactly that one flaw and the
    model still agrees with the implementation (bit 1 clear); anything else is reported"""
    if not case or code < 0 or (code & 1):
        return None
    fl = case.get("flaws") or []
    if len(fl) == 1 and fl[0] in KNOWN:
        return KNOWN[fl[0]]
    return None


def load_own_findings(r):
    p = os.path.join(ROOT, "known_findings", r.pid + ".json")
    if os.path.exists(p):
        for f in json.load(open(p)):
            r.known.setdefault(f["id"], f)


def run(r):
    r.rule = RULE
    load_own_findings(r)
    r.assumptions = [
        "Rust's format!(\"{:.6}\") is exact decimal rounding and str::parse::<f64> is correctly rounded (reals enter Coq as the integer of millionths printed by that call)",
        "the lexer is lazy in the code and eager in the model: equivalent because lexing has no effect but advancing (errors surface when the token is requested)",
        "stream objects are outside the model (not generated)",
    ]
    if not r.replay:
        r.replay = None
    corpus = sorted(glob.glob(os.path.join(ROOT, "corpus", r.pid, "*.json")))
    r.extra_cov["corpus_files"] = [os.path.basename(c) for c in corpus]
    return standard(r, "c09", ["theories/C09/Reals.vo", "theories/C09/Full.vo", "theories/C09/IncrFull.vo", "theories/C09/LexFull.vo"], ["theories/C09/Model.vo"], ["ser", "lex", "incr"], classify=classify)
