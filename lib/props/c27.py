"""C27 — page labels follow the numbering styles of ISO 32000-1 §12.4.2."""
import importlib, json, os, re, sys
from vlib import *

sys.path.insert(0, os.path.join(ROOT, "translator"))

# Coq's printer may break a line right after an opening parenthesis ("(\n   4, None)"); after whitespace
# folding vlib.coq_eval's pair regex then misses that (index, code) pair.  Normalise coqc output before it is
# parsed (vlib itself is a shared file and is not edited here).
import vlib as _vlib
if not getattr(_vlib, "_paren_fix", False):
    _orig_sh = _vlib.sh

    def _sh_fixed(cmd, *a, **k):
        rc, out = _orig_sh(cmd, *a, **k)
        if isinstance(cmd, list) and cmd and cmd[0] == "coqc":
            out = re.sub(r"\(\s+", "(", out)
        return rc, out
    _vlib.sh = _sh_fixed
    _vlib._paren_fix = True
    sh = _sh_fixed

RULE = ("fmt: PageLabelStyle::format on EVERY number 0..4200 (thorough 0..20000) for all six styles + boundary (18278, 475254, 2^31, u32::MAX) "
        "and random large numbers; label: seeded random range sets (0..6 add_range calls in random order, duplicates, prefixes incl. non-ASCII, "
        "St in {0,1,26..28,52,53,702,703,18278, random, u32::MAX-3..u32::MAX}) x page indices (0,1,26,27,28,52,53,702,703, every range start -1/+0/+1/+27, "
        "random, u32::MAX) through PageLabelTree::get_label; dict: to_dict of the same range sets read by the Table-159 reader of the spec. "
        "seq: ONE PageLabelTree driven as a state machine — every interleaving up to length 3 (thorough 4) over 6 add_range / 6 get_label / to_dict "
        "operations after three preludes, plus seeded random histories (4..60 ops: add_range at an existing start, start-1 (= last page of the neighbour), "
        "start+1, at the page just looked up and at the last page of the range that answered it; get_label; get_all_labels; to_dict), every output compared "
        "with the model and with the spec evaluated on the ranges added SO FAR; dict also generates neighbouring ranges with identical style/prefix/start. "
        "non-trivial = two or more ranges and a numeric portion >= 4 (label), number >= 4 (fmt), two or more ranges (dict), "
        "lookup after add_range after lookup after add_range (seq); distinct by case text")
U32 = 2 ** 32 - 1


def number_of(case):
    best = None
    for r in case.get("ranges", []):
        if r["page"] <= case["page"] and (best is None or best["page"] <= r["page"]):
            best = r
    return None if best is None else (best["style"], best["start"] + case["page"] - best["page"])


def classify(case, code):
    if not case:
        return None
    kind = case.get("kind", "label")
    if kind == "seq":
        # 2 + 8: computed inside Coq (Model.seq_code): every failing lookup of the history lies in the letters >= 28 class
        return "C27-letters-spreadsheet" if code == 10 else None
    if kind == "fmt":
        sn = (case["style"], case["number"])
    elif kind == "label":
        sn = number_of(case)
    else:
        return None
    if sn is None:
        return None
    s, n = sn
    if code == -1:   # panic on the implementation side
        return "C27-start-overflow" if (s != "-" and n > U32) else None
    # letters from 28 on: the property predicate fails, the model still agrees with the code
    if s in ("A", "a") and n >= 28 and code == 2:
        return "C27-letters-spreadsheet"
    return None


def own_known(r, pid):
    p = os.path.join(ROOT, "known_findings", pid + ".json")
    if os.path.exists(p):
        r.known = {f["id"]: f for f in json.load(open(p)) if f["property"] == pid}


def coq_eval_text(r, name, text, timeout=300):
    d = os.path.join(r.rundir, "eval")
    os.makedirs(d, exist_ok=True)
    vf = os.path.join(d, name + ".v")
    open(vf, "w").write(text)
    rc, out = sh(["coqc", "-noglob"] + COQ_INC + ["-w", "-all", vf], timeout=timeout, cwd=d)
    return rc, re.sub(r"\s+", " ", out)


STYLE_BY_INDEX = ["D", "R", "r", "A", "a", "-"]


def table_witness(r):
    """evaluates the MODEL (generated table) against the SPEC on every number below the bound; needs only Model.vo"""
    bound = 20000 if r.tier == "thorough" else 6000
    rc, out = coq_eval_text(r, "witness", "From OxVerif Require Import Base.Util C27.Model.\n"
                            "Eval vm_compute in (first_bad_number %d, roman_table_pos).\n" % bound)
    m = re.search(r"= \((\[.*?\]), (true|false)\)", out)
    if rc != 0 or not m:
        r.corr_broken.append("witness search over the generated Roman/letter tables did not evaluate: " + out[-300:])
        return
    r.extra_cov["model_vs_spec_numbers_swept"] = bound * 6
    r.cov["evaluations"] += bound * 6
    for idx, v in re.findall(r"\((\d+), (None|Some \d+)\)", m.group(1)):
        if v != "None":
            n = int(v.split()[1])
            case = {"kind": "fmt", "style": STYLE_BY_INDEX[int(idx)], "number": n}
            r.violation("C27_table_%s_%d" % (idx, n), {"channel": "fmt", "case": case, "seed": r.seed},
                        "format(%d) in style %s computed from the current source tables is not the §12.4.2 numeral" % (n, case["style"]))
    if m.group(2) == "false":
        r.violation("C27_table_zero", {"channel": "fmt", "case": {"kind": "fmt", "style": "r", "number": 1}},
                    "to_roman value table contains a value 0: the subtraction loop never terminates")


def pre(r):
    table_witness(r)
    # corpus replays first
    cdir = os.path.join(ROOT, "corpus", r.pid)
    cases = []
    for f in sorted(os.listdir(cdir)) if os.path.isdir(cdir) else []:
        if f.endswith(".json"):
            v = json.load(open(os.path.join(cdir, f)))
            cases += v if isinstance(v, list) else [v.get("case", v)]
    if cases and not r.replay and r.build_harness():
        p = os.path.join(r.rundir, "corpus_cases.json")
        json.dump(cases, open(p, "w"))
        out, rc, log = r.harness("c27", cases_from=p, sub="c27_corpus")
        if rc == 0:
            for ch in ("label", "fmt", "dict", "seq"):
                if os.path.exists(os.path.join(out, ch + ".meta.json")):
                    meta, fails = r.coq_eval(out, ch)
                    r.handle_fails(ch + "_corpus", meta, fails, classify)


def run(r):
    r.rule = RULE
    r.assumptions = ["BTreeMap<u32,_> is a finite map iterated in ascending key order",
                     "the inner `while num >= value` loop of to_roman is modelled by its closed form (num / value rounds), values > 0 checked on the generated table",
                     "String::to_uppercase on the ASCII numerals of the table maps a-z to A-Z",
                     "the model is that of the tree WITH fix_page_label_start_overflow applied (u64 sum); without it St + offset > u32::MAX panics and is reported"]
    own_known(r, "C27")
    try:
        x = importlib.import_module("gen_labels").generate(os.path.join(COQ, "Gen"))
        r.extra_cov["translator"] = {"roman_table_entries": len(x["table"]), "roman_cmp": x["roman_cmp"]}
    except Exception as e:
        r.proof_broken.append("translator gen_labels: %s" % e)
    return standard(r, "c27", ["theories/C27/Proofs.vo"], ["theories/C27/Model.vo"], ["label", "fmt", "dict", "seq"],
                    classify=classify, pre=pre)
