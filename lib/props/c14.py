"""C14 — RAG chunking is a faithful, budget-respecting partition."""
from vlib import *

RULE = ("chunks: every sequence up to the stated length over an 8-element alphabet (2 titles, paragraphs with/without sentence "
        "boundaries and headings, list item with a stale heading, table, key-value) x max_tokens {1,2,5} x both entry points, "
        "plus seeded random sequences (all 9 element kinds, length 0..40, texts with sentence punctuation, newlines, Unicode "
        "white space; headings consistent / absent / stale-unknown-duplicated) x max_tokens {0,1,2,5,50,3..20} x merge policy x "
        "merge_adjacent x heading propagation x context mode x 4 counters (word proxy, chars/4, non-additive toy, additive non-ws). "
        "non-trivial = at least two chunks and (a chunk with two or more elements or a split element); distinct by case text")


def classify(case, code):
    # the narrow class is decided inside Coq (Model.v case_code): 16 is set only when the failure is exactly of the
    # recorded kind and no other bit (model difference, other predicate) is set.  C14-graph-budget-sum (formerly code 32)
    # is FIXED by fix_graph_budget_joined: a budget failure of chunk_with_graph is bit 4 and therefore a VIOLATION.
    if code == 16:
        return "C14-graph-unsectioned"
    return None


def corpus(r):
    """replay cases of corpus/C14 run first (known-finding witnesses, regression inputs)"""
    if r.replay:
        return
    files = sorted(glob.glob(os.path.join(ROOT, "corpus", "C14", "*.json")))
    if not files or not r.build_harness():
        return
    for k, f in enumerate(files):
        out, rc, log = r.harness("c14", cases_from=f, sub="corpus_%d" % k)
        if rc != 0:
            r.corr_broken.append("corpus %s: harness failed (exit %d)" % (os.path.basename(f), rc))
            continue
        meta, fails = r.coq_eval(out, "chunks")
        r.handle_fails("chunks", meta, fails, classify)


def run(r):
    r.rule = RULE
    r.assumptions = ["token counts and their sums stay below usize::MAX (counts are N in the model)",
                     "chunk_with_graph is called with ElementGraph::build of the same element slice",
                     "a TokenCounter is a pure function of its text; when it declares is_additive_over_whitespace_join it is additive (hypothesis of chunk_budget)"]
    return standard(r, "c14", ["theories/C14/Proofs.vo", "theories/C14/Full.vo"], ["theories/C14/Model.vo"], ["chunks"], classify=classify, pre=corpus)
