"""C12 — font subsetting keeps every requested glyph intact (TrueType proved at table level, CFF validated)."""
import glob, json, os
from vlib import *

RULE = ("tt/ttbig: bundled TrueType fonts (Roboto, DejaVu Sans / ExtraLight (short loca) / Mono (4 hmtx records); thorough: 5 more DejaVu faces) "
        "and generated fonts (closure of the first n mapped characters of a bundled font, re-encoded by the harness with short or long loca, "
        "file size above and below the 100 000-byte threshold) x character sets of 0..160 characters (classes latin / accented (composites) / "
        "greekcyr / any / unmapped_mix) plus large sets around the 50 % glyph-ratio test, through subset_font; an independent sfnt reader "
        "extracts glyph records and metrics of the original (reachable part) and of every glyph of the subset; Coq compares flattened outline "
        "and advance per requested character (property) and kept set, renumbering, glyph records, metrics and mapping with the model. "
        "generated fonts include composites-first orders (every component reference points forward) with identity-prefix character sets. "
        "cff: SourceSans3 x random sets plus sets searched so that the kept charstrings total 254/255/256 and 65535/65536 bytes (INDEX offSize "
        "boundaries); charstring (subroutines inlined) and width entries per requested character; every rebuilt INDEX judged by cff_index_ok. "
        "non-trivial = a real subset (not the full font) containing at least one composite glyph / a CFF subset; distinct by case text")


def corpus(run):
    files = sorted(glob.glob(os.path.join(ROOT, "corpus", "C12", "*.json")))
    if not files or run.replay:
        return
    cases = []
    for f in files:
        v = json.load(open(f))
        cases += v if isinstance(v, list) else v.get("cases", [v.get("case", v)])
    p = os.path.join(run.rundir, "corpus_cases.json")
    json.dump(cases, open(p, "w"))
    if not run.build_harness():
        return
    out, rc, log = run.harness("c12", cases_from=p, sub="c12_corpus")
    if rc != 0:
        run.corr_broken.append("corpus replay failed: " + log[-200:])
        return
    for ch in ("tt", "ttbig", "cff"):
        if os.path.exists(os.path.join(out, ch + ".meta.json")):
            meta, fails = run.coq_eval(out, ch)
            run.handle_fails(ch, meta, fails, classify)


def classify(case, code):
    return None


def run(r):
    r.rule = RULE
    r.assumptions = ["the harness sfnt reader (harness/src/c12_sfnt.rs) extracts glyph records, metrics and cmap faithfully from font bytes "
                     "(it is the bridge between bytes and the abstract font; the byte encoding itself is not proved)",
                     "simple-glyph outlines of sets with more than 10 reachable glyphs travel as 64-bit digests",
                     "CFF: the library's desubroutinize is trusted to inline the ORIGINAL charstring; CID-keyed CFF input is not exercised "
                     "(SourceHanSansSC-Regular.otf is an empty file in this sandbox)",
                     "needed/num_glyphs > 0.5 in f32 equals 2*needed > num_glyphs for 16-bit counts"]
    return standard(r, "c12", ["theories/C12/Proofs.vo"], ["theories/C12/Model.vo"], ["tt", "ttbig", "cff"], classify=classify, pre=corpus)
