"""C18 — page-tree navigation follows document order and inheritance."""
import glob, os, re
from vlib import *

RULE = ("tree: generated page trees as raw PDF bytes (depth <= 6, fan-out <= 5, MediaBox/CropBox/Rotate/Resources at random levels, "
        "direct and indirect /Kids, wrong /Count) read by the real PdfReader/PdfDocument (page_count, get_page(i) for every i) under a 20 s "
        "wall-clock guard; classes: wellformed (spec tree supplied: order, count and inherited attributes must equal the ISO-shaped spec), "
        "wellformed_indirect_attr (attribute values given as indirect references), damaged_* (shared/cyclic/dangling/non-dictionary kids, "
        "missing or foreign /Type, wrong or cyclic /Parent, malformed boxes: the result must be an error or a duplicate-free list of page objects, "
        "and must equal the model). non-trivial = at least two pages and a tree of depth >= 2 (well-formed) / at least one page (damaged)")


def classify(case, code):
    return None


def max_pages_tie(run):
    corpus(run)
    """constant tie: MAX_PAGES in the model is the constant of page_tree.rs"""
    src = open(os.path.join(CRATE, "src/parser/page_tree.rs")).read()
    m = re.search(r"const MAX_PAGES: usize = ([0-9_]+);", src)
    mv = open(os.path.join(COQ, "theories/C18/Model.v")).read()
    mm = re.search(r"Definition MAX_PAGES : N := (\d+)\.", mv)
    if not m or not mm or int(m.group(1).replace("_", "")) != int(mm.group(1)):
        run.corr_broken.append("constant tie: MAX_PAGES of page_tree.rs (%s) differs from the model (%s)" % (m and m.group(1), mm and mm.group(1)))
    run.extra_cov["max_pages_checked"] = m.group(1) if m else None


def corpus(r):
    """replay cases of corpus/C18/*.json (past failures, boundary cases) run first"""
    files = sorted(glob.glob(os.path.join(ROOT, "corpus", r.pid, "*.json")))
    if not files or r.replay:
        return
    if not r.build_harness():
        return
    for i, f in enumerate(files):
        out, rc, log = r.harness("c18", cases_from=f, sub="corpus_%d" % i)
        if rc != 0 or not os.path.exists(os.path.join(out, "tree.meta.json")):
            r.corr_broken.append("corpus case %s: harness failed" % os.path.basename(f))
            continue
        meta, fails = r.coq_eval(out, "tree")
        r.handle_fails("tree", meta, fails, classify)
    r.extra_cov["corpus_files"] = len(files)


def run(r):
    r.rule = RULE
    r.assumptions = ["object numbers identify objects (generation 0 only); HashSet is a finite set",
                     "PdfReader::get_object on the generated files returns the object that was written (covered by the correspondence itself)"]
    return standard(r, "c18", ["theories/C18/Proofs.vo"], ["theories/C18/Model.vo"], ["tree"], classify=classify, pre=max_pages_tie)
