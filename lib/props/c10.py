"""C10 — text given through the API reads back unchanged."""
import glob, importlib, json, os, sys
from vlib import *

sys.path.insert(0, os.path.join(ROOT, "translator"))

RULE = ("api: fixed Unicode strings (empty, ASCII, delimiters ( ) \\ balanced and not, TAB/LF, CR and CRLF, controls incl. NUL/0x18/0x1B/0x7F, "
        "Latin-1 incl. 'þÿ' prefixes, BMP incl. U+FEFF first and code points whose UTF-16 bytes are 28/29/5C/0D/0A, astral, long) plus seeded "
        "random strings of seven classes, EACH through 13 entry points (six Info fields, outline /Title, annotation /Contents, TextField and "
        "ComboBox value, Document::fill_field, IncrementalFormFiller on a library-written /Tx field and on a raw /Ch field) in three writer "
        "configurations (classic, xref-stream, classic with uncompressed streams); the string object is cut out of the written file and compared with the "
        "Gallina emitter, read by the ISO-shaped Gallina reader and by the library's own reader (PdfReader::metadata / object accessors + to_text). "
        "dec: every first byte x continuations, BOM + well-formed / odd-length / malformed UTF-16, random byte strings through PdfString::to_text. "
        "apilong / declong: long texts (300..1100 UTF-16 units / bytes) with a surrogate pair whose high half is code unit k for every k in a window "
        "around each block size 64, 128, 255, 256, 257, 512 (api) and also 768, 1000, 1024 (dec), astral-only texts (every even / odd boundary straddled), "
        "lone surrogates and odd tails at block ends, long plain texts with delimiters at the boundary, long single-byte strings (FE FF in the middle, every byte value cyclically), seeded random long texts. "
        "non-trivial = text that is not plain (outside TAB, LF, printable ASCII) or contains a delimiter (api); payload of >= 2 bytes (dec); distinct by case text")


def classify(case, code):
    return None      # no known finding: the defects found were repaired (fix_c10_text_strings.patch)


def corpus(r):
    """replay the stored witness cases first (corpus/C10/*.json)"""
    if r.replay:
        return
    files = sorted(glob.glob(os.path.join(ROOT, "corpus", "C10", "*.json")))
    r.extra_cov["corpus_files"] = [os.path.basename(f) for f in files]
    if not files or not r.build_harness():
        return
    for i, f in enumerate(files):
        out, rc, log = r.harness("c10", cases_from=f, sub="corpus_%d" % i)
        if rc != 0:
            r.corr_broken.append("corpus replay %s failed" % os.path.basename(f))
            continue
        for ch in ["api", "dec"]:
            if os.path.exists(os.path.join(out, ch + ".meta.json")):
                meta, fails = r.coq_eval(out, ch)
                r.handle_fails(ch, meta, fails, classify)


def run(r):
    r.rule = RULE
    r.assumptions = [
        "a Rust String is a list of Unicode scalar values; str::as_bytes is UTF-8, str::encode_utf16 and String::from_utf16_lossy behave as documented by std (modelled by utf8s / units_of / utf16_lossy)",
        "case transport: texts travel as hex of their UTF-8 bytes and are decoded in Gallina (of_utf8); the checker re-encodes and compares, so a transport error shows as bit 1",
        "the ISO-shaped reader does not interpret language escape sequences (U+001B ... U+001B inside UTF-16 text, 7.9.2.2)",
        "encrypted documents and documents written with object streams are outside the correspondence (the string object is not visible in the file); the same Object::text_string value is what gets encrypted/compressed",
        "model is of the tree with fix_c10_text_strings.patch applied; Annex D transcription as in C25 (AnnexD.v)",
    ]
    try:
        x = importlib.import_module("gen_encodings").generate(os.path.join(COQ, "Gen"))
        r.extra_cov["translator"] = x
    except Exception as e:
        r.proof_broken.append("translator gen_encodings: %s" % e)
    return standard(r, "c10", ["theories/C10/Proofs.vo", "theories/C10/Decode.vo"], ["theories/C10/Model.vo"], ["api", "dec", "apilong", "declong"], classify=classify, pre=corpus)
