"""C20 — writing the same document twice gives identical bytes."""
import glob, importlib, json, os, sys
from vlib import *

sys.path.insert(0, os.path.join(ROOT, "translator"))

RULE = ("dict: seeded random dictionaries (depth 1-4, 2-9 keys per level, keys over a 10-letter alphabet so that many share prefixes) built twice "
        "in different insertion orders (two HashMap instances), both private serializers; entries reach Coq in each instance's real iteration order. "
        "objstm: 1-230 buffered objects (below, at and above the 100-object stream capacity) through the real flush, two map instances. "
        "xdict: the xref-stream dictionary of every xref-stream file written. file: generated documents (15 feature switches: standard fonts, "
        "two embedded TrueType faces, images, alpha images, form XObjects, ExtGState, colour spaces, tiling patterns, shadings, text notes, "
        "a caller-supplied /AP with three inline streams, checkbox widgets, FormManager text fields, outlines, info) x non-encrypted configurations "
        "(xref table/stream, object streams, compression on/off, header 1.4/1.5/1.7): mode fresh = two rebuilt documents in process + 3 fresh child "
        "processes; mode twice = one Document value written 3 times; mode clock = Document::to_bytes_with_config (real clock) with /ModDate and "
        "xmp:ModifyDate digits masked. non-trivial = >= 4 dictionary entries (dict), >= 3 objects (objstm), >= 2 features (file); distinct by case text")


def classify(case, code):
    """the only known class: same Document value rewritten, forms present both as FormManager fields and as /T widgets"""
    if not case or code < 0 or (code & 1):
        return None
    if case.get("chan") == "file" and case.get("mode") == "twice":
        feats = (case.get("spec") or {}).get("feats") or []
        if "checkbox" in feats and "textfield" in feats:
            return "C20-rewrite-mutates-acroform"
    return None


def pre(r):
    """translator census: regenerate Gen/IterSites.v, name every offending line"""
    try:
        x = importlib.import_module("gen_itersites").generate(os.path.join(COQ, "Gen"))
    except Exception as e:
        r.proof_broken.append("translator gen_itersites: %s" % e)
        return
    r.extra_cov["census"] = {"by_class": x["by_class"], "hash_ordered_sites": len(x["sites"]), "iteration_expressions_seen": x["iteration_expressions_seen"]}
    bad = [s for s in x["sites"] if s["class"] in ("EmitsInIterationOrder", "Unresolved")]
    for s in bad:
        r.proof_broken.append("census: %s:%d `%s` in fn %s iterates a hash-ordered container and %s" % (s["file"], s["line"], s["text"], s["fn"], s["why"]))


def run(r):
    r.rule = RULE
    p = os.path.join(ROOT, "known_findings", "C20.json")
    if os.path.exists(p):
        for f in json.load(open(p)):
            r.known.setdefault(f["id"], f)
    r.assumptions = [
        "std HashMap keys are distinct; its iteration order is an arbitrary permutation (model parameter)",
        "slice::sort_by_key is a stable sort (modelled as insertion sort; with distinct keys any correct sort gives the same vector)",
        "zlib compression (flate2) is a function of its input and level",
        "census type resolution is name based: a hash map reaching an iterator through a binding shape the translator does not know is not listed (the cross-process comparison still covers it)",
        "whole-file digests: two 64-bit FNV-1a values and the length (equality of digests is taken for equality of files)",
    ]
    pre(r)            # before the Coq build: Props requires Gen/IterSites.v
    census_broken = list(r.proof_broken)
    corpus = sorted(glob.glob(os.path.join(ROOT, "corpus", "C20", "*.json")))
    ok = r.coq_make(["theories/C20/Proofs.vo", "Gen/IterSites.vo"]) if False else r.coq_make(["theories/C20/Proofs.vo"])
    if ok:
        with Lock("coq"):
            sh(["coqc"] + COQ_INC + ["-w", "-all", os.path.join(COQ, "Gen", "IterSites.v")], cwd=COQ, timeout=600)
        r.props_compile(())
    else:
        r.coq_make(["theories/C20/Model.vo"])
    if census_broken:
        # keep the census lines in front: they name the source line
        r.proof_broken = census_broken + [p_ for p_ in r.proof_broken if p_ not in census_broken][:1]
    if not r.build_harness():
        r.corr_broken.append("harness does not build against the current tree")
        return r.finish()
    runs = []
    if r.replay:
        runs.append(("c20_replay", r.replay, r.tier, r.seed))
    else:
        cases = []
        for f in corpus:
            v = json.load(open(f))
            cases += v if isinstance(v, list) else [v.get("case", v)]
        if cases:
            cp = os.path.join(r.rundir, "corpus_cases.json")
            json.dump(cases, open(cp, "w"))
            runs.append(("c20_corpus", cp, r.tier, r.seed))
        runs.append(("c20_0", None, r.tier, r.seed))
    done_wide = False
    while runs:
        sub, cf, tier, seed = runs.pop(0)
        out, rc, log = r.harness("c20", cases_from=cf, sub=sub, tier=tier, seed=seed, timeout=2400)
        if rc != 0:
            r.corr_broken.append("harness c20 failed (exit %d): %s" % (rc, log[-300:]))
            break
        for ch in ("dict", "objstm", "xdict", "file"):
            if not os.path.exists(os.path.join(out, ch + ".meta.json")):
                continue
            meta, fails = r.coq_eval(out, ch)
            r.handle_fails(ch, meta, fails, classify)
        real = [v for v in r.violations if not v[2]]
        if not runs and not done_wide and r.tier == "quick" and not r.replay and not real and (r.proof_broken or r.corr_broken):
            r.note("obligation broken: widening the search (thorough generator, seed+1)")
            runs.append(("c20_1", None, "thorough", r.seed + 1))
            done_wide = True
    return r.finish()
