"""C13 — text in embedded fonts is recoverable exactly (partial)."""
import glob, json, os
from vlib import *

RULE = ("doc: Roboto / DejaVu Sans / SourceSans3 (CFF) (thorough: + DejaVu Serif) x random strings over each font's covered repertoire "
        "(ASCII, Latin-1/Extended-A, Greek, Cyrillic, astral where the font has astral glyphs; runs of 100..300 consecutive code points; repeats, spaces, 1-3 lines, one or two fonts "
        "on one page, compressed and uncompressed streams) -> Document with custom fonts -> written PDF -> library extraction and /W, "
        "/CIDToGIDMap, /ToUnicode, embedded program and show operands pulled from the file; Coq: declared width of each used character = "
        "hmtx advance scaled, every shown CID resolves to a glyph of the embedded program with the original advance, ToUnicode reference "
        "semantics on the shown codes = text, extraction = text; model: /W = w_array, ToUnicode definitions = cmap_of, codes = UTF-16 units. "
        "non-trivial = at least 4 characters drawn; distinct by case text")


def classify(case, code):
    # bit 4 is set by the Gallina checker only when every failing font of the case draws a code point above 0xFFFF
    if code == 6 and case and any(c > 0xFFFF for l in case.get("lines", []) for c in l.get("text", [])):
        return "C13-astral-text"
    return None


def corpus(run):
    files = sorted(glob.glob(os.path.join(ROOT, "corpus", "C13", "*.json")))
    if not files or run.replay:
        return
    cases = []
    for f in files:
        v = json.load(open(f))
        cases += v if isinstance(v, list) else v.get("cases", [v.get("case", v)])
    p = os.path.join(run.rundir, "corpus_cases.json")
    json.dump(cases, open(p, "w"))
    if not run.build_harness():
        return
    out, rc, log = run.harness("c13", cases_from=p, sub="c13_corpus")
    if rc != 0:
        run.corr_broken.append("corpus replay failed: " + log[-200:])
        return
    meta, fails = run.coq_eval(out, "doc")
    run.handle_fails("doc", meta, fails, classify)


def run(r):
    r.rule = RULE
    r.assumptions = ["the harness sfnt reader (c12_sfnt.rs) gives cmap, hmtx advances, unitsPerEm and numGlyphs of the original and of the embedded program",
                     "the library's own parser is used to navigate the written file to the font dictionaries and to decode streams",
                     "white space is not compared between drawn and extracted text",
                     "CFF (CIDFontType0): glyph presence in the embedded program is not checked (no CIDToGIDMap; CIDs are matched by the charset)"]
    return standard(r, "c13", ["theories/C13/Proofs.vo"], ["theories/C13/Model.vo"], ["doc"], classify=classify, pre=corpus)
