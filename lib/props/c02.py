"""C02 — documents written by the library read back with the same content (partial)."""
import glob, json, os
from vlib import *

RULE = ("doc: seeded authoring programs (1-3 pages of 5 sizes incl. non-integral, rotation 0/90/180/270, up to ~40 calls per document: "
        "m l c re h S f B w q Q cm with coordinates of 0-3 decimals incl. negative, gray/rgb/cmyk colours, text in all 14 standard fonts "
        "with ( ) \\ in strings, 1-4 px raw RGB images, annotations, outline, info strings) x configurations {classic, classic+compress, "
        "xref stream compressed/uncompressed, versions 1.4/1.5/1.7} + object-stream configurations; written by the real writer, re-opened "
        "with strict options, compared in Coq (doc_code). non-trivial = a page with at least two painting calls; distinct by case text")

CHANNELS = ["doc"]


def classify(case, code):
    return None


def corpus(r):
    if r.replay:
        return
    files = sorted(glob.glob(os.path.join(ROOT, "corpus", r.pid, "*.json")))
    r.extra_cov["corpus_files"] = [os.path.basename(c) for c in files]
    if not files or not r.build_harness():
        return
    for i, f in enumerate(files):
        out, rc, log = r.harness("c02", cases_from=f, sub="corpus_%d" % i)
        if rc != 0:
            r.corr_broken.append("corpus replay %s failed" % os.path.basename(f))
            continue
        for ch in CHANNELS:
            if os.path.exists(os.path.join(out, ch + ".meta.json")):
                meta, fails = r.coq_eval(out, ch)
                r.handle_fails(ch, meta, fails, classify)


def run(r):
    r.rule = RULE
    r.level = "proof"
    r.extra_cov["scope"] = "partial (see claim text)"
    r.assumptions = [
        "Document -> objects translation is not modelled; each written file is validated (C03) and decoded by the library's own reader",
        "the reader's f32 operands are converted to millionths by the harness (rounding error 0.5 millionth, inside the slack)",
        "Rust's {:.N} formatting is correct decimal rounding; f32 parsing is correctly rounded (slack = |v| * 2^-23 + 2 millionths)",
        "colour operators are interpreted as graphics state (ISO 32000-1 8.6.8); the Tf resource name is resolved to its BaseFont by the harness",
        "tree with fix_c02_symbol_fonts_resource.patch, fix_c02_draw_image_call_order.patch, fix_c03_xref_stream_filter.patch, fix_c03_objstm_needs_xref_stream.patch applied",
    ]
    return standard(r, "c02", ["theories/C02/Proofs.vo"], ["theories/C02/Model.vo"], CHANNELS, classify=classify, pre=corpus)
