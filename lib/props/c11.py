"""C11 — text extraction conserves every drawn character (partial: layout geometry abstract)."""
import glob, importlib, os, re, sys
from vlib import *

sys.path.insert(0, os.path.join(ROOT, "translator"))

RULE = ("page: generated one-page PDFs written as raw bytes (no library writer): content streams over Tj TJ ' \" Td TD Tm T* Tc Tw Tz TL Ts Tr cm q Q Do "
        "BMC/BDC/EMC with a Type1/WinAnsi font and a Type0/Identity-H font with a generated ToUnicode CMap and /W, form XObjects nested up to 4 deep "
        "(own resources, same font name denoting another font, /Matrix), /Artifact and /ActualText marked content, duplicated/overlapping positions, "
        "line-final hyphens, rotated/scaled matrices, render modes 3/7, blank strings, and ~8 % deliberately ill-formed pages; every page is extracted "
        "under ALL 512 combinations of the eight boolean ExtractionOptions fields x reading_order (thresholds at their defaults, max_extracted_bytes None, "
        "one carriage-return policy per page); Coq evaluates, per distinct output, model-vs-implementation (fragment texts and flat text as the operator "
        "loop left them, through the cfg hook) and the property predicate on .text/.fragments against the ISO-shaped `shown`. "
        "non-trivial = at least 3 non-empty strings and a form / marked content / q-Q font change / both font kinds; distinct by case text")


def classify(case, code):
    return None


def corpus(r):
    """replay cases of corpus/C11/*.json run first"""
    files = sorted(glob.glob(os.path.join(ROOT, "corpus", r.pid, "*.json")))
    if not files or r.replay:
        return
    if not r.build_harness():
        return
    for i, f in enumerate(files):
        out, rc, log = r.harness("c11", cases_from=f, sub="corpus_%d" % i)
        if rc != 0 or not os.path.exists(os.path.join(out, "page.meta.json")):
            r.corr_broken.append("corpus case %s: harness failed" % os.path.basename(f))
            continue
        meta, fails = r.coq_eval(out, "page")
        r.handle_fails("page", meta, fails, classify)
    r.extra_cov["corpus_files"] = len(files)


def run(r):
    r.rule = RULE
    r.level = "proof"
    r.assumptions = [
        "PARTIAL: floating-point layout geometry (space/newline thresholds, sorting keys, column and reading-order detection) is not modelled; "
        "it enters the theorems only as arbitrary oracles of the layout steps (any reordering, any adjacent merge with white-space separators, "
        "optional drop of a trailing hyphen); that the real layout code has this shape is validated by the correspondence run, not proved",
        "PDF parsing (objects, content-stream tokenizer, CMap parser, /ActualText text-string decoding) is observed through the correspondence, not modelled (C09/C10/C26 cover it)",
        "Annex D transcription coq/theories/C25/AnnexD.v is faithful (shared with C25)",
        "the decided domain of `shown` is listed in coq/theories/C11/ContentSem.v; outside it (ill-formed content, undefined codes, forms nested deeper than 12, "
        "q nesting beyond 1024, invisible text) the property is not evaluated or evaluated leniently",
        "model is of the tree with fix_c11_winansi_quotes.patch applied"]
    try:
        x = importlib.import_module("gen_c11_extract").generate(os.path.join(COQ, "Gen"))
        r.extra_cov["translator"] = x
    except Exception as e:
        r.proof_broken.append("translator gen_c11_extract: %s" % e)
    return standard(r, "c11", ["theories/C11/Proofs.vo"], ["theories/C11/Model.vo"], ["page"], classify=classify, pre=corpus,
                    harness_timeout=1500, eval_timeout=1500)
