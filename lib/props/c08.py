"""C08 — bounded decoding respects its limit and agrees with full decoding."""
from vlib import *
import c07

RULE = ("the C07 case set (reference-encoded data through every filter with a bounded decoder, chains, predictors, LZW boundary lengths) "
        "and malformed/random data, each decoded by PdfStream::decode and by PdfStream::decode_with_limit / filters::decode_stream_with_limit "
        "for the limits {0, 1, |r|-1, |r|, |r|+1, 2|r|, 2^63, peak-1, peak, peak+1} (peak = largest intermediate buffer of the reference decoding). "
        "Channel inner: the crate-private _with_limit decoder of the first filter (hook verif_decode_with_limit) on the same data and limits. Judged in Coq: result within the limit; for reference encodings agreement with the unbounded result whenever peak <= limit; ceiling. "
        "non-trivial = reference-encoded non-empty data through at least one filter; distinct by case text")


def classify(case, code):
    # C08 has no open class (TIFF predictor 2 is decoded by both drivers through the shared apply_predictor)
    return None


def run(r):
    r.rule = RULE
    r.assumptions = c07.ASSUME + ["'decodes fully within the limit' is read as: every buffer of the decoding (each stage's output, before and after the predictor) fits the limit — the limit is enforced per stage by the code and documented as an output bound per filter"]
    try:
        c07.regen()
    except Exception as e:
        r.proof_broken.append("translator gen_filters failed: %s" % e)
    return standard(r, "c08", ["theories/C07/Proofs.vo", "theories/C07/BoundedFull.vo"], ["theories/C07/Check.vo"], ["bounded", "inner"], classify=classify)
