"""C24 — embedded raster images decode to the pixels that were supplied."""
import glob, json, os
from vlib import *

RULE = ("png: PNG files written by the harness' own encoder: every colour type x bit depth (15 combinations) x {plain, Adam7} on 7 fixed sizes "
        "(1x1, 1x3, 2x2, 3x1, 5x4, 8x2, 9x3), each single scanline filter type on 8-bit images with near-maximal neighbours, Paeth tie patterns, "
        "seeded random images (dimensions 1..16, random per-row filter types, optional PLTE/tRNS, split IDAT, ancillary chunks, arbitrary row padding bits), "
        "invalid filter-type bytes; embedded with Image::from_png_data + Page::add_image, written with Document::to_bytes, re-read with PdfReader and "
        "the image XObject (+ /SMask) decoded by the library's stream decoder; pixels compared in Coq with the ISO-shaped PNG decoder and with the model. "
        "raw: from_rgba_data / from_gray_data / from_raw_data on random buffers (matching and non-matching sizes, bpc 1..16, Gray/RGB/CMYK) and huge dimensions. "
        "non-trivial = more than one pixel and at least one scanline filter other than None (png) / more than one byte (raw); distinct by case text")

ASSUME = ["flate2 ZlibDecoder inflates the IDAT data (Section variable `inflate` of the model; the harness supplies the filtered scanline stream it deflated)",
          "the XObject stream's FlateDecode coding is inverted by the library's reader (observed on every case: the harness reads the written document back)",
          "PNG chunk framing (length/type/CRC, chunk order, IDAT concatenation, ignored ancillary chunks) is exercised on the real code but not modelled in Coq",
          "DCT (JPEG) and TIFF inputs are outside this check: the library embeds them without decoding",
          "model is of the tree with fix_image_size_overflow.patch applied"]


def load_own_findings(r):
    p = os.path.join(ROOT, "known_findings", r.pid + ".json")
    if os.path.exists(p):
        for f in json.load(open(p)):
            if f["property"] == r.pid:
                r.known.setdefault(f["id"], f)


def classify(case, code):
    """Known classes are keyed by IHDR fields only (interlace, colour type, bit depth) or by a tRNS colour that occurs in the image.
    Only code 2 (model = implementation, harness encoder = Coq decoder, pixels differ) is ever suppressed."""
    if not case or code != 2 or case.get("kind") != "png":
        return None
    ct, bd = case["ct"], case["bd"]
    if case["il"]:
        return "C24-INTERLACE"
    if ct == 3:
        return "C24-PALETTE"
    if bd < 8:
        return "C24-SUBBYTE"
    if bd == 16:
        return "C24-16BIT-ALPHA" if ct in (4, 6) else "C24-16BIT"
    if case.get("trns") and case.get("trns_hit") and ct in (0, 2):
        return "C24-TRNS"
    return None


def corpus(r):
    if r.replay:
        return
    files = sorted(glob.glob(os.path.join(ROOT, "corpus", "C24", "*.json")))
    if not files or not r.build_harness():
        return
    for i, f in enumerate(files):
        out, rc, log = r.harness("c24", cases_from=f, sub="corpus_%d" % i)
        if rc != 0:
            r.corr_broken.append("corpus replay %s failed" % os.path.basename(f))
            continue
        for ch in ["png", "raw"]:
            if os.path.exists(os.path.join(out, ch + ".meta.json")):
                meta, fails = r.coq_eval(out, ch)
                r.handle_fails(ch, meta, fails, classify)


def run(r):
    r.rule = RULE
    r.assumptions = ASSUME
    load_own_findings(r)
    return standard(r, "c24", ["theories/C24/Proofs.vo", "theories/C24/ProofsC07.vo"], ["theories/C24/Check.vo"], ["png", "raw"], classify=classify, pre=corpus)
