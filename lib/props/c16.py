"""C16 — page operations preserve page content and geometry."""
import glob, os
from vlib import *

RULE = ("ops: generated source PDFs (raw emitter, 1..7 pages in a two-level page tree; MediaBox with arbitrary, also negative, origins; CropBox; "
        "attributes own or inherited from the group or the root node; /Rotate in {-450..810} and values next to the i32 limits; one or two content "
        "streams per page, distinct per page; one font resource per page) x every operation of the public operations API "
        "(split single/chunk/ranges/points, merge with and without page ranges, split-then-merge, extract pages/range/page, reorder, reverse, swap, "
        "move, rotate by 0/90/180/270/-90/450/360/-270/45 over all kinds of page ranges, incl. out-of-range and empty requests), outputs written below "
        "the run directory (removed afterwards), re-read by the library; compared with the model (bit 1) and with the requested selection (bit 2). "
        "non-trivial = the operation succeeded and produced at least two pages in total")


def classify(case, code):
    return None


def corpus(r):
    """replay cases of corpus/C16/*.json (past failures, boundary cases) run first"""
    files = sorted(glob.glob(os.path.join(ROOT, "corpus", r.pid, "*.json")))
    if not files or r.replay:
        return
    if not r.build_harness():
        return
    for i, f in enumerate(files):
        out, rc, log = r.harness("c16", cases_from=f, sub="corpus_%d" % i)
        if rc != 0 or not os.path.exists(os.path.join(out, "ops.meta.json")):
            r.corr_broken.append("corpus case %s: harness failed" % os.path.basename(f))
            continue
        meta, fails = r.coq_eval(out, "ops")
        r.handle_fails("ops", meta, fails, classify)
    r.extra_cov["corpus_files"] = len(files)


def run(r):
    r.rule = RULE
    r.assumptions = ["the source documents are read as the generator wrote them (inheritance and reading are C18's and C02's subject)",
                     "resources are compared by the names of the /Font entries (every source name must be present; the writer adds the 14 standard fonts)"]
    return standard(r, "c16", ["theories/C16/Proofs.vo", "theories/C16/SplitMerge.vo"], ["theories/C16/Model.vo"], ["ops"], classify=classify, pre=corpus)
