"""C05 — encryption round-trips for every strength, configuration and password."""
import glob, json, os
from vlib import *

RULE = ("generated documents (Info strings incl. non-ASCII, parentheses, backslash, 16-byte and longer values; page content streams; text "
        "annotations with /Contents and /Subj; text form fields with values; page labels with a prefix) x strengths {RC4-40, RC4-128, AES-128, "
        "AES-256} x writer configurations {classic, xref stream, xref + object streams} x compression on/off x password pairs drawn from "
        "{empty, ASCII, with parentheses, Latin, Cyrillic, 40 bytes, 127 bytes, 140 bytes} x six permission words, plus per strength documents whose user AND owner "
        "passwords have a 2-, 3- and 4-byte UTF-8 character lying across / ending at / starting at the truncation point (byte 32 for R2-R4, byte 127 for R5; "
        "thorough: every position of every size in both roles); the real writer writes "
        "(plaintext objects recorded by the verif_c05 hook), the real reader re-opens and unlocks with the user, the owner and a wrong password. "
        "Channels: key (file key / refusal vs ISO algorithms on the library's UTF-8 password bytes), obj (writer model and reader model vs the "
        "raw object found in the file by an independent scanner and the reader's result; payload must equal the plaintext), doc (trailer flags "
        "encryption, locked before unlock, permissions, text and title equal to the plaintext build). non-trivial = the object has a non-empty "
        "string or stream / the password was accepted / the document has text or a title")

CHANNELS = ["key", "obj", "doc"]


def classify(case, code):
    if not case or code in (-1,):
        return None
    ch = case.get("ch")
    doc = case.get("doc") or {}
    if ch == "obj" and case.get("skipkey") and not case.get("member"):
        return "C05-skipped-keys"
    if ch == "doc" and doc.get("label") is not None and case.get("strength", 0) >= 2:
        # AES: the catalog (page-label prefix left in clear) cannot be decrypted -> nothing can be read
        return "C05-skipped-keys"
    if ch == "doc" and code == 4 and (case.get("cfg", 0) & 1) == 1 and "Crypt" in (case.get("text_err") or ""):
        return "C05-crypt-marker"
    return None


def corpus(r):
    """replay cases of corpus/C05 always run first"""
    files = sorted(glob.glob(os.path.join(ROOT, "corpus", "C05", "*.json")))
    if not files or r.replay:
        return
    if not r.build_harness():
        return
    cases = []
    for f in files:
        cases += json.load(open(f))
    p = os.path.join(r.rundir, "corpus_cases.json")
    json.dump(cases, open(p, "w"))
    out, rc, log = r.harness("c05", cases_from=p, sub="c05_corpus", timeout=900)
    if rc != 0:
        r.corr_broken.append("harness c05 failed on the corpus (exit %d)" % rc)
        return
    for ch in CHANNELS:
        if os.path.exists(os.path.join(out, ch + ".meta.json")):
            meta, fails = r.coq_eval(out, ch, timeout=1800)
            r.handle_fails(ch, meta, fails, classify)


def run(r):
    r.rule = RULE
    r.assumptions = ["ciphers enter the theorems as functions with dec k id (enc k id iv x) = Some x (RC4: C23 rc4_spec_involutive; AES-CBC+PKCS#7: C23 cbc_pkcs7_roundtrip_partial, which still assumes the AES block inverse)",
                     "passwords are taken as the library takes them (UTF-8 bytes); the PDFDocEncoding deviation is C06/C23's subject",
                     "AES IVs are read back from the file; their randomness is not examined",
                     "model is of the tree with fix_xref_stream_encrypt.patch, fix_objstm_encrypt_writer.patch and fix_objstm_double_decrypt.patch applied",
                     "a writer configuration whose PLAINTEXT output the reader cannot read back is counted (plain-unreadable) and left to C02/C03"]
    return standard(r, "c05", ["theories/C05/Proofs.vo", "theories/C05/Check.vo", "theories/C05/Instances.vo", "theories/C05/AesInstance.vo"], ["theories/C05/Check.vo"], CHANNELS, classify=classify,
                    pre=corpus, harness_timeout=1800, eval_timeout=1800)
