"""C30 — user-chosen resource names cannot break the page."""
import json, os
from vlib import *

RULE = ("api: names (fixed list incl. 'My Image', 'A/B', 'A#20', '#', '()<>[]{}/%#', trailing/leading space, empty, controls, non-ASCII; every ASCII char "
        "inside a name; seeded random regular and irregular names) through Page::add_image+draw_image and Page::add_form_xobject, document written "
        "with Document::to_bytes and re-opened with PdfReader/PdfDocument; outcome = reads back with the SAME String as XObject key (and Do operand) "
        "/ rejected by the API / broken. "
        "pages: 2-4 page documents reusing the SAME name (regular, or for images any ASCII name incl. white space/delimiters/'#') on several pages for DIFFERENT resources (images of equal size with other pixels, "
        "other sizes, form XObjects, image/form alternating, two names exchanged): per page the decoded stream the name resolves to must be the one "
        "registered on that page (judged in Coq). non-trivial = name longer than one byte (api), a name shared by >= 2 pages (pages); distinct by case text")

def classify(case, code):
    """known class (what is left of the name finding after fix_name_escape): a name with a byte >= 0x80 —
    the READER returns its resource-dictionary key as one char per byte, so it does not equal the name —
    and the model predicts exactly the observed outcome (bit 1 clear).  Names made of ASCII only (white
    space, delimiters, '#', controls) are never classified: they must read back."""
    if not case or code < 0 or (code & 1) or "pages" in case:
        return None
    name = bytes.fromhex(case.get("name", ""))
    if case.get("entry") in ("image", "form") and any(b >= 0x80 for b in name):
        return "C30-name-nonascii"
    return None


def run(r):
    r.rule = RULE
    p = os.path.join(ROOT, "known_findings", r.pid + ".json")
    if os.path.exists(p):
        for f in json.load(open(p)):
            r.known.setdefault(f["id"], f)
    r.assumptions = ["the content-stream tokenizer's name reader is C21's model (Tok.scan_name/decode_name/utf8_valid), tied to the code by C21's correspondence",
                     "entry points exercised: images (ungated) and form XObjects (gated); fonts, ExtGState, patterns, shadings, colour spaces and form fields are not exercised by this harness"]
    return standard(r, "c30", ["theories/C30/Proofs.vo"], ["theories/C30/Model.vo", "theories/C09/Model.vo", "theories/C21/Tok.vo"], ["api", "pages"], classify=classify)
