"""C30 — user-chosen resource names cannot break the page."""
import json, os
from vlib import *

RULE = ("api: names (fixed list incl. 'My Image', 'A/B', 'A#20', '#', '()<>[]{}/%#', trailing/leading space, empty, controls, non-ASCII incl. 'é中1' and the chars U+07FF U+0800 U+D7FF U+E000 U+FFFF U+10000 U+10FFFF; every ASCII char "
        "inside a name; seeded random regular and irregular names; random names with 2-, 3- and 4-byte UTF-8 sequences (classes utf8_Nbyte)) through Page::add_image+draw_image and Page::add_form_xobject, document written "
        "with Document::to_bytes and re-opened with PdfReader/PdfDocument; outcome = reads back with the SAME String as XObject key (and Do operand) "
        "/ rejected by the API / broken. "
        "pages: 2-4 page documents reusing the SAME name (regular, non-ASCII (every second block of six documents, classes ..._utf8name), or for images any ASCII name incl. white space/delimiters/'#') on several pages for DIFFERENT resources (images of equal size with other pixels, "
        "other sizes, form XObjects, image/form alternating, two names exchanged): per page the decoded stream the name resolves to must be the one "
        "registered on that page (judged in Coq). non-trivial = name longer than one byte (api), a name shared by >= 2 pages (pages); distinct by case text")

def classify(case, code):
    """no open class: C30-name-raw (fix_name_escape) and C30-name-nonascii (fix_name_utf8: the reader decodes
    name bytes as UTF-8 when valid) are both fixed, so EVERY name that is accepted and does not read back with
    the same String as XObject key and Do operand is a violation"""
    return None


def run(r):
    r.rule = RULE
    p = os.path.join(ROOT, "known_findings", r.pid + ".json")
    if os.path.exists(p):
        for f in json.load(open(p)):
            r.known.setdefault(f["id"], f)
    r.assumptions = ["the content-stream tokenizer's name reader is C21's model (Tok.scan_name/decode_name/utf8_valid), tied to the code by C21's correspondence",
                     "entry points exercised: images (ungated) and form XObjects (gated); fonts, ExtGState, patterns, shadings, colour spaces and form fields are not exercised by this harness"]
    return standard(r, "c30", ["theories/C30/Proofs.vo"], ["theories/C30/Model.vo", "theories/C09/Model.vo", "theories/C21/Tok.vo"], ["api", "pages"], classify=classify)
