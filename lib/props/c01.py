"""C01 — reading any byte sequence never crashes, hangs or exhausts memory (partial: logic proved, runtime observed)."""
import glob, os, re
from vlib import *

RULE = ("robust: every case is one ISOLATED WORKER PROCESS of the debug build (2 MiB thread stack for the parsing thread, RLIMIT_AS 1.5 GiB, "
        "RLIMIT_CPU 20 s, wall limit 120 s) that opens the bytes under a ParseOptions preset and navigates (page count, each page, resources, "
        "content streams decoded and parsed, text extraction, metadata), or calls the public kernel-level entry (XRefStream, ObjectStream, "
        "PdfObject::parse, Lexer, ContentParser, PdfStream::decode, CMap, Image::from_png_data). Inputs: boundary catalogue "
        "{0,1,-1,2^7+-1,2^8+-1,2^15+-1,2^16+-1,2^31+-1,2^32+-1,2^63+-1,2^63,2^40,i64::MIN} in every numeric slot (xref subsection first/count, "
        "/Size, /Prev, /W, /Index, /N, /First, object-stream offsets, /Length, /Predictor /Colors /Columns /BitsPerComponent, /Rotate, /St, /Count, "
        "MediaBox, startxref, entry offsets, octal/hex escapes) x skeletons (classic / xref-stream / ObjStm) x the five presets; the computed "
        "witnesses of every refuted kernel; byte and structure mutations of valid files; nesting and repetition bombs; /Prev chains and cycles; "
        "plain random bytes; SHAPES: xref streams whose type-2 entries form container chains/cycles of length 1..4 (self, full cycle, rho) reached "
        "through /Root /Pages /Kids /Contents /Resources /Font; classic xref sections whose count exceeds the lines present x every tail "
        "(one-line trailer, corrupted/missing keyword, comments, blank lines, EOF, startxref before/after, CRLF, no final EOL); the manual "
        "stream-reconstruction path (unparsable dictionary, indirect /Length, object missing from the table) x boundary /Length. Judged in Coq by C01.Judge.case_code (kernel catalogue evaluated on the spliced integers). "
        "non-trivial = a case aimed at a kernel, or a generic case that opened successfully; distinct by case text")

KERNEL_RUN_MIN = 1000


def classify(case, code):
    """known findings: content.rs recursion only (the package may not edit content.rs) — narrow: kernel + input shape + observed stack overflow"""
    if not case:
        return None
    obs = case.get("observed", "")
    if "stack-overflow" not in obs and "signal11" not in obs and "signal6" not in obs:
        return None
    k = case.get("kernel")
    try:
        n = int((case.get("kargs") or ["0"])[0])
    except ValueError:
        n = 0
    if k == "KContentRun" and n >= KERNEL_RUN_MIN:
        return "C01-content-skip-run"
    if k == "KContentNest" and n >= KERNEL_RUN_MIN:
        return "C01-content-mc-nesting"
    return None


SHAPES = [
    ("src/parser/xref.rs", r"first_obj_num\s*\.checked_add\(i\)", "classic xref key is checked"),
    ("src/parser/xref.rs", r"i64::from\(\*max_obj_num\) \+ 1", "max+1 taken in i64"),
    ("src/parser/xref.rs", r"visited_offsets\.contains\(&offset\)", "/Prev visited set"),
    ("src/parser/xref.rs", r"read_pdf_line\(reader, &mut line\)\? == 0", "EOF ends the subsection loop"),
    ("src/parser/xref.rs", r"line\.get\(0\.\.10\)", "xref entry fields sliced with get"),
    ("src/parser/xref_stream.rs", r"try_fold\(0usize, \|acc, &w\| acc\.checked_add\(w\)\)", "/W sum is checked"),
    ("src/parser/xref_stream.rs", r"first_obj\s*\.checked_add\(i\)", "/Index key is checked"),
    ("src/parser/object_stream.rs", r"u64::from\(self\.first\) \+ u64::from\(\*offset\)", "/First + offset in u64"),
    ("src/parser/lexer.rs", r"Vec::with_capacity\(n\.min\(READ_CHUNK\)\)", "read_bytes reserves at most a chunk"),
    ("src/parser/lexer.rs", r"loop \{\s*if let Some\(token\) = self\.next_token_step\(\)\?", "next_token is a loop"),
    ("src/parser/objects.rs", r"lexer\.enter_container\(\)\?;[\s\S]{0,200}parse_array_with_options", "array nesting guarded"),
    ("src/parser/objects.rs", r"lexer\.enter_container\(\)\?;[\s\S]{0,200}parse_dictionary_or_stream_with_options", "dictionary nesting guarded"),
    ("src/parser/filters.rs", r"let bytes_per_pixel = bpc\s*\.checked_mul\(colors\)", "predictor pixel size checked"),
    ("src/parser/filters.rs", r"\.checked_mul\(colors\)\s*\.and_then\(\|samples\| samples\.checked_mul\(bpc\)\)\s*\.and_then\(\|bits\| bits\.checked_add\(7\)\)", "predictor row size checked"),
    ("src/parser/filters.rs", r"fold\(0u64, \|acc, &ch\| acc \* 85 \+ u64::from\(ch - b'!'\)\)", "ASCII85 group in u64"),
    ("src/text/cmap.rs", r"acc\.saturating_mul\(256\)\.saturating_add\(b as usize\)", "CMap offset fold saturates"),
    ("src/graphics/png_decoder.rs", r"\(self\.height as usize\)\s*\.checked_mul\(bytes_per_row\)", "PNG size checked"),
    ("src/parser/reader.rs", r"fn get_compressed_object[\s\S]{0,700}let stream_obj = self\.get_object\(stream_obj_num, 0\)\?;", "object-stream container loaded through the guarded get_object"),
    ("src/parser/reader.rs", r"if being_loaded\.contains\(&obj_num\)", "being-loaded set consulted by get_object"),
    ("src/parser/xref.rs", r"// Skip comments\s*if trimmed\.starts_with\('%'\) \{\s*continue;\s*\}\s*// Check if we've hit EOF[^\n]*\s*if bytes_read == 0 \|\| trimmed == \"trailer\"", "entry loop: only comments are skipped above the EOF test"),
    ("src/parser/xref.rs", r"Vec::with_capacity\(max\.min\(WINDOW_CHUNK\)\)", "read_window_at reserves at most a chunk"),
]


def ties(run):
    """constant ties + code-shape anchors.  A missing anchor never raises an alarm by itself: it ESCALATES the
    correspondence to the thorough generator (DESIGN 2: anchor drift) and is recorded in the evidence."""
    drift = []
    for rel, pat, what in SHAPES:
        try:
            src = open(os.path.join(CRATE, rel)).read()
        except OSError:
            drift.append("%s: file missing" % rel)
            continue
        if not re.search(pat, src):
            drift.append("%s: %s" % (rel, what))
    lx = open(os.path.join(CRATE, "src/parser/lexer.rs")).read()
    m = re.search(r"pub const MAX_NESTING_DEPTH: usize = (\d+);", lx)
    dv = open(os.path.join(COQ, "theories/C01/Depth.v")).read()
    mm = re.search(r"Definition MAX_NEST : nat := (\d+)\.", dv)
    if m and mm and m.group(1) != mm.group(1):
        run.corr_broken.append("constant tie: MAX_NESTING_DEPTH of lexer.rs (%s) differs from MAX_NEST of the model (%s)" % (m.group(1), mm.group(1)))
    if not m:
        drift.append("lexer.rs: MAX_NESTING_DEPTH constant")
    rd = open(os.path.join(CRATE, "src/parser/reader.rs")).read()
    depths = set(re.findall(r"max_reconstruction_depth: (\d+),", rd))
    lv = open(os.path.join(COQ, "theories/C01/Loops.v")).read()
    ml = re.search(r"Definition MAX_LOAD_DEPTH : nat := (\d+)\.", lv)
    if depths and ml and depths != {ml.group(1)}:
        run.corr_broken.append("constant tie: max_reconstruction_depth of reader.rs (%s) differs from MAX_LOAD_DEPTH of the model (%s)" % (sorted(depths), ml.group(1)))
    if not depths:
        drift.append("reader.rs: max_reconstruction_depth constant")
    run.extra_cov["anchors_checked"] = len(SHAPES) + 1
    if drift:
        run.extra_cov["anchor_drift"] = drift
        run.note("anchor drift (escalating to the thorough generator): " + "; ".join(drift))
        if not run.replay:
            run.tier = "thorough"
    corpus(run)


def corpus(r):
    files = sorted(glob.glob(os.path.join(ROOT, "corpus", r.pid, "*.json")))
    if not files or r.replay:
        return
    if not r.build_harness():
        return
    for i, f in enumerate(files):
        out, rc, log = r.harness("c01", cases_from=f, sub="corpus_%d" % i)
        if rc != 0 or not os.path.exists(os.path.join(out, "robust.meta.json")):
            r.corr_broken.append("corpus case %s: harness failed" % os.path.basename(f))
            continue
        meta, fails = r.coq_eval(out, "robust")
        r.handle_fails("robust", meta, fails, classify)
    r.extra_cov["corpus_files"] = len(files)


def run(r):
    r.rule = RULE
    r.level = "proof"
    r.extra_cov["scope"] = "partial (see claim text)"
    r.assumptions = ["debug build, x86-64 Linux (usize = u64); a Rust Vec holds at most isize::MAX bytes (hypothesis len <= ISIZE_MAX of the kernel theorems)",
                     "stack consumption per frame, the allocator and the clock are OBSERVED by the worker limits, not modelled",
                     "flate2/miniz_oxide decompression is bounded by the library's MAX_DECOMPRESSED_SIZE guard (observed, not modelled)",
                     "code outside the kernel catalogue (JBIG2/DCT/CCITT decoders, OCR, signatures, encryption) is covered only by the worker observations"]
    return standard(r, "c01", ["theories/C01/KProofs.vo", "theories/C01/Depth.vo", "theories/C01/Loops.vo", "theories/C01/Judge.vo"],
                    ["theories/C01/Judge.vo"], ["robust"], classify=classify, pre=ties, harness_timeout=2400)
