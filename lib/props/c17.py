"""C17 — incremental updates are append-only and take effect."""
import os
from vlib import *

RULE = ("fin: IncrementalUpdate (allocate/replace/finish) driven through the hook verif_incremental_finish over hand-assembled bases "
        "(random 1..3-revision histories, classic / xref-stream / object-stream, final EOL present / absent / CR) and library-written "
        "bases (default, legacy, xref-stream configs), 1..3 successive updates replacing a random subset of objects (registered in "
        "unsorted order) plus 0..2 fresh ids; output compared byte for byte with the Gallina finish; prefix and re-read of every object "
        "(replaced -> new value, others as before) by the spec predicate. "
        "api: IncrementalFormFiller.fill_many and IncrementalTextNoteEditor.apply (add / update / remove) in histories of 1..4 edits over "
        "library-written bases (default, legacy, xref streams) and hand-assembled bases whose AcroForm, fields and page live in an object "
        "stream; after every edit: byte prefix, appended tail parsed by an independent minimal reader (xref entries point at 'N G obj', "
        "/Prev = previous startxref), library re-read of every field /V (raw bytes) and every note, untouched objects unchanged. "
        "non-trivial = an existing object is replaced (fin) / the history has at least two edits (api)")


def corpus(r):
    """replay the stored witness cases first (corpus/C17/*.json)"""
    import glob
    if r.replay:
        return
    files = sorted(glob.glob(os.path.join(ROOT, "corpus", "C17", "*.json")))
    if not files or not r.build_harness():
        return
    for i, f in enumerate(files):
        out, rc, log = r.harness("c17", cases_from=f, sub="corpus_%d" % i)
        if rc != 0:
            r.corr_broken.append("corpus replay %s failed" % os.path.basename(f))
            continue
        for ch in ['fin', 'api']:
            if os.path.exists(os.path.join(out, ch + ".meta.json")):
                meta, fails = r.coq_eval(out, ch)
                r.handle_fails(ch, meta, fails, None)


def run(r):
    r.rule = RULE
    r.assumptions = ["serialised object bodies (write_object) and the MD5 second /ID string are inputs of the finish model",
                     "form values restricted to WinAnsi-representable text (others are rejected by design); /V compared as the bytes written (text-string encoding is C10's subject)",
                     "uses C04's model and theorem for 'takes effect'; needs fix_c04_stale_compressed.patch for object-stream bases",
                     "IncrementalFormFiller's own tail assembly is modelled (theories/C17/Filler.v filler_out) and proved append-only / covering / taking effect; its tie is four outputs of the real fill_many embedded as vm_compute Examples plus the api channel's observations (prefix, structure, re-read) — the api channel does not record the output bytes, so filler_out is not compared on every run; PdfWriter::write_incremental_* (page replacement / overlay) are not modelled and not exercised"]
    return standard(r, "c17", ["theories/C17/Proofs.vo", "theories/C17/Filler.vo", "theories/C17/ParseBack.vo"], ["theories/C17/Model.vo"], ["fin", "api"], pre=corpus)
