"""C04 — the newest revision of an object always wins."""
import os
from vlib import *

RULE = ("hist: hand-assembled multi-revision PDFs (classic sections / xref streams plain or Flate, /W[0]=0, object streams, free "
        "entries, /Prev chains) opened by the real PdfReader under the strict/default/new/tolerant/skip_errors presets; every object "
        "number of the history fetched with get_object. Exhaustive: all histories over 2 objects with K<=2 (quick) / K<=3 (thorough) "
        "and over 3 objects K<=2 (thorough), each object absent/Direct/InStm/Free per revision, both section forms; sampled larger ones; "
        "random histories of 3..7 revisions; hybrid-reference files (hybrid_k2: every base over 2 objects x every hybrid update with each object absent/Direct/Free in the classic section or InStm/hidden-Direct in the /XRefStm stream; hybrid base; hybrid on hybrid; ordinary update on hybrid; random histories with hybrid updates); recovery class: newest cross-reference data damaged (startxref past EOF / keyword "
        "overwritten), direct redefinitions only. non-trivial = some queried object is defined by at least two revisions")


def corpus(r):
    """replay the stored witness cases first (corpus/C04/*.json)"""
    import glob
    if r.replay:
        return
    files = sorted(glob.glob(os.path.join(ROOT, "corpus", "C04", "*.json")))
    if not files or not r.build_harness():
        return
    for i, f in enumerate(files):
        out, rc, log = r.harness("c04", cases_from=f, sub="corpus_%d" % i)
        if rc != 0:
            r.corr_broken.append("corpus replay %s failed" % os.path.basename(f))
            continue
        for ch in ['hist']:
            if os.path.exists(os.path.join(out, ch + ".meta.json")):
                meta, fails = r.coq_eval(out, ch)
                r.handle_fails(ch, meta, fails, None)


def run(r):
    r.rule = RULE
    r.assumptions = ["HashMap is a finite map (iteration order unobservable: the merged loops only insert absent keys)",
                     "integer truncations (as u32 / as u16) of xref-stream fields are not modelled; generated fields fit",
                     "the /Prev chain walk and the startxref search are modelled over an abstract file (offset -> section record, tail lines; ChainModel.v) that is hand-read from the code; the correspondence ties them only end to end (every generated file is a /Prev chain); tokenisation is observed only",
                     "hybrid-reference files (ISO 32000-1 7.5.8.4): the loop parses the /XRefStm stream of a classic section right after the section and before /Prev (fix_c04_hybrid_xrefstm.patch); the pinned loop (walk_pinned) never read the key: c04_hybrid_refuted; hybrid files are generated (classes hybrid_*)",
                     "model is of the tree with fix_c04_stale_compressed.patch, fix_c04_w0_default.patch and fix_c04_hybrid_xrefstm.patch applied"]
    return standard(r, "c04", ["theories/C04/Proofs.vo", "theories/C04/ChainProofs.vo"], ["theories/C04/Model.vo"], ["hist"], pre=corpus)
