"""C03 — written files are structurally valid PDF."""
import glob, json, os
from vlib import *

RULE = ("seeded authoring programs through the public API (1-3 pages of 5 sizes, rotation, up to ~30 calls: m l c re h S f B w q Q cm, "
        "gray/rgb/cmyk colours, text in the 14 standard fonts incl. ( ) \\ in strings, raw RGB images, Text/Square/Highlight annotations, "
        "outline items, title/author/subject) x writer configurations {classic, classic+compress, xref stream, xref stream uncompressed; "
        "versions 1.4/1.5/1.7} plus object-stream configurations (with and without xref streams). file: classic files judged whole by "
        "valid_pdf in Coq and re-emitted by the model; xs: xref-stream files, decoded table re-checked in Coq; strict: library strict re-open "
        "and full walk incl. page count (all channels); every run has object-stream documents with a second (>100 compressible objects) "
        "and a third (>200) object stream; names: every PDF white-space byte, delimiter and # at three positions + regular + random names through the "
        "validated entry points add_color_space / add_form_xobject: rejected, or valid file with the name as resource key. non-trivial = the document paints something (content stream + resources + references); distinct by file text")


def load_own_findings(r):
    p = os.path.join(ROOT, "known_findings", r.pid + ".json")
    if os.path.exists(p):
        for f in json.load(open(p)):
            r.known.setdefault(f["id"], f)


def classify(case, code):
    return None


def corpus(r):
    if r.replay:
        return
    files = sorted(glob.glob(os.path.join(ROOT, "corpus", r.pid, "*.json")))
    r.extra_cov["corpus_files"] = [os.path.basename(c) for c in files]
    if not files or not r.build_harness():
        return
    for i, f in enumerate(files):
        out, rc, log = r.harness("c03", cases_from=f, sub="corpus_%d" % i)
        if rc != 0:
            r.corr_broken.append("corpus replay %s failed" % os.path.basename(f))
            continue
        for ch in CHANNELS:
            if os.path.exists(os.path.join(out, ch + ".meta.json")):
                meta, fails = r.coq_eval(out, ch)
                r.handle_fails(ch, meta, fails, classify)


CHANNELS = ["file", "xs", "strict", "names"]


def run(r):
    r.rule = RULE
    load_own_findings(r)
    r.assumptions = [
        "the serialised value of an object is opaque to the emission model (C09 models the serialiser); the model covers header, object framing, position counter, xref table, trailer; c03_writer_output_valid proves ValidPdf(emit ..) for all object lists under BodyOk (each body reads back with the checker's value reader up to the writer's endobj; streams carry the exact direct /Length; references name written ids) - BodyOk IS derived for the bytes of the C09 serialiser model (c03_bodyok_of_ser: parse_obj reads ser esc_iso v ++ tail back as cv v for every value with hex bytes < 256 and name bytes in 1..255; c03_writer_output_valid_ser states validity with every body = ser esc_iso v or such a dictionary + stream); that the REAL bodies are the model's ser of some value is C09's correspondence, per produced file validity is evaluated (valid_pdf)",
        "Document -> object list is not modelled: it is recovered from each produced file and validated by byte-for-byte re-emission",
        "xref-stream table decoding (inflate, /W) is done by the harness; object streams are judged by the library's strict re-open only",
        "encrypted configurations are excluded (C05); image names (unvalidated entry point) are irregular one time in two - white space, delimiters, #, non-ASCII - and must leave the file valid (names are #XX-escaped since fix_name_escape)",
        "model is of the tree with fix_c03_xref_stream_filter.patch and fix_c03_objstm_needs_xref_stream.patch applied",
    ]
    return standard(r, "c03", ["theories/C03/WriterProofs.vo", "theories/C03/Full.vo", "theories/C03/BodyOfSer.vo", "theories/C03/Case.vo"], ["theories/C03/Case.vo"], CHANNELS,
                    classify=classify, pre=corpus)
