"""C15 — the document-to-chunks pipeline preserves content and provenance (partial)."""
from vlib import *

RULE = ("hp: generated element lists (0..45 elements; title sizes in 1/8 pt: equal, within 5% incl. the exact 5% boundary and one unit "
        "beyond, chains of near sizes, separated, monotone, none, unknown/NaN/inf/0/negative; >255 buckets) through the real "
        "assign_heading_paths (hook) vs the stack model (bit 1) and the declarative breadcrumb evaluated on the implementation's "
        "output (bit 2); pg: page lists through the real collect_pages; id: chunks built by the real HybridChunker + "
        "RagChunk::from_hybrid_chunk_* + link_chunks (the composition of build_rag_chunks): ids a function of (doc hash, index, "
        "full_text) of the shape <prefix>:<index>, links = neighbours, ids distinct, pages exact, SHA-256 anchors; "
        "e2e: 1-4 page documents authored through Document/Page (24/18/14 pt headings, 10 pt paragraphs of 1-3 lines, page breaks "
        "inside sections, all words distinct) -> to_bytes -> PdfReader -> rag_chunks / rag_chunks_with / "
        "rag_chunks_with_source_and_config, twice in-process and once in a child process. "
        "non-trivial: hp = a breadcrumb of depth>=2 and a pop; pg = duplicates and >=2 distinct pages; id = >=3 chunks one multi-page; "
        "e2e = multi-page document with a chunk spanning two pages")

def classify(case, code):
    """No open class.  C15-breadcrumb-page-reset (formerly: e2e case with ONLY bit 8 set and every mismatching chunk
    governed by a heading authored on an earlier page) is FIXED by fix_breadcrumb_across_pages: a breadcrumb mismatch
    of an authored document, across a page break or not, is a VIOLATION.  (`cross_page_only` stays in the replay
    case as a diagnostic.)"""
    return None


def run(r):
    r.rule = RULE
    r.level = "proof"
    r.extra_cov["scope"] = "partial: geometric partitioning observed end to end only"
    r.assumptions = [
        "f64 font sizes abstracted to N units: exact for the generated sizes (multiples of 1/8 pt below 2^30 pt), see Model.v header",
        "SHA-256 (crate sha2) is a function: section variable hash8hex; two FIPS 180-4 vectors checked each run",
        "partitioning of text fragments into elements is NOT modelled: observed end-to-end only",
        "serialised output is observed through the Debug rendering of Vec<RagChunk> (the harness crate does not enable the `semantic` feature that provides to_json)",
    ]
    return standard(r, "c15", ["theories/C15/Proofs.vo", "theories/C15/Stretch.vo"], ["theories/C15/Model.vo"], ["hp", "pg", "id", "e2e"], classify=classify)
