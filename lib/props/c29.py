"""C29 — the object cache behaves as a bounded LRU map."""
import os, re
from vlib import *

RULE = ("seq: every op sequence over {Get,Put}x3 keys + Clear up to the stated length, for capacities 0..4 (exhaustive), "
        "plus seeded random sequences (length 5..200, 2..14 keys, capacity 0..12) on LruCache and ObjectCache; "
        "conc: 2-3 real threads on one ObjectCache, outputs checked for an explaining interleaving under the abstract spec. "
        "non-trivial = the history has a hit and a miss on a key that was stored earlier (eviction/clear/cap 0); distinct by case text")


def lock_shape(run):
    """tie (b): every ObjectCache method body is one call made while holding the single lock"""
    src = open(os.path.join(CRATE, "src/memory/cache.rs")).read()
    m = re.search(r"impl ObjectCache \{(.*?)\n\}\n", src, flags=re.S)
    if not m:
        run.corr_broken.append("lock-shape: impl ObjectCache not found")
        return
    body = m.group(1)
    want = {"get": r"self\.cache\.write\(\)\s*\{\s*cache\.get\(id\)\.cloned\(\)",
            "put": r"self\.cache\.write\(\)\s*\{\s*cache\.put\(id, object\);",
            "clear": r"self\.cache\.write\(\)\s*\{\s*cache\.clear\(\);"}
    for fn, pat in want.items():
        fm = re.search(r"pub fn %s\b.*?\n    \}\n" % fn, body, flags=re.S)
        if not fm or not re.search(pat, fm.group(0)) or len(re.findall(r"self\.cache\.(write|read)\(\)", fm.group(0))) != 1:
            run.corr_broken.append("lock-shape: ObjectCache::%s is no longer a single call under one write lock (atomicity assumed by c29_any_interleaving_is_lru)" % fn)
    run.extra_cov["lock_shape_checked"] = sorted(want)


def run(r):
    r.rule = RULE
    r.assumptions = ["std::sync::RwLock provides mutual exclusion (the concurrent theorem is stated over atomic steps)",
                     "HashMap is a finite map; VecDeque is a sequence"]
    return standard(r, "c29", ["theories/C29/Proofs.vo"], ["theories/C29/Model.vo"], ["seq", "conc"], pre=lock_shape)
