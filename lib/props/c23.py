"""C23 — cryptographic building blocks match their reference definitions."""
import glob, json, os
from vlib import *

RULE = ("channels rc4 / aes / r234 / r5 / r6: every public function of rc4.rs, aes.rs and standard_security.rs is called on seeded random "
        "inputs - RC4 keys of 1..300 bytes (and 0: known finding), data 0..1200 bytes, one-shot and streaming; AES-128/256 CBC+PKCS#7, raw CBC, ECB "
        "with data lengths 0, <16, multiples of 16, other, large, refused IV/data lengths, tampered and random ciphertexts; R2/R3/R4 (key lengths 5..16) "
        "O, key, U, user and owner authentication with passwords of 0..127 bytes (ASCII, Latin-1, '(' inside), permission words, file ids absent/empty/16/32 bytes, "
        "Algorithm 1; R5 and R6 U/UE/O/OE, authentication, key recovery (salts read back from the output), Perms compute/validate/extract, Algorithm 2.B directly. "
        "Each case is compared inside Coq with the code-shaped model (bit 1) and with the standard's algorithm (bit 2; bit 4 = also differs when the password "
        "bytes are read the library's way; 8 = owner-authentication class). non-trivial = the implementation returned a non-empty value for a non-empty input")

NONASCII = lambda a: isinstance(a, list) and any(v >= 128 for v in a)


def classify(case, code):
    if not case:
        return None
    op, args, nums = case.get("op"), case.get("args", []), case.get("nums", [])
    if code == -1:
        if op in (1, 2) and args and args[0] == "":
            return "C23-rc4-empty-key"
        return None
    if code == 8 and op == 24:
        return "C23-owner-auth"
    if code == 2 and op in (20, 21, 22, 23, 24) and nums and nums[0] <= 4:
        if any(NONASCII(a) for a in args):
            return "C23-pdfdoc-password"
        if op == 20 and args[0] == [] and args[1] != []:
            return "C23-owner-fallback"
    return None


CHANNELS = ["rc4", "aes", "r234", "r5", "r6"]


def corpus(r):
    """replay cases of corpus/C23 always run first"""
    files = sorted(glob.glob(os.path.join(ROOT, "corpus", "C23", "*.json")))
    if not files or r.replay:
        return
    if not r.build_harness():
        return
    cases = []
    for f in files:
        cases += json.load(open(f))
    p = os.path.join(r.rundir, "corpus_cases.json")
    json.dump(cases, open(p, "w"))
    out, rc, log = r.harness("c23", cases_from=p, sub="c23_corpus", timeout=600)
    if rc != 0:
        r.corr_broken.append("harness c23 failed on the corpus (exit %d)" % rc)
        return
    for ch in CHANNELS:
        if os.path.exists(os.path.join(out, ch + ".meta.json")):
            meta, fails = r.coq_eval(out, ch, timeout=2400)
            r.handle_fails(ch, meta, fails, classify)


def run(r):
    r.rule = RULE
    r.assumptions = ["the RustCrypto aes/cbc crates, md5 and sha2 are represented by the FIPS-197 / SP 800-38A / RFC 1321 / FIPS 180-4 specifications (compared with them on every case)",
                     "passwords reach the library as Rust strings (UTF-8); SASLprep is applied by neither side for R5/R6",
                     "the random salts / IV-like bytes of R5/R6 entries are read back from the produced entries"]
    return standard(r, "c23", ["theories/C23/Proofs.vo", "theories/C23/AesCbc.vo", "theories/C23/UserHash.vo", "theories/C23/Alg2B.vo",
                     "theories/C23/PermsModel.vo", "theories/C23/R56Model.vo"], ["theories/C23/Model.vo"], CHANNELS, classify=classify,
                    pre=corpus, harness_timeout=1500, eval_timeout=2400)
