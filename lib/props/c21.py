"""C21 — content streams parse back to the operators that were written; parsing arbitrary bytes terminates."""
import glob, json, os
from vlib import *

RULE = ("ops: seeded random operator sequences (1..24 operators over every Op variant the contexts emit: path, painting, clipping, "
        "graphics state, dash, colour rg/g/k/RG/G/K and sc/SC, cs/CS/gs/ri/Do/sh with names over the whole alphabet: white space, delimiters, '#', '#20', NUL, DEL, non-ASCII (escaped #XX since fix_name_escape), "
        "Tf with Display-printed sizes, Td/Tw/Tc/Tz/TL/Ts/Tr, Tj with arbitrary bytes through escape_show_text_literal_bytes, hex Tj, "
        "TJ arrays, comments, BDC/EMC through a real Page incl. /ActualText) through the cfg hook into serialize_ops, then "
        "ContentParser::parse; numbers include NaN, +-inf, -0, ties at 0.005/0.015, denormals, 2^31, 2^53+1, values at and beyond "
        "f32::MAX, random bit patterns; all 256 byte values as string content. api: random call scripts on GraphicsContext and on "
        "Page::text()/TextContext::write/begin_marked_content, the operator list read back through verif_ops(). raw: 113 fixed + "
        "seeded random byte strings (operator fragments incl. inline images, truncations, random bytes, delimiter runs, nested "
        "property dictionaries) parsed under a wall-clock guard and compared with the parser model; ~300 adversarial inputs of 75 KB-2 MB "
        "(runs of every byte the tokenizer treats specially or skips - all delimiters, white space, NUL, DEL, high bytes, digits, signs, dot, "
        "backslash, # - alone, separated by blank/LF/a regular byte, inside BDC property dictionaries and TJ arrays; alternating 2-3 byte "
        "patterns such as <> >< << >> [] %LF >>> '> >'; 10^5-deep nesting of arrays/dictionaries/strings/BI/q/BT/BMC, unclosed and unopened; "
        "very long operand lists and single tokens; random) parsed in a child process on a 512 KiB-stack thread, restarted after an abort; "
        "only a digest and the outcome are recorded. "
        "non-trivial = at least 3 operators (ops/api), more than 6 bytes (raw); distinct by case text")

KNOWN = {"f32-overflow": "C21-f32-overflow"}


def classify(case, code):
    """known class only if the case has exactly that one flaw, the model agrees with the implementation
    (bit 1 clear) and the failure is the property bit"""
    if not case or code < 0 or (code & 1):
        return None
    fl = case.get("flaws") or []
    if len(fl) == 1 and fl[0] in KNOWN:
        return KNOWN[fl[0]]
    return None


def load_own_findings(r):
    p = os.path.join(ROOT, "known_findings", r.pid + ".json")
    if os.path.exists(p):
        for f in json.load(open(p)):
            r.known.setdefault(f["id"], f)


def corpus(r):
    """replay the stored witness cases first (corpus/C21/*.json)"""
    if r.replay:
        return
    files = sorted(glob.glob(os.path.join(ROOT, "corpus", "C21", "*.json")))
    r.extra_cov["corpus_files"] = [os.path.basename(c) for c in files]
    if not files or not r.build_harness():
        return
    for i, f in enumerate(files):
        out, rc, log = r.harness("c21", cases_from=f, sub="corpus_%d" % i)
        if rc != 0:
            r.corr_broken.append("corpus replay %s failed" % os.path.basename(f))
            continue
        for ch in ["ops", "api", "raw"]:
            if os.path.exists(os.path.join(out, ch + ".meta.json")):
                meta, fails = r.coq_eval(out, ch)
                r.handle_fails(ch, meta, fails, classify)


def run(r):
    r.rule = RULE
    load_own_findings(r)
    r.assumptions = [
        "Rust's format!(\"{:.N}\") is the exact value rounded half-to-even and str::parse::<f32> is correctly rounded (both are "
        "re-computed in Coq from the IEEE bits of the argument and compared with the emitted bytes / returned f32 bits on every case)",
        "Display of an f64 (font size) is taken from the harness as digits; Coq checks that the digits denote that f64",
        "the in_inline_image flag of the tokenizer is modelled as one step returning `ID` and the data together",
        "model is of the tree with fix_content_delim_loop.patch, fix_content_mc_nesting.patch and fix_content_int_overflow.patch applied",
        "inline-image string parameter values are compared by kind only; the token-collecting fallback of parse_inline_image is "
        "unreachable from tokenizer output and not modelled",
    ]
    if not r.replay:
        r.replay = None
    return standard(r, "c21", ["theories/C21/Proofs.vo", "theories/C21/Full.vo", "theories/C21/Ulp.vo"], ["theories/C21/Model.vo"], ["ops", "api", "raw"],
                    classify=classify, pre=corpus)
