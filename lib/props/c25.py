"""C25 — single-byte text encodings match the Annex D tables."""
import importlib, json, os, re, sys
from vlib import *
from c27 import own_known, coq_eval_text

sys.path.insert(0, os.path.join(ROOT, "translator"))

RULE = ("cell: EVERY byte 0..255 of the nine decoders (winansi_decode_char, TextEncoding::decode x4, PdfString::to_text, "
        "parser decode_text_with_encoding x3); for the eight encoders every code point below U+0600, every code point any encoder accepts "
        "or any decoder produces, boundary values (U+D7FF, U+E000, U+FFFF, U+10000, U+10FFFF) and seeded random scalar values; "
        "bulk: the real encoders run on ALL 1,112,064 scalar values, their complete non-default listing compared with the generated table by "
        "membership + counting inside Coq; model-vs-annex: all 256 bytes x 9 decoders and all 65536 BMP code points x 8 encoders swept on the model. "
        "non-trivial = key >= 128 (outside ASCII); distinct by case text")

CLASS_ID = {1: "C25-macroman-encode-high", 2: "C25-macroman-decode-0xDB", 3: "C25-lossy-encode-silent",
            4: "C25-standard-pdfdoc-passthrough", 5: "C25-pdfdoc-textstring-winansi", 6: "C25-parser-macroman-partial"}


def classify(case, code):
    """the class number is computed inside Coq by Model.known_class (code = 2 + 8*class); a cell on which the
    model and the implementation differ is never a known finding"""
    if not case or code < 0 or code & 1 or not code & 2:
        return None
    return CLASS_ID.get(code >> 3)


def model_witness(r):
    """sweeps the MODEL (generated tables) against the annex on the full domain of every table; needs only Model.vo"""
    rc, out = coq_eval_text(r, "witness", "From OxVerif Require Import Base.Util C25.AnnexD C25.Model.\n"
                            "Eval vm_compute in (first_bad_cells, first_unlocked).\n", timeout=600)
    m = re.search(r"= \((\[.*?\]), (\[.*?\])\) :", out)
    if rc != 0 or not m:
        r.corr_broken.append("witness search over the generated encoding tables did not evaluate: " + out[-300:])
        return
    r.extra_cov["model_vs_annex_cells_swept"] = 8 * 65536 + 9 * 256
    r.cov["evaluations"] += 8 * 65536 + 9 * 256
    for t, v in re.findall(r"\((\d+), (None|Some \d+)\)", m.group(1)):
        if v != "None":
            k = int(v.split()[1])
            r.violation("C25_cell_t%s_%d" % (t, k), {"channel": "cell", "case": {"table": int(t), "key": k}, "seed": r.seed},
                        "table %s, key 0x%X: the table cell in the current source is not the Annex D cell (outside every known class)" % (t, k))
    for t, v in re.findall(r"\((\d+), (None|Some \d+)\)", m.group(2)):
        if v != "None":
            k = int(v.split()[1])
            r.violation("C25_lockstep_t%s_%d" % (t, k), {"channel": "cell", "case": {"table": int(t), "key": k}, "seed": r.seed},
                        "U+%04X: TextEncoding::encode (table %s) and the strict per-character encoder disagree beyond the '?' substitution" % (k, t))


def bulk_witness(r, out, meta, fails):
    """a bulk case failed: find the first code point on which implementation listing and model disagree"""
    for idx, code in fails:
        t = meta["cases"][idx]["table"]
        src = open(os.path.join(out, "bulk_%03d.v" % idx)).read()
        m = re.search(r"Definition cases .*?:= \[\n\((\d+), (\[.*?\])\)\n\]\.", src, flags=re.S)
        if not m:
            continue
        text = ("From OxVerif Require Import Base.Util C25.AnnexD C25.Model.\nOpen Scope N_scope.\n"
                "Definition pairs : list (N * N) := %s.\n"
                "Eval vm_compute in first_fail (fun cp => out_eqb (model %d cp) (match assoc pairs cp with Some b => Some [b] | None => enc_default %d end)) 65536.\n"
                % (m.group(2), t, t))
        rc, o = coq_eval_text(r, "bulk_witness_%d" % t, text, timeout=600)
        mm = re.search(r"= Some (\d+)", o)
        if mm:
            k = int(mm.group(1))
            r.violation("C25_bulk_t%d_%d" % (t, k), {"channel": "cell", "case": {"table": t, "key": k}, "seed": r.seed},
                        "table %d, U+%04X: the real encoder and the table extracted from the source disagree (translator or source changed shape)" % (t, k))


def pre(r):
    model_witness(r)


def run(r):
    r.rule = RULE
    r.assumptions = ["char::from_u32 / `as u8` / String::from_utf8_lossy behave as documented by std",
                     "Annex D transcription (coq/theories/C25/AnnexD.v, written by tools/c25_annexd.py) is faithful; cross-checked against Python cp1252/mac_roman/latin-1",
                     "cells the annex leaves unassigned, the 15 Mac OS Roman additions of 9.6.6.4 and control codes are unconstrained; WinAnsi 0xA0/0xAD and MacRoman 0xCA accept both readings"]
    own_known(r, "C25")
    try:
        x = importlib.import_module("gen_encodings").generate(os.path.join(COQ, "Gen"))
        r.extra_cov["translator"] = x
    except Exception as e:
        r.proof_broken.append("translator gen_encodings: %s" % e)
    # custom flow: like vlib.standard plus the bulk witness search
    ok = r.coq_make(["theories/C25/Proofs.vo"])
    if ok:
        r.props_compile(())
    else:
        r.coq_make(["theories/C25/Model.vo"])
        r.proof_broken = r.proof_broken[:1]
    pre(r)
    if not r.build_harness():
        r.corr_broken.append("harness does not build against the current tree")
        return r.finish()
    cdir = os.path.join(ROOT, "corpus", "C25")
    runs = []
    if r.replay:
        runs.append(("c25_replay", r.replay))
    else:
        cases = []
        for f in sorted(os.listdir(cdir)) if os.path.isdir(cdir) else []:
            if f.endswith(".json"):
                v = json.load(open(os.path.join(cdir, f)))
                cases += v if isinstance(v, list) else [v.get("case", v)]
        if cases:
            p = os.path.join(r.rundir, "corpus_cases.json")
            json.dump(cases, open(p, "w"))
            runs.append(("c25_corpus", p))
        runs.append(("c25_0", None))
    for sub, cf in runs:
        out, rc, log = r.harness("c25", cases_from=cf, sub=sub)
        if rc != 0:
            r.corr_broken.append("harness c25 failed (exit %d): %s" % (rc, log[-300:]))
            break
        for ch in ("cell", "bulk"):
            if not os.path.exists(os.path.join(out, ch + ".meta.json")):
                continue
            meta, fails = r.coq_eval(out, ch)
            if ch == "bulk" and fails:
                bulk_witness(r, out, meta, fails)
            r.handle_fails(ch, meta, fails, classify)
    return r.finish()
