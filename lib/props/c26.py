"""C26 — CMaps map every code to the Unicode they define."""
from vlib import *

RULE = ("parse: generated ToUnicode CMaps (code spaces of 1-4 bytes, bfchar, bfrange in offset and array form; classes clean / "
        "cross_boundary (ranges crossing xxFF, destination carry) / overlap / outside_codespace / array_edges / malformed), rendered "
        "with varying white space and hex case, through CMap::parse, with probe codes (range ends +-1, middles, code-space ends, other "
        "lengths) through CMap::map / is_valid_code / to_unicode; builder: random code->Unicode maps (0..260 entries, shuffled insertion, "
        "BMP / astral / multi-character) through ToUnicodeCMapBuilder::build then CMap::parse. non-trivial = at least two sections and "
        "both mapped and unmapped probes (parse) / at least two entries (builder); distinct by case text")


def classify(case, code):
    # bit 4 is set by the Gallina checker only when every failing probe is an explicitly defined code
    # outside the code space that the implementation accepted
    if code == 6:
        return "C26-explicit-outside-codespace"
    return None


def run(r):
    r.rule = RULE
    r.assumptions = ["String::from_utf16 is the UTF-16 reading of the mapped bytes (checked in the harness against std)",
                     "codes and destinations of at most 8 bytes (usize arithmetic in calculate_offset is then exact)"]
    return standard(r, "c26", ["theories/C26/Proofs.vo"], ["theories/C26/Model.vo"], ["parse", "builder"], classify=classify)
