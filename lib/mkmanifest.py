#!/usr/bin/env python3
"""Writes MANIFEST.json from lib/claims.json (one record per claimed property) + properties.jsonl."""
import json, os
ROOT = os.path.dirname(os.path.dirname(os.path.abspath(__file__)))
import glob
g = json.load(open(os.path.join(ROOT, "lib", "claims", "_global.json")))
claims = {"claimed": {}, "not_applicable": g.get("not_applicable", {}), "notes": g.get("notes", ""), "hook_commits": g.get("hook_commits", [])}
for f in sorted(glob.glob(os.path.join(ROOT, "lib", "claims", "C*.json"))):
    claims["claimed"][os.path.basename(f)[:-5]] = json.load(open(f))
# aggregate known findings (one file per property under known_findings/) into KNOWN_FINDINGS.json
kf = []
for f in sorted(glob.glob(os.path.join(ROOT, "known_findings", "C*.json"))):
    kf += json.load(open(f))
json.dump({"comment": "Genuine defects of the pinned tree recorded rather than repaired (status open: suppressed and printed as KNOWN-FINDING) or repaired by a fix: commit (status fixed: suppress nothing). Aggregated from known_findings/Cxx.json by lib/mkmanifest.py; never written at run time.",
           "findings": kf}, open(os.path.join(ROOT, "KNOWN_FINDINGS.json"), "w"), indent=1)
props = [json.loads(l) for l in open(os.path.join(ROOT, "properties.jsonl"))]
checks, na = [], []
for p in props:
    c = claims["claimed"].get(p["id"])
    if c:
        checks.append({
            "property_id": p["id"],
            "quick_cmd": "./check %s --tier quick" % p["id"],
            "thorough_cmd": "./check %s --tier thorough" % p["id"],
            "evidence_file": "/verif/evidence/%s.json" % p["id"],
            "replay_cmd_template": "./check %s --replay {path}" % p["id"],
            "engine": "coq-proof+correspondence",
            "level_claimed": {"category": "proof", "text": c["text"], "design_ref": c.get("design_ref", "DESIGN.md §5 " + p["id"])},
            "level_note": c["note"],
            "technique": c["technique"],
        })
    else:
        na.append({"property_id": p["id"], "reason": claims["not_applicable"].get(p["id"], "no sound Coq-based check built for this property in this framework yet; not claimed")})
m = {
    "version": 1,
    "setup_cmd": "./setup.sh",
    "hooks": {
        "guard": "--cfg oxidizepdf_verif",
        "enable": "RUSTFLAGS=\"--cfg oxidizepdf_verif\" cargo build (harness crate /verif/harness depends on /repo/oxidize-pdf-core by path)",
        "baseline_off_cmd": "cd /repo && cargo nextest run --workspace --no-fail-fast --offline --test-threads 8 || cargo test --workspace --no-fail-fast --offline",
        "source_commits": claims.get("hook_commits", []),
        "add_only": True,
    },
    "engines": [{"name": "coq-proof+correspondence", "path": "/verif/check",
                 "serves_properties": [c["property_id"] for c in checks],
                 "kind_free_text": "Coq 8.16.1 theorems over hand-written Gallina models (coq/theories, coq/Props) and generated tables (coq/Gen, regenerated from /repo on every run); tie = translator and/or correspondence run (Rust harness vs the same Gallina definitions evaluated by vm_compute)"}],
    "checks": checks,
    "not_applicable": na,
    "notes": claims.get("notes", ""),
}
json.dump(m, open(os.path.join(ROOT, "MANIFEST.json"), "w"), indent=1)
print("MANIFEST.json: %d claimed, %d not claimed" % (len(checks), len(na)))
