use oxidize_pdf::parser::{ParseOptions, PdfObject, PdfReader};
use std::io::Cursor;
fn main() {
    for path in std::env::args().skip(1) {
        let bytes = std::fs::read(&path).unwrap();
        for name in ["strict", "default", "new", "tolerant", "skip"] {
            let o = match name {
                "strict" => ParseOptions::strict(),
                "tolerant" => ParseOptions::tolerant(),
                "skip" => ParseOptions::skip_errors(),
                "new" => { let mut o = ParseOptions::default(); o.lenient_streams = true; o }
                _ => ParseOptions::default(),
            };
            let r = std::panic::catch_unwind(|| {
                let mut rd = match PdfReader::new_with_options(Cursor::new(bytes.clone()), o) {
                    Ok(r) => r,
                    Err(e) => return format!("open error: {e}"),
                };
                let mut s = String::new();
                for n in [124u32, 125, 126] {
                    let v = match rd.get_object(n, 0) {
                        Ok(PdfObject::Integer(v)) => format!("Int {v}"),
                        Ok(PdfObject::Null) => "Null".to_string(),
                        Ok(PdfObject::Stream(_)) => "Stream".to_string(),
                        Ok(other) => format!("{:?}", other).chars().take(60).collect(),
                        Err(e) => format!("Err({})", e).chars().take(90).collect(),
                    };
                    s.push_str(&format!(" {n}->{v};"));
                }
                s
            });
            println!("{path} {name}: {}", r.unwrap_or_else(|_| "panic".into()));
        }
    }
}
