import struct, sys
def build(variant):
    # variant A: hidden 5 in ObjStm 6, free entries for 5,6 in base (ISO-conforming hybrid)
    # variant B: hidden 5 direct (type 1 in /XRefStm stream), free entry for 5 in base
    # variant C: like B but base has NO entry for 5 (Size 5)
    out = bytearray(b"%PDF-1.5\n%\xe2\xe3\xcf\xd3\n")
    off = {}
    def obj(n, body):
        off[n] = len(out)
        out.extend(("%d 0 obj\n" % n).encode() + body + b"\nendobj\n")
    obj(1, b"<< /Type /Catalog /Pages 2 0 R >>")
    obj(2, b"<< /Type /Pages /Kids [3 0 R] /Count 1 >>")
    obj(3, b"<< /Type /Page /Parent 2 0 R /MediaBox [0 0 100 100] >>")
    obj(124, b"1004")
    base = len(out)
    nfree = {"A": 2, "B": 1, "C": 0}[variant]
    out.extend(b"xref\n0 4\n")
    out.extend(b"0000000000 65535 f \n")
    for n in (1, 2, 3):
        out.extend(("%010d 00000 n \n" % off[n]).encode())
    out.extend(("124 %d\n" % (1 + nfree)).encode())
    out.extend(("%010d 00000 n \n" % off[124]).encode())
    for _ in range(nfree):
        out.extend(b"0000000000 00000 f \n")
    out.extend(("trailer\n<< /Size %d /Root 1 0 R >>\nstartxref\n%d\n%%%%EOF\n" % (125 + nfree, base)).encode())
    # update
    rows = []
    if variant == "A":
        data = b"125 0 1005"
        off[126] = len(out)
        out.extend(b"126 0 obj\n<< /Type /ObjStm /N 1 /First 6 /Length %d >>\nstream\n" % len(data) + data + b"\nendstream\nendobj\n")
        rows.append((125, 2, 126, 0)); rows.append((126, 1, off[126], 0))
        xn = 127
    else:
        off[125] = len(out)
        out.extend(b"125 0 obj\n1005\nendobj\n")
        rows.append((125, 1, off[125], 0))
        xn = 126
    offx = len(out)
    rows.append((xn, 1, offx, 0))
    data = b"".join(struct.pack(">BHB", t, a, b) for (_, t, a, b) in rows)
    out.extend(b"%d 0 obj\n<< /Type /XRef /Size %d /W [1 2 1] /Index [125 %d] /Length %d >>\nstream\n" % (xn, xn + 1, len(rows), len(data)) + data + b"\nendstream\nendobj\n")
    off4 = len(out)
    out.extend(b"124 0 obj\n2004\nendobj\n")
    upd = len(out)
    out.extend(("xref\n124 1\n%010d 00000 n \ntrailer\n<< /Size %d /Root 1 0 R /Prev %d /XRefStm %d >>\nstartxref\n%d\n%%%%EOF\n" % (off4, xn + 1, base, offx, upd)).encode())
    return bytes(out)
for v in "ABC":
    open("hyb_%s.pdf" % v, "wb").write(build(v))
