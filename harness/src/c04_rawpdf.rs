//! Raw multi-revision PDF writer for the C04/C17 correspondence: objects, classic xref
//! sections, xref streams (plain or Flate, optional /W[0]=0), object streams, /Prev chains,
//! free entries.  Nothing of oxidize-pdf is used here: the bytes are assembled by hand so that
//! the file layout is known exactly (offsets, sections, headers).
#![allow(dead_code)]
use std::collections::BTreeMap;
use std::io::Write as _;

#[derive(Clone, Copy, Debug, PartialEq, Eq)]
pub enum Kind {
    Direct,
    InStm,
    Free,
    /// hybrid revisions only: a direct object listed only in the /XRefStm stream
    HidDirect,
}
#[derive(Clone, Copy, Debug, PartialEq, Eq)]
pub enum Form {
    Classic,
    /// xref stream; `flate`: /Filter /FlateDecode on the xref stream and the object stream;
    /// `w0zero`: write /W [0 4 2] when every entry of the section is of type 1
    Stream { flate: bool, w0zero: bool },
    /// hybrid-reference update (ISO 32000-1 7.5.8.4): Direct/Free definitions go into a classic
    /// section, InStm/HidDirect definitions ("hidden" objects) are listed only in a cross-reference
    /// stream written before it; the classic trailer names that stream with /XRefStm.  The update
    /// counts as two sections / two revisions of the history: the stream (older), the classic one.
    Hybrid { flate: bool },
}
#[derive(Clone, Debug)]
pub struct RevSpec {
    pub form: Form,
    pub defs: Vec<(u32, Kind)>,
}

#[derive(Clone, Debug, PartialEq)]
pub enum Entry {
    Free { next: u64, gen: u64 },
    InUse { off: u64, gen: u64 },
    Compressed { stm: u64, idx: u64 },
}
#[derive(Clone, Debug)]
pub enum SectionData {
    Classic(Vec<(u32, Vec<Entry>)>),
    /// w0, subsections; rows hold (type as stored, f2, f3); with w0 = 0 the stored type is 0
    Stream(u8, Vec<(u32, Vec<(u8, u64, u64)>)>),
}
#[derive(Clone, Debug)]
pub enum Content {
    Int(u64),
    Stm(Vec<(u32, u64)>),
}

pub struct Builder {
    pub buf: Vec<u8>,
    pub rev_ends: Vec<usize>,
    pub sections: Vec<SectionData>,
    pub hist: Vec<Vec<(u32, Entry)>>,
    pub headers: Vec<(u32, u64, u64)>, // objnum, gen, offset (ascending by construction)
    pub store: Vec<(u64, Content)>,
    pub cur_gen: BTreeMap<u32, u64>,
    pub live_gen: BTreeMap<u32, u64>, // generation to ask for (newest definition)
    pub xref_offsets: Vec<u64>,
    next_aux: u32,
    size: u32,
    prev: Option<u64>,
    xrefstm: Option<u64>,
}

pub fn deflate(data: &[u8]) -> Vec<u8> {
    let mut e = flate2::write::ZlibEncoder::new(Vec::new(), flate2::Compression::default());
    e.write_all(data).unwrap();
    e.finish().unwrap()
}

fn group(entries: &[(u32, Entry)]) -> Vec<(u32, Vec<Entry>)> {
    let mut subs: Vec<(u32, Vec<Entry>)> = vec![];
    for (n, e) in entries {
        match subs.last_mut() {
            Some((first, es)) if *first + es.len() as u32 == *n => es.push(e.clone()),
            _ => subs.push((*n, vec![e.clone()])),
        }
    }
    subs
}

impl Builder {
    /// `aux_base`: first object number used for object-stream containers and xref-stream objects
    pub fn new(aux_base: u32) -> Self {
        Builder {
            buf: b"%PDF-1.5\n%\xE2\xE3\xCF\xD3\n".to_vec(),
            rev_ends: vec![],
            sections: vec![],
            hist: vec![],
            headers: vec![],
            store: vec![],
            cur_gen: BTreeMap::new(),
            live_gen: BTreeMap::new(),
            xref_offsets: vec![],
            next_aux: aux_base,
            size: 0,
            prev: None,
            xrefstm: None,
        }
    }
    pub fn next_aux_set(&mut self, n: u32) {
        self.next_aux = n;
    }
    pub fn payload(rev: usize, n: u32) -> u64 {
        (rev as u64 + 1) * 1000 + n as u64
    }
    fn put_obj(&mut self, n: u32, gen: u64, body: &[u8]) -> u64 {
        let off = self.buf.len() as u64;
        self.headers.push((n, gen, off));
        self.buf.extend_from_slice(format!("{} {} obj\n", n, gen).as_bytes());
        self.buf.extend_from_slice(body);
        self.buf.extend_from_slice(b"\nendobj\n");
        off
    }
    fn stream_obj(&mut self, n: u32, dict_inner: &str, data: &[u8], flate: bool) -> u64 {
        let d = if flate { deflate(data) } else { data.to_vec() };
        let mut body = format!("<< {} /Length {}{} >>\nstream\n", dict_inner, d.len(), if flate { " /Filter /FlateDecode" } else { "" }).into_bytes();
        body.extend_from_slice(&d);
        body.extend_from_slice(b"\nendstream");
        self.put_obj(n, 0, &body)
    }

    /// Append one revision.  `fixed`: extra direct objects with a literal body (catalog, pages).
    pub fn add_revision(&mut self, spec: &RevSpec, fixed: &[(u32, String)]) {
        if let Form::Hybrid { flate } = spec.form {
            return self.add_hybrid(spec, fixed, flate);
        }
        let rev = self.hist.len();
        let mut entries: BTreeMap<u32, Entry> = BTreeMap::new();
        if rev == 0 {
            entries.insert(0, Entry::Free { next: 0, gen: 65535 });
        }
        for (n, body) in fixed {
            let off = self.put_obj(*n, 0, body.as_bytes());
            entries.insert(*n, Entry::InUse { off, gen: 0 });
        }
        let flate = matches!(spec.form, Form::Stream { flate: true, .. });
        // direct definitions
        for (n, k) in &spec.defs {
            match k {
                Kind::Direct => {
                    let g = *self.cur_gen.get(n).unwrap_or(&0);
                    let p = Self::payload(rev, *n);
                    let off = self.put_obj(*n, g, p.to_string().as_bytes());
                    self.store.push((off, Content::Int(p)));
                    entries.insert(*n, Entry::InUse { off, gen: g });
                    self.live_gen.insert(*n, g);
                }
                Kind::Free => {
                    let g = (*self.cur_gen.get(n).unwrap_or(&0) + 1).min(65535);
                    self.cur_gen.insert(*n, g);
                    entries.insert(*n, Entry::Free { next: 0, gen: g });
                    self.live_gen.insert(*n, 0);
                }
                Kind::InStm => {}
                Kind::HidDirect => panic!("hidden objects need a hybrid revision"),
            }
        }
        // compressed definitions: one object stream for the revision
        let comp: Vec<u32> = spec.defs.iter().filter(|d| d.1 == Kind::InStm).map(|d| d.0).collect();
        if !comp.is_empty() {
            assert!(spec.form != Form::Classic, "a classic section cannot reference an object stream");
            let c = self.next_aux;
            self.next_aux += 1;
            let mut head = String::new();
            let mut bodies = String::new();
            let mut objs = vec![];
            for (i, n) in comp.iter().enumerate() {
                let p = Self::payload(rev, *n);
                head.push_str(&format!("{} {} ", n, bodies.len()));
                bodies.push_str(&format!("{} ", p));
                objs.push((*n, p));
                entries.insert(*n, Entry::Compressed { stm: c as u64, idx: i as u64 });
                self.cur_gen.insert(*n, 0);
                self.live_gen.insert(*n, 0);
            }
            let data = format!("{}{}", head, bodies);
            let off = self.stream_obj(c, &format!("/Type /ObjStm /N {} /First {}", comp.len(), head.len()), data.as_bytes(), flate);
            self.store.push((off, Content::Stm(objs)));
            entries.insert(c, Entry::InUse { off, gen: 0 });
        }
        self.finish_revision(spec.form, entries);
    }

    /// Append one hybrid-reference update (see [`Form::Hybrid`]).
    fn add_hybrid(&mut self, spec: &RevSpec, fixed: &[(u32, String)], flate: bool) {
        let rev = self.hist.len();
        let mut visible: BTreeMap<u32, Entry> = BTreeMap::new();
        let mut hidden: BTreeMap<u32, Entry> = BTreeMap::new();
        if rev == 0 {
            visible.insert(0, Entry::Free { next: 0, gen: 65535 });
        }
        for (n, body) in fixed {
            let off = self.put_obj(*n, 0, body.as_bytes());
            visible.insert(*n, Entry::InUse { off, gen: 0 });
        }
        for (n, k) in &spec.defs {
            match k {
                Kind::Direct | Kind::HidDirect => {
                    let g = *self.cur_gen.get(n).unwrap_or(&0);
                    let p = Self::payload(rev, *n);
                    let off = self.put_obj(*n, g, p.to_string().as_bytes());
                    self.store.push((off, Content::Int(p)));
                    let e = Entry::InUse { off, gen: g };
                    if *k == Kind::Direct {
                        visible.insert(*n, e);
                    } else {
                        hidden.insert(*n, e);
                    }
                    self.live_gen.insert(*n, g);
                }
                Kind::Free => {
                    let g = (*self.cur_gen.get(n).unwrap_or(&0) + 1).min(65535);
                    self.cur_gen.insert(*n, g);
                    visible.insert(*n, Entry::Free { next: 0, gen: g });
                    self.live_gen.insert(*n, 0);
                }
                Kind::InStm => {}
            }
        }
        let comp: Vec<u32> = spec.defs.iter().filter(|d| d.1 == Kind::InStm).map(|d| d.0).collect();
        if !comp.is_empty() {
            let c = self.next_aux;
            self.next_aux += 1;
            let mut head = String::new();
            let mut bodies = String::new();
            let mut objs = vec![];
            for (i, n) in comp.iter().enumerate() {
                let p = Self::payload(rev, *n);
                head.push_str(&format!("{} {} ", n, bodies.len()));
                bodies.push_str(&format!("{} ", p));
                objs.push((*n, p));
                hidden.insert(*n, Entry::Compressed { stm: c as u64, idx: i as u64 });
                self.cur_gen.insert(*n, 0);
                self.live_gen.insert(*n, 0);
            }
            let data = format!("{}{}", head, bodies);
            let off = self.stream_obj(c, &format!("/Type /ObjStm /N {} /First {}", comp.len(), head.len()), data.as_bytes(), flate);
            self.store.push((off, Content::Stm(objs)));
            hidden.insert(c, Entry::InUse { off, gen: 0 });
        }
        // the cross-reference stream of the hidden objects: no /Prev, no startxref of its own
        let x = self.next_aux;
        self.next_aux += 1;
        let xoff = self.buf.len() as u64;
        hidden.insert(x, Entry::InUse { off: xoff, gen: 0 });
        let ents: Vec<(u32, Entry)> = hidden.into_iter().collect();
        let max = ents.iter().map(|e| e.0 + 1).max().unwrap_or(0);
        self.size = self.size.max(max);
        let subs = group(&ents);
        let mut data = vec![];
        let mut rows_all = vec![];
        let mut index = String::new();
        for (first, es) in &subs {
            index.push_str(&format!("{} {} ", first, es.len()));
            let mut rows = vec![];
            for e in es {
                let (t, f2, f3) = match e {
                    Entry::Free { next, gen } => (0u8, *next, *gen),
                    Entry::InUse { off, gen } => (1u8, *off, *gen),
                    Entry::Compressed { stm, idx } => (2u8, *stm, *idx),
                };
                data.push(t);
                data.extend_from_slice(&(f2 as u32).to_be_bytes());
                data.extend_from_slice(&(f3 as u16).to_be_bytes());
                rows.push((t, f2, f3));
            }
            rows_all.push((*first, rows));
        }
        let dict = format!("/Type /XRef /Size {} /W [1 4 2] /Index [{}] /Root 1 0 R", self.size, index.trim_end());
        let off = self.stream_obj(x, &dict, &data, flate);
        assert_eq!(off, xoff);
        self.sections.push(SectionData::Stream(1, rows_all));
        self.hist.push(ents);
        // the classic section of the update
        if visible.is_empty() {
            visible.insert(0, Entry::Free { next: 0, gen: 65535 });
        }
        self.xrefstm = Some(xoff);
        self.finish_revision(Form::Classic, visible);
    }

    /// write the cross-reference section (classic or stream) for `entries` and close the revision
    pub fn finish_revision(&mut self, form: Form, mut entries: BTreeMap<u32, Entry>) {
        let rev = self.hist.len();
        let flate = matches!(form, Form::Stream { flate: true, .. });
        let prev = self.prev.map(|p| format!(" /Prev {}", p)).unwrap_or_default();
        let form = if let Form::Hybrid { .. } = form { Form::Classic } else { form };
        match form {
            Form::Classic => {
                let ents: Vec<(u32, Entry)> = entries.into_iter().collect();
                let max = ents.iter().map(|e| e.0 + 1).max().unwrap_or(0);
                self.size = self.size.max(max);
                let xoff = self.buf.len() as u64;
                let subs = group(&ents);
                let mut s = String::from("xref\n");
                for (first, es) in &subs {
                    s.push_str(&format!("{} {}\n", first, es.len()));
                    for e in es {
                        match e {
                            Entry::Free { next, gen } => s.push_str(&format!("{:010} {:05} f \n", next, gen)),
                            Entry::InUse { off, gen } => s.push_str(&format!("{:010} {:05} n \n", off, gen)),
                            Entry::Compressed { .. } => unreachable!(),
                        }
                    }
                }
                let stm = self.xrefstm.take().map(|x| format!(" /XRefStm {}", x)).unwrap_or_default();
                s.push_str(&format!("trailer\n<< /Size {} /Root 1 0 R{}{} >>\nstartxref\n{}\n%%EOF\n", self.size, prev, stm, xoff));
                self.buf.extend_from_slice(s.as_bytes());
                self.sections.push(SectionData::Classic(subs));
                self.hist.push(ents);
                self.prev = Some(xoff);
                self.xref_offsets.push(xoff);
            }
            Form::Hybrid { .. } => unreachable!(),
            Form::Stream { w0zero, .. } => {
                let x = self.next_aux;
                self.next_aux += 1;
                let xoff = self.buf.len() as u64;
                entries.insert(x, Entry::InUse { off: xoff, gen: 0 });
                let all_inuse_wo0 = entries.iter().all(|(n, e)| matches!(e, Entry::InUse { .. }) || (*n == 0 && rev == 0));
                let zero = w0zero && all_inuse_wo0;
                if zero {
                    entries.remove(&0);
                }
                let ents: Vec<(u32, Entry)> = entries.into_iter().collect();
                let max = ents.iter().map(|e| e.0 + 1).max().unwrap_or(0);
                self.size = self.size.max(max);
                let subs = group(&ents);
                let mut data = vec![];
                let mut rows_all = vec![];
                let mut index = String::new();
                for (first, es) in &subs {
                    index.push_str(&format!("{} {} ", first, es.len()));
                    let mut rows = vec![];
                    for e in es {
                        let (t, f2, f3) = match e {
                            Entry::Free { next, gen } => (0u8, *next, *gen),
                            Entry::InUse { off, gen } => (1u8, *off, *gen),
                            Entry::Compressed { stm, idx } => (2u8, *stm, *idx),
                        };
                        if !zero {
                            data.push(t);
                        }
                        data.extend_from_slice(&(f2 as u32).to_be_bytes());
                        data.extend_from_slice(&(f3 as u16).to_be_bytes());
                        rows.push((if zero { 0 } else { t }, f2, f3));
                    }
                    rows_all.push((*first, rows));
                }
                let dict = format!(
                    "/Type /XRef /Size {} /W [{} 4 2] /Index [{}] /Root 1 0 R{}",
                    self.size,
                    if zero { 0 } else { 1 },
                    index.trim_end(),
                    prev
                );
                let off = self.stream_obj(x, &dict, &data, flate);
                assert_eq!(off, xoff);
                self.buf.extend_from_slice(format!("startxref\n{}\n%%EOF\n", xoff).as_bytes());
                self.sections.push(SectionData::Stream(if zero { 0 } else { 1 }, rows_all));
                self.hist.push(ents);
                self.prev = Some(xoff);
                self.xref_offsets.push(xoff);
            }
        }
        self.rev_ends.push(self.buf.len());
    }

    /// Damage the newest cross-reference data so that the library falls back to its header scan.
    /// 1: startxref points past the end of the file; 2: the keyword / the /Type of the newest
    /// section is overwritten.
    pub fn damaged(&self, how: u64) -> Vec<u8> {
        let mut b = self.buf.clone();
        match how {
            1 => {
                let pos = rfind(&b, b"startxref\n").unwrap();
                b.truncate(pos);
                b.extend_from_slice(format!("startxref\n{}\n%%EOF\n", self.buf.len() + 4096).as_bytes());
            }
            _ => {
                let xoff = *self.xref_offsets.last().unwrap() as usize;
                if b[xoff..].starts_with(b"xref") {
                    b[xoff + 2] = b'x'; // "xrxf"
                } else if let Some(p) = find(&b[xoff..], b"/Type /XRef") {
                    b[xoff + p + 10] = b'g'; // "/Type /XReg"
                }
            }
        }
        b
    }
}

pub fn find(h: &[u8], n: &[u8]) -> Option<usize> {
    h.windows(n.len()).position(|w| w == n)
}
pub fn rfind(h: &[u8], n: &[u8]) -> Option<usize> {
    h.windows(n.len()).rposition(|w| w == n)
}

/// A one-page AcroForm document assembled by hand: text fields `names` (merged field/widget
/// dictionaries 10, 11, ...), AcroForm 5, font 8; with `in_stm` the AcroForm, the fields and the
/// page live in an object stream (the section is then an xref stream).
pub fn build_form_base(form: Form, in_stm: bool, names: &[String]) -> Vec<u8> {
    let mut b = Builder::new(900);
    let form = if in_stm && form == Form::Classic { Form::Stream { flate: false, w0zero: false } } else { form };
    let flate = matches!(form, Form::Stream { flate: true, .. });
    let field_ids: Vec<u32> = (0..names.len() as u32).map(|i| 10 + i).collect();
    let refs: String = field_ids.iter().map(|n| format!("{} 0 R", n)).collect::<Vec<_>>().join(" ");
    let mut direct: Vec<(u32, String)> = vec![
        (1, "<< /Type /Catalog /Pages 2 0 R /AcroForm 5 0 R >>".into()),
        (2, "<< /Type /Pages /Kids [3 0 R] /Count 1 >>".into()),
        (8, "<< /Type /Font /Subtype /Type1 /BaseFont /Helvetica >>".into()),
    ];
    let mut movable: Vec<(u32, String)> = vec![
        (3, format!("<< /Type /Page /Parent 2 0 R /MediaBox [0 0 612 792] /Resources << >> /Annots [{}] >>", refs)),
        (5, format!("<< /Fields [{}] /DA (/Helv 12 Tf 0 g) /DR << /Font << /Helv 8 0 R >> >> >>", refs)),
    ];
    for (i, name) in names.iter().enumerate() {
        let y = 700 - 40 * i as i32;
        movable.push((10 + i as u32, format!("<< /Type /Annot /Subtype /Widget /FT /Tx /T ({}) /Rect [100 {} 300 {}] /P 3 0 R /DA (/Helv 12 Tf 0 g) >>", name, y, y + 20)));
    }
    let mut entries: BTreeMap<u32, Entry> = BTreeMap::new();
    entries.insert(0, Entry::Free { next: 0, gen: 65535 });
    if !in_stm {
        direct.append(&mut movable);
    }
    for (n, body) in &direct {
        let off = b.put_obj(*n, 0, body.as_bytes());
        entries.insert(*n, Entry::InUse { off, gen: 0 });
    }
    if in_stm {
        let c = 20u32;
        let mut head = String::new();
        let mut bodies = String::new();
        for (i, (n, body)) in movable.iter().enumerate() {
            head.push_str(&format!("{} {} ", n, bodies.len()));
            bodies.push_str(body);
            bodies.push(' ');
            entries.insert(*n, Entry::Compressed { stm: c as u64, idx: i as u64 });
        }
        let data = format!("{}{}", head, bodies);
        let off = b.stream_obj(c, &format!("/Type /ObjStm /N {} /First {}", movable.len(), head.len()), data.as_bytes(), flate);
        entries.insert(c, Entry::InUse { off, gen: 0 });
    }
    b.next_aux_set(30);
    b.finish_revision(form, entries);
    b.buf
}

pub const CATALOG: &str = "<< /Type /Catalog /Pages 2 0 R >>";
pub const PAGES: &str = "<< /Type /Pages /Kids [] /Count 0 >>";

/// Build the whole file for a history (revision 0 also carries catalog 1 and page tree 2).
pub fn build(revs: &[RevSpec], aux_base: u32) -> Builder {
    let mut b = Builder::new(aux_base);
    for (i, r) in revs.iter().enumerate() {
        if i == 0 {
            b.add_revision(r, &[(1, CATALOG.to_string()), (2, PAGES.to_string())]);
        } else {
            b.add_revision(r, &[]);
        }
    }
    b
}
