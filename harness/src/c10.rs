//! C10 — text given through the API reads back unchanged.
//! api: Unicode strings x text-bearing entry points (six Info fields, outline /Title, annotation
//!      /Contents, TextField/ComboBox value, Document::fill_field, IncrementalFormFiller on a
//!      library-written /Tx field and on a raw /Ch field).  For every case the bytes of the
//!      string object are cut out of the written file (compared with the Gallina emitters, read
//!      by the ISO-shaped Gallina reader) and the library's own reader is asked for the text.
//! dec: byte strings (payloads of foreign producers: BOM + UTF-16BE incl. malformed, Latin-1
//!      "þÿ"-like prefixes, odd lengths) through PdfString::to_text vs the Gallina decode_text.
use crate::util::*;
use oxidize_pdf::annotations::{Annotation, AnnotationType};
use oxidize_pdf::forms::{ComboBox, FormManager, TextField, Widget, WidgetAppearance};
use oxidize_pdf::geometry::{Point, Rectangle};
use oxidize_pdf::parser::objects::{PdfDictionary, PdfObject, PdfString};
use oxidize_pdf::parser::PdfReader;
use oxidize_pdf::structure::{OutlineItem, OutlineTree};
use oxidize_pdf::writer::{IncrementalFormFiller, WriterConfig};
use oxidize_pdf::{Document, Page};
use serde_json::{json, Value};
use std::io::Cursor;
use std::panic::AssertUnwindSafe;

pub const ENTRIES: [&str; 13] = [
    "info-title", "info-author", "info-subject", "info-keywords", "info-creator", "info-producer",
    "outline-title", "annot-contents", "textfield-value", "combobox-value", "fill_field",
    "incr-fill-tx", "incr-fill-ch",
];
const INFO_KEYS: [&str; 6] = ["Title", "Author", "Subject", "Keywords", "Creator", "Producer"];

/// kind as understood by C10.Model.expected
fn kind_of(entry: usize) -> u64 {
    match entry {
        0..=9 => 0,
        10 => 3,
        11 => 2,
        _ => 1,
    }
}

fn config(cfg: u64) -> WriterConfig {
    WriterConfig { use_xref_streams: cfg & 1 == 1, use_object_streams: false, compress_streams: cfg & 2 == 0, ..WriterConfig::default() }
}

// ------------------------------------------------------------------ cutting the token out of the file
/// the string token starting at `p` (a '(' or '<'), raw bytes including the delimiters
fn token_at(b: &[u8], p: usize) -> Option<&[u8]> {
    match b.get(p)? {
        b'(' => {
            let mut depth = 0usize;
            let mut i = p + 1;
            while i < b.len() {
                match b[i] {
                    b'\\' => i += 1,
                    b'(' => depth += 1,
                    b')' => {
                        if depth == 0 {
                            return Some(&b[p..=i]);
                        }
                        depth -= 1;
                    }
                    _ => {}
                }
                i += 1;
            }
            None
        }
        b'<' if b.get(p + 1) != Some(&b'<') => {
            let e = b[p..].iter().position(|c| *c == b'>')?;
            Some(&b[p..=p + e])
        }
        _ => None,
    }
}

/// all string tokens that are the value of `/key` in `b`
fn tokens_of_key<'a>(b: &'a [u8], key: &str) -> Vec<&'a [u8]> {
    let pat = format!("/{} ", key).into_bytes();
    let mut v = vec![];
    let mut i = 0;
    while i + pat.len() <= b.len() {
        if b[i..].starts_with(&pat) {
            if let Some(t) = token_at(b, i + pat.len()) {
                v.push(t);
                i += pat.len() + t.len();
                continue;
            }
        }
        i += 1;
    }
    v
}

fn only_token(b: &[u8], key: &str) -> Vec<u8> {
    let v = tokens_of_key(b, key);
    if v.len() == 1 {
        v[0].to_vec()
    } else {
        format!("!{}-tokens-for-{}", v.len(), key).into_bytes()
    }
}

// ------------------------------------------------------------------ the library's reader
fn deref(rd: &mut PdfReader<Cursor<Vec<u8>>>, o: &PdfObject) -> Option<PdfObject> {
    match o {
        PdfObject::Reference(n, g) => rd.get_object(*n, *g).ok().cloned(),
        other => Some(other.clone()),
    }
}
fn dict_of(rd: &mut PdfReader<Cursor<Vec<u8>>>, o: &PdfObject) -> Option<PdfDictionary> {
    deref(rd, o)?.as_dict().cloned()
}
fn text_of(d: &PdfDictionary, key: &str) -> Option<String> {
    d.get(key)?.as_string().map(|s| s.to_text())
}

fn read_back(bytes: &[u8], entry: usize) -> Option<String> {
    let b = bytes.to_vec();
    catch(AssertUnwindSafe(move || {
        let mut rd = PdfReader::new(Cursor::new(b)).ok()?;
        match entry {
            0..=5 => {
                let m = match rd.metadata() {
                    Ok(m) => m,
                    Err(e) => {
                        if std::env::var("OXH_DEBUG").is_ok() {
                            eprintln!("metadata error: {e}");
                        }
                        return None;
                    }
                };
                match entry {
                    0 => m.title,
                    1 => m.author,
                    2 => m.subject,
                    3 => m.keywords,
                    4 => m.creator,
                    _ => m.producer,
                }
            }
            6 => {
                let cat = rd.catalog().ok()?.clone();
                let root = dict_of(&mut rd, cat.get("Outlines")?)?;
                let first = dict_of(&mut rd, root.get("First")?)?;
                text_of(&first, "Title")
            }
            7 => {
                let pages = rd.pages().ok()?.clone();
                let kids = deref(&mut rd, pages.get("Kids")?)?;
                let page = dict_of(&mut rd, kids.as_array()?.0.first()?)?;
                let annots = deref(&mut rd, page.get("Annots")?)?;
                for a in annots.as_array()?.0.clone().iter() {
                    let d = dict_of(&mut rd, a)?;
                    if d.get("Contents").is_some() {
                        return text_of(&d, "Contents");
                    }
                }
                None
            }
            _ => {
                let cat = rd.catalog().ok()?.clone();
                let acro = dict_of(&mut rd, cat.get("AcroForm")?)?;
                let fields = deref(&mut rd, acro.get("Fields")?)?;
                let f = dict_of(&mut rd, fields.as_array()?.0.first()?)?;
                text_of(&f, "V")
            }
        }
    }))
    .ok()
    .flatten()
}

// ------------------------------------------------------------------ the writers
fn rect() -> Rectangle {
    Rectangle::new(Point::new(100.0, 700.0), Point::new(300.0, 720.0))
}

fn form_doc(value: Option<&str>, combo: bool) -> Option<Document> {
    let mut doc = Document::new();
    let mut page = Page::a4();
    let mut fm = FormManager::new();
    let widget = Widget::new(rect()).with_appearance(WidgetAppearance::default());
    let field_ref = if combo {
        let mut c = ComboBox::new("f");
        if let Some(v) = value {
            c = c.with_value(v);
        }
        fm.add_combo_box(c, widget.clone(), None).ok()?
    } else {
        let mut t = TextField::new("f");
        if let Some(v) = value {
            t = t.with_value(v);
        }
        fm.add_text_field(t, widget.clone(), None).ok()?
    };
    page.add_form_widget_with_ref(widget, field_ref).ok()?;
    doc.add_page(page);
    doc.set_form_manager(fm);
    Some(doc)
}

/// raw one-page PDF with a choice field (object 4), /AcroForm indirect (object 5)
fn raw_choice_base() -> Vec<u8> {
    let objs: [&str; 5] = [
        "<< /Type /Catalog /Pages 2 0 R /AcroForm 5 0 R >>",
        "<< /Type /Pages /Kids [3 0 R] /Count 1 >>",
        "<< /Type /Page /Parent 2 0 R /MediaBox [0 0 612 792] /Annots [4 0 R] >>",
        "<< /Type /Annot /Subtype /Widget /FT /Ch /Ff 131072 /Rect [100 100 300 130] /P 3 0 R /T (f) /Opt [(a) (b)] >>",
        "<< /Fields [4 0 R] >>",
    ];
    let mut pdf = b"%PDF-1.7\n".to_vec();
    let mut offs = vec![];
    for (i, o) in objs.iter().enumerate() {
        offs.push(pdf.len());
        pdf.extend_from_slice(format!("{} 0 obj\n{}\nendobj\n", i + 1, o).as_bytes());
    }
    let x = pdf.len();
    pdf.extend_from_slice(format!("xref\n0 {}\n0000000000 65535 f \n", objs.len() + 1).as_bytes());
    for o in offs {
        pdf.extend_from_slice(format!("{:010} 00000 n \n", o).as_bytes());
    }
    pdf.extend_from_slice(format!("trailer\n<< /Size {} /Root 1 0 R >>\nstartxref\n{}\n%%EOF\n", objs.len() + 1, x).as_bytes());
    pdf
}

pub struct Outcome {
    pub written: Option<Vec<u8>>, // None = the API call refused
    pub readback: Option<String>,
    pub note: String,
}

pub fn run_case(entry: usize, cfg: u64, text: &str) -> Outcome {
    let t = text.to_string();
    let r = catch(AssertUnwindSafe(move || -> Result<(Vec<u8>, Vec<u8>), String> {
        // returns (whole file, region in which the token is looked for)
        let wr = |doc: &mut Document| doc.to_bytes_with_config(config(cfg)).map_err(|e| format!("write: {e}"));
        match entry {
            0..=5 => {
                let mut doc = Document::new();
                doc.add_page(Page::a4());
                match entry {
                    0 => doc.set_title(t.as_str()),
                    1 => doc.set_author(t.as_str()),
                    2 => doc.set_subject(t.as_str()),
                    3 => doc.set_keywords(t.as_str()),
                    4 => doc.set_creator(t.as_str()),
                    _ => doc.set_producer(t.as_str()),
                }
                let b = wr(&mut doc)?;
                Ok((b.clone(), b))
            }
            6 => {
                let mut doc = Document::new();
                doc.add_page(Page::a4());
                let mut tree = OutlineTree::new();
                tree.add_item(OutlineItem::new(t.as_str()));
                doc.set_outline(tree);
                let b = wr(&mut doc)?;
                Ok((b.clone(), b))
            }
            7 => {
                let mut doc = Document::new();
                let mut page = Page::a4();
                page.add_annotation(Annotation::new(AnnotationType::Text, rect()).with_contents(t.as_str()));
                doc.add_page(page);
                let b = wr(&mut doc)?;
                Ok((b.clone(), b))
            }
            8 | 9 => {
                let mut doc = form_doc(Some(t.as_str()), entry == 9).ok_or("form setup")?;
                let b = wr(&mut doc)?;
                Ok((b.clone(), b))
            }
            10 => {
                let mut doc = form_doc(None, false).ok_or("form setup")?;
                doc.fill_field("f", t.as_str()).map_err(|e| format!("refused: {e}"))?;
                let b = wr(&mut doc)?;
                Ok((b.clone(), b))
            }
            11 | 12 => {
                let base = if entry == 11 {
                    let mut doc = form_doc(None, false).ok_or("form setup")?;
                    wr(&mut doc)?
                } else {
                    raw_choice_base()
                };
                let filled = IncrementalFormFiller::new(&base).fill("f", t.as_str()).map_err(|e| format!("refused: {e}"))?;
                if !filled.starts_with(&base) {
                    return Err("fill is not an append".into());
                }
                let tail = filled[base.len()..].to_vec();
                Ok((filled, tail))
            }
            _ => Err("unknown entry".into()),
        }
    }));
    match r {
        Err(p) => Outcome { written: Some(format!("!panic {p}").into_bytes()), readback: None, note: format!("panic: {p}") },
        Ok(Err(e)) if e.starts_with("refused") => Outcome { written: None, readback: None, note: e },
        Ok(Err(e)) => Outcome { written: Some(format!("!error {e}").into_bytes()), readback: None, note: e },
        Ok(Ok((file, region))) => {
            let key = match entry {
                0..=5 => INFO_KEYS[entry],
                6 => "Title",
                7 => "Contents",
                _ => "V",
            };
            let written = only_token(&region, key);
            let readback = read_back(&file, entry);
            Outcome { written: Some(written), readback, note: String::new() }
        }
    }
}

// ------------------------------------------------------------------ generators
fn fixed_texts() -> Vec<(&'static str, String)> {
    let mut v: Vec<(&'static str, String)> = vec![];
    let mut add = |c: &'static str, s: &str| v.push((c, s.to_string()));
    add("empty", "");
    for s in ["A", "Hello, World!", "~ {|} `^_"] {
        add("ascii", s);
    }
    for s in ["(", ")", "\\", "a(b)c\\", "((", "))", ")(", "\\)", "\\\\(", "foo) /Evil (true", "a\\051b", "\\n", "(\\"] {
        add("delims", s);
    }
    for s in ["\t", "\n", "a\tb\nc", "\n\n"] {
        add("tab-lf", s);
    }
    for s in ["\r", "\r\n", "a\rb", "a\r\nb", "\n\r", "x\r"] {
        add("cr", s);
    }
    for s in ["\0", "a\0b", "\u{1}", "\u{8}", "\u{c}", "\u{18}", "\u{1b}", "\u{1f}", "\u{7f}", "a\u{7f}"] {
        add("controls", s);
    }
    for s in ["ñ", "Año", "café", "þÿ", "þÿA", "þ", "ÿþ", "\u{a0}", "\u{ad}", "Ü\u{80}\u{9f}", "¡¿"] {
        add("latin1", s);
    }
    for s in ["€", "Año ✓", "日本語のタイトル", "Тема", "\u{feff}", "\u{feff}x", "x\u{feff}", "\u{2028}", "\u{5c5c}", "\u{0d0a}", "\u{0a0d}", "\u{2829}",
              "č", "\u{d7ff}", "\u{e000}", "\u{ffff}", "\u{fffd}", "\u{fffe}", "–—“”", "\u{2022}\u{2020}"] {
        add("bmp", s);
    }
    for s in ["😀", "a😀b", "\u{10000}", "\u{10ffff}", "\u{1f600}\u{1f601}", "𝔘𝔫𝔦"] {
        add("astral", s);
    }
    add("mixed", "Año ✓ 😀 (x)\\\r\n\0");
    add("long", &"Very Long Title (1) \\ ".repeat(14));
    add("long", &"長いタイトル😀é\r".repeat(24));
    v
}

fn random_text(rng: &mut Rng) -> (&'static str, String) {
    let class = rng.below(7);
    let len = match rng.below(10) {
        0 => rng.range(40, 120),
        _ => rng.range(1, 16),
    } as usize;
    let mut s = String::new();
    for _ in 0..len {
        let pool = if class == 6 { rng.below(6) } else { class };
        let c = match pool {
            0 => rng.range(0x20, 0x7e) as u32,
            1 => *rng.pick(&[0x28u32, 0x29, 0x5c, 0x28, 0x29, 0x5c, 0x41, 0x6e, 0x30]),
            2 => *rng.pick(&[0u32, 1, 8, 9, 10, 12, 13, 13, 10, 0x18, 0x1b, 0x1f, 0x7f, 0x41]),
            3 => rng.range(0x80, 0xff) as u32,
            4 => loop {
                let c = rng.range(0x100, 0xffff) as u32;
                if !(0xd800..=0xdfff).contains(&c) {
                    break c;
                }
            },
            _ => rng.range(0x10000, 0x10ffff) as u32,
        };
        s.push(char::from_u32(c).unwrap_or('?'));
    }
    (["r-ascii", "r-delims", "r-controls", "r-latin1", "r-bmp", "r-astral", "r-mixed"][class as usize], s)
}


// ------------------------------------------------------------------ long texts: block boundaries
/// block sizes a buffered encoder/decoder might plausibly use (UTF-16 code units / bytes)
const BLOCKS: [usize; 8] = [64, 128, 255, 256, 257, 512, 1000, 1024];
/// a case is kept under 9 KB of Coq literal text (Coq parses big literals slowly)
const MAX_CASE: usize = 9000;

fn rep(c: char, n: usize) -> String {
    std::iter::repeat(c).take(n).collect()
}

/// long texts for the api channel: an astral character (surrogate pair) whose HIGH half is UTF-16
/// code unit k, for every k in a window around every block size (so the pair straddles the
/// boundary when k = B-1), with an ASCII or a Latin-1 filler; texts made of astral characters only
/// (every even / every odd boundary is straddled at once); long plain texts with the three
/// delimiters around the boundary (literal-string path).
fn long_api_texts(rng: &mut Rng, thorough: bool) -> Vec<(&'static str, String)> {
    let mut v: Vec<(&'static str, String)> = vec![];
    let w = if thorough { 8 } else { 3 };
    for &b in BLOCKS.iter().filter(|b| **b <= 512) {
        for k in b.saturating_sub(w)..=b + w - 1 {
            let filler = if b <= 257 && k % 2 == 0 { 'é' } else { 'a' };
            v.push(("long-astral-at-k", format!("{}\u{1f600} t", rep(filler, k))));
        }
        // pairs at two boundaries of the same block size at once, and a lone-looking BMP neighbour
        if 2 * b <= 520 {
            v.push(("long-astral-at-k", format!("{}\u{1f600}{}\u{10ffff}\u{ffff}", rep('a', b - 1), rep('a', b - 2))));
        }
        for k in [b - 1, b] {
            v.push(("long-plain-delims", format!("{}(\\){}", rep('a', k), rep('b', 3))));
        }
    }
    for n in [150usize, 260] {
        v.push(("long-astral-dense", rep('\u{1f600}', n)));                         // pairs at units (0,1),(2,3),…
        v.push(("long-astral-dense", format!("\u{e9}{}", rep('\u{10000}', n))));    // pairs at units (1,2),(3,4),…
    }
    for &n in &[1000usize, 1024, 1100] {
        v.push(("long-plain", rep('x', n)));
        v.push(("long-plain-delims", format!("{}({}", rep('a', n - 1), "\\")));
    }
    for &b in &[255usize, 256, 257, 512] {
        // BMP-only non-plain text around the boundary (UTF-16 path without surrogates)
        v.push(("long-bmp", format!("{}\u{20ac}\u{d7ff}\u{e000}", rep('é', b - 1))));
    }
    let n_random = if thorough { 40 } else { 6 };
    for _ in 0..n_random {
        // random long mixed text, 300..520 units, astral characters sprinkled at random offsets
        let target = rng.range(300, 520) as usize;
        let mut t = String::new();
        let mut units = 0;
        while units < target {
            let c = match rng.below(8) {
                0 | 1 => char::from_u32(rng.range(0x10000, 0x10ffff) as u32).unwrap(),
                2 => 'é',
                3 => char::from_u32(rng.range(0x100, 0xd7ff) as u32).unwrap(),
                _ => char::from_u32(rng.range(0x20, 0x7e) as u32).unwrap(),
            };
            units += c.len_utf16();
            t.push(c);
        }
        v.push(("long-random", t));
    }
    v
}

fn units_payload(units: &[u16]) -> Vec<u8> {
    let mut v = vec![0xfe, 0xff];
    for u in units {
        v.extend_from_slice(&u.to_be_bytes());
    }
    v
}

/// long payloads for the dec channel (BOM + UTF-16BE and single-byte), same idea, all block sizes
fn long_dec_payloads(rng: &mut Rng, thorough: bool) -> Vec<(&'static str, Vec<u8>)> {
    let mut v: Vec<(&'static str, Vec<u8>)> = vec![];
    let w = if thorough { 8 } else { 3 };
    let a = 0x61u16;
    for &b in BLOCKS.iter().chain([768usize].iter()) {
        for k in b.saturating_sub(w)..=b + w - 1 {
            // surrogate pair with its high half at code unit k
            let mut u = vec![a; k];
            u.extend_from_slice(&[0xd83d, 0xde00, 0x7a]);
            v.push(("long-utf16-pair-at-k", units_payload(&u)));
        }
        // lone surrogates at the block end / start: must stay U+FFFD exactly as the model says
        for pat in [vec![0xd83du16, a], vec![0xde00, a], vec![0xd83d, 0xd83d, 0xde00], vec![0xde00, 0xd83d], vec![0xd83d]] {
            for k in [b - 1, b] {
                let mut u = vec![a; k];
                u.extend_from_slice(&pat);
                v.push(("long-utf16-lone-at-k", units_payload(&u)));
            }
        }
        // odd trailing byte after a pair that ends exactly at the boundary
        let mut u = vec![a; b - 2];
        u.extend_from_slice(&[0xdbff, 0xdfff]);
        let mut p = units_payload(&u);
        p.push(0x41);
        v.push(("long-utf16-odd-tail", p));
        // single-byte path: distinctive bytes around byte offset b; FE FF in the middle is not a BOM
        for k in [b - 1, b] {
            let mut p = vec![b'a'; k];
            p.extend_from_slice(&[0xe9, 0x80, 0xfe, 0xff, 0x28, 0x5c, 0x29, 0x0d, 0x0a, b'z']);
            v.push(("long-singlebyte-at-k", p));
        }
    }
    // astral only: every even / every odd boundary straddled, up to 1100 units
    for n in [275usize, 550] {
        v.push(("long-utf16-dense", units_payload(&[0xd83du16, 0xde00].repeat(n))));
        let mut u = vec![0xe9u16];
        u.extend_from_slice(&[0xd800u16, 0xdc00].repeat(n - 1));
        v.push(("long-utf16-dense", units_payload(&u)));
    }
    // every byte value, cyclically, 1100 bytes, starting at two different phases
    for phase in [0x20usize, 0xa1] {
        let p: Vec<u8> = (0..1100).map(|i| (0x20 + (phase - 0x20 + i) % 0xe0) as u8).collect();
        v.push(("long-singlebyte-cycle", p));
    }
    let n_random = if thorough { 60 } else { 8 };
    for _ in 0..n_random {
        let n = rng.range(300, 1000) as usize;
        let mut u: Vec<u16> = Vec::with_capacity(n);
        while u.len() < n {
            match rng.below(10) {
                0 | 1 => u.extend_from_slice(&[rng.range(0xd800, 0xdbff) as u16, rng.range(0xdc00, 0xdfff) as u16]),
                2 => u.push(rng.range(0xd800, 0xdfff) as u16),
                3 => u.push(rng.range(0x80, 0xffff) as u16),
                _ => u.push(rng.range(0x20, 0x7e) as u16),
            }
        }
        v.push(("long-utf16-random", units_payload(&u)));
    }
    v
}

fn push_api(out: &mut Out, class: &str, entry: usize, cfg: u64, text: &str) {
    let o = run_case(entry, cfg, text);
    let coq = format!(
        "({}, {}, {}, {})",
        kind_of(entry),
        coq_bytes(text.as_bytes()),
        coq_opt(o.written.as_ref().map(|w| coq_bytes(w))),
        coq_opt(o.readback.as_ref().map(|r| coq_bytes(r.as_bytes())))
    );
    let js = json!({"entry": ENTRIES[entry], "cfg": cfg, "text_hex": hex(text.as_bytes()), "text": text,
                    "written_hex": o.written.as_ref().map(|w| hex(w)), "readback": o.readback, "note": o.note, "class": class});
    let nontrivial = !text.bytes().all(|b| matches!(b, 0x09 | 0x0a | 0x20..=0x7e)) || text.contains(['(', ')', '\\']);
    if coq.len() > MAX_CASE && class.starts_with("long") {
        eprintln!("c10: case of {} characters skipped ({} {})", coq.len(), ENTRIES[entry], class);
        out.count("skipped-too-large");
        return;
    }
    out.push(coq, js, &format!("{}/{}", ENTRIES[entry], class), nontrivial);
    if o.written.is_none() {
        out.count("refused");
    }
}

fn push_dec(out: &mut Out, class: &str, payload: &[u8]) {
    let p = payload.to_vec();
    let r = catch(AssertUnwindSafe(move || PdfString::new(p).to_text()));
    let coq = format!("({}, {})", coq_bytes(payload), coq_opt(r.as_ref().ok().map(|t| coq_bytes(t.as_bytes()))));
    let js = json!({"payload_hex": hex(payload), "decoded": r.as_ref().ok(), "class": class});
    out.push(coq, js, class, payload.len() >= 2);
}

fn utf16be(s: &str) -> Vec<u8> {
    let mut v = vec![0xfe, 0xff];
    for u in s.encode_utf16() {
        v.extend_from_slice(&u.to_be_bytes());
    }
    v
}

pub fn run(ctx: &Ctx) {
    let header = "From OxVerif Require Import Base.Util C10.Spec C10.Model.";
    let replay = ctx.replay_cases();
    // ---------------------------------------------------------------- api
    let mut out = Out::new(ctx, header, "c10_case", "case_code");
    out.shard_size = 120;
    if let Some(cases) = &replay {
        for c in cases.iter().filter(|c| c.get("payload_hex").is_none()) {
            let entry = c["entry"].as_str().and_then(|e| ENTRIES.iter().position(|x| *x == e)).unwrap_or(0);
            let text = String::from_utf8(unhex(c["text_hex"].as_str().unwrap_or(""))).unwrap_or_default();
            push_api(&mut out, c["class"].as_str().unwrap_or("replay"), entry, c["cfg"].as_u64().unwrap_or(0), &text);
        }
    } else {
        let mut rng = Rng::new(ctx.seed);
        let mut texts = fixed_texts();
        let n_random = if ctx.thorough() { 260 } else { 45 };
        for _ in 0..n_random {
            texts.push(random_text(&mut rng));
        }
        for (k, (class, text)) in texts.iter().enumerate() {
            for entry in 0..ENTRIES.len() {
                // configurations rotate over texts and entries: 0 classic, 1 xref stream, 2 classic with
                // uncompressed streams (3 = xref stream + uncompressed is a file the library cannot
                // re-open properly: C02/C03's business, not used here)
                let cfg = ((k + entry) as u64 + ctx.seed) % 3;
                push_api(&mut out, class, entry, cfg, text);
            }
        }
    }
    out.finish("api");

    // ---------------------------------------------------------------- apilong (small shards: big literals)
    if replay.is_none() {
        let mut out = Out::new(ctx, header, "c10_case", "case_code");
        out.shard_size = 12;
        let mut rng = Rng::new(ctx.seed ^ 0x10e6);
        // entry points that never refuse: the ten whole-document ones in rotation, plus the filler on /Ch
        for (i, (class, text)) in long_api_texts(&mut rng, ctx.thorough()).iter().enumerate() {
            let e1 = (i + ctx.seed as usize) % 10;
            let cfg = (i as u64 + ctx.seed) % 3;
            push_api(&mut out, class, e1, cfg, text);
            push_api(&mut out, class, 12, cfg, text);
            if i % 7 == 0 {
                push_api(&mut out, class, 0, 0, text); // PdfReader::metadata explicitly
            }
        }
        out.finish("apilong");
    }

    // ---------------------------------------------------------------- dec
    let mut out = Out::new(ctx, header, "bytes * option bytes", "dec_code");
    out.shard_size = 400;
    if let Some(cases) = &replay {
        for c in cases.iter().filter(|c| c.get("payload_hex").is_some()) {
            push_dec(&mut out, c["class"].as_str().unwrap_or("replay"), &unhex(c["payload_hex"].as_str().unwrap_or("")));
        }
    } else {
        let mut rng = Rng::new(ctx.seed ^ 0xdec);
        // every first byte with a few continuations: the BOM test must look at both bytes
        for a in 0..=255u8 {
            push_dec(&mut out, "one-byte", &[a]);
            for b in [0x00u8, 0x41, 0xfe, 0xff] {
                push_dec(&mut out, "two-bytes", &[a, b]);
                push_dec(&mut out, "three-bytes", &[a, b, 0x42]);
            }
        }
        push_dec(&mut out, "empty", &[]);
        for (_, t) in fixed_texts() {
            push_dec(&mut out, "utf16-wellformed", &utf16be(&t));
            let mut odd = utf16be(&t);
            odd.push(0x41);
            push_dec(&mut out, "utf16-odd-tail", &odd);
        }
        // malformed UTF-16: lone and swapped surrogates
        for units in [vec![0xd800u16], vec![0xdc00], vec![0xd800, 0x41], vec![0x41, 0xdc00, 0x42], vec![0xdc00, 0xd800], vec![0xd800, 0xd800, 0xdc00],
                      vec![0xdbff, 0xdfff], vec![0xd800, 0xdc00, 0xdc00], vec![0xfeff, 0x41], vec![0xfffe]] {
            let mut v = vec![0xfe, 0xff];
            for u in units {
                v.extend_from_slice(&u.to_be_bytes());
            }
            push_dec(&mut out, "utf16-malformed", &v);
        }
        let n = if ctx.thorough() { 3000 } else { 500 };
        for _ in 0..n {
            let len = rng.range(0, 12) as usize;
            let mut v = rng.bytes(len);
            match rng.below(4) {
                0 => {
                    v.insert(0, 0xff);
                    v.insert(0, 0xfe);
                }
                1 => v.insert(0, 0xfe),
                _ => {}
            }
            // surrogate-rich units
            if rng.chance(1, 3) {
                for i in (2..v.len()).step_by(2) {
                    if rng.chance(1, 2) {
                        v[i] = *rng.pick(&[0xd8u8, 0xdb, 0xdc, 0xdf]);
                    }
                }
            }
            push_dec(&mut out, "random", &v);
        }
    }
    out.finish("dec");

    // ---------------------------------------------------------------- declong
    if replay.is_none() {
        let mut out = Out::new(ctx, header, "bytes * option bytes", "dec_code");
        out.shard_size = 16;
        let mut rng = Rng::new(ctx.seed ^ 0xdec10e6);
        for (class, p) in long_dec_payloads(&mut rng, ctx.thorough()) {
            push_dec(&mut out, class, &p);
        }
        out.finish("declong");
    }
}
