//! C28 — outlines written by the library vs the Gallina emission model and the §12.3.3 navigability checker.
use crate::util::*;
use oxidize_pdf::parser::objects::{PdfDictionary, PdfObject};
use oxidize_pdf::parser::PdfReader;
use oxidize_pdf::structure::{Destination, NamedDestinations, OutlineItem, OutlineTree, PageDestination};
use oxidize_pdf::writer::WriterConfig;
use oxidize_pdf::{Document, Page};
use serde_json::{json, Value};

#[derive(Clone, Debug)]
struct Item {
    label: u64,
    open: bool,
    page: Option<u32>,
    children: Vec<Item>,
}

fn gen_forest(r: &mut Rng, depth: u32, maxw: u64, next: &mut u64, npages: u32) -> Vec<Item> {
    let n = if depth == 0 { 0 } else { r.range(if depth >= 3 { 1 } else { 0 }, maxw) };
    (0..n)
        .map(|_| {
            *next += 1;
            let label = *next;
            let children = if r.chance(3, 5) { gen_forest(r, depth - 1, maxw, next, npages) } else { vec![] };
            Item { label, open: r.chance(1, 2), page: if r.chance(3, 4) { Some(r.below(npages as u64) as u32) } else { None }, children }
        })
        .collect()
}

fn item_json(i: &Item) -> Value {
    json!({"l": i.label, "o": i.open, "p": i.page, "c": i.children.iter().map(item_json).collect::<Vec<_>>()})
}
fn item_from(v: &Value) -> Item {
    Item {
        label: v["l"].as_u64().unwrap(),
        open: v["o"].as_bool().unwrap(),
        page: v["p"].as_u64().map(|x| x as u32),
        children: v["c"].as_array().unwrap().iter().map(item_from).collect(),
    }
}
fn item_coq(i: &Item) -> String {
    format!("Item {} {} {}", i.label, coq_bool(i.open), coq_list(i.children.iter().map(|c| format!("({})", item_coq(c)))))
}
fn to_outline(i: &Item) -> OutlineItem {
    let mut o = OutlineItem::new(format!("L{}", i.label));
    if let Some(p) = i.page {
        o = o.with_destination(Destination::fit(PageDestination::PageNumber(p)));
    }
    if !i.open {
        o = o.closed();
    }
    for c in &i.children {
        o.add_child(to_outline(c));
    }
    o
}
fn count(i: &[Item]) -> usize {
    i.iter().map(|x| 1 + count(&x.children)).sum()
}

fn refnum(d: &PdfDictionary, k: &str) -> Result<Option<u64>, String> {
    match d.get(k) {
        None => Ok(None),
        Some(PdfObject::Reference(n, _)) => Ok(Some(*n as u64)),
        Some(o) => Err(format!("/{k} is not a reference: {o:?}")),
    }
}

struct Written {
    root: u64,
    first: Option<u64>,
    last: Option<u64>,
    count: i64,
    recs: Vec<String>, // Coq records
    dests: Vec<(u64, String)>, // label, Coq wdest term
}

fn write_and_read(forest: &[Item], npages: u32, cfg: u64) -> Result<Written, String> {
    let mut doc = Document::new();
    for _ in 0..npages {
        doc.add_page(Page::a4());
    }
    let mut tree = OutlineTree::new();
    for i in forest {
        tree.add_item(to_outline(i));
    }
    doc.set_outline(tree);
    let config = WriterConfig {
        use_xref_streams: cfg & 1 == 1,
        use_object_streams: cfg & 2 == 2,
        compress_streams: true,
        ..WriterConfig::default()
    };
    let bytes = doc.to_bytes_with_config(config).map_err(|e| format!("write: {e:?}"))?;
    let mut rd = PdfReader::new(std::io::Cursor::new(bytes)).map_err(|e| format!("reopen: {e:?}"))?;
    let size = rd.trailer().size().map_err(|e| format!("{e:?}"))? as u64;
    let cat = rd.catalog().map_err(|e| format!("catalog: {e:?}"))?.clone();
    let root = match cat.get("Outlines") {
        Some(PdfObject::Reference(n, _)) => *n as u64,
        None if forest.is_empty() => {
            return Ok(Written { root: 0, first: None, last: None, count: 0, recs: vec![], dests: vec![] });
        }
        o => return Err(format!("/Outlines missing or not a reference: {o:?}")),
    };
    let rootd = match rd.get_object(root as u32, 0).map_err(|e| format!("{e:?}"))? {
        PdfObject::Dictionary(d) => d.clone(),
        o => return Err(format!("outline root is not a dictionary: {o:?}")),
    };
    let first = refnum(&rootd, "First")?;
    let last = refnum(&rootd, "Last")?;
    let cnt = match rootd.get("Count") {
        Some(PdfObject::Integer(i)) => *i,
        None => 0,
        o => return Err(format!("root /Count: {o:?}")),
    };
    // page object numbers in document order (the library writes a flat /Kids array)
    let mut page_objs: Vec<u64> = vec![];
    if let Some(PdfObject::Reference(pn, _)) = cat.get("Pages") {
        if let Ok(PdfObject::Dictionary(pd)) = rd.get_object(*pn, 0) {
            if let Some(PdfObject::Array(k)) = pd.get("Kids") {
                for i in 0..k.len() {
                    if let Some(PdfObject::Reference(n, _)) = k.get(i) {
                        page_objs.push(*n as u64);
                    }
                }
            }
        }
    }
    // collect every outline item dictionary of the file by scanning all objects (not by following links)
    let mut recs = vec![];
    let mut dests = vec![];
    for n in 1..size.min(64 + 8 * (count(forest) as u64 + npages as u64)) {
        if n == root {
            continue;
        }
        let d = match rd.get_object(n as u32, 0) {
            Ok(PdfObject::Dictionary(d)) => d.clone(),
            _ => continue,
        };
        let (title, _parent) = match (d.get("Title"), d.get("Parent")) {
            (Some(PdfObject::String(s)), Some(PdfObject::Reference(_, _))) => (s.as_bytes().to_vec(), ()),
            _ => continue,
        };
        let t = String::from_utf8_lossy(&title).to_string();
        let label: u64 = match t.strip_prefix('L').and_then(|x| x.parse().ok()) {
            Some(l) => l,
            None => continue,
        };
        let c = match d.get("Count") {
            Some(PdfObject::Integer(i)) => Some(*i),
            None => None,
            o => return Err(format!("item /Count: {o:?}")),
        };
        let o = |x: Option<u64>| coq_opt(x.map(|v| v.to_string()));
        recs.push(format!(
            "{{| r_id := {}; r_label := {}; r_parent := {}; r_prev := {}; r_next := {}; r_first := {}; r_last := {}; r_count := {} |}}",
            n,
            label,
            refnum(&d, "Parent")?.unwrap(),
            o(refnum(&d, "Prev")?),
            o(refnum(&d, "Next")?),
            o(refnum(&d, "First")?),
            o(refnum(&d, "Last")?),
            coq_opt(c.map(|v| coq_z(v as i128)))
        ));
        let dest = match d.get("Dest") {
            Some(PdfObject::Array(a)) => match a.get(0) {
                Some(PdfObject::Integer(i)) => format!("WInt {}", coq_z(*i as i128)),
                Some(PdfObject::Reference(n, _)) => format!(
                    "WRef {}",
                    coq_opt(page_objs.iter().position(|p| *p == *n as u64).map(|x| x.to_string()))
                ),
                _ => "WOther".to_string(),
            },
            None => "WNone".to_string(),
            _ => "WOther".to_string(),
        };
        dests.push((label, dest));
    }
    Ok(Written { root, first, last, count: cnt, recs, dests })
}

fn flat<'a>(f: &'a [Item], out: &mut Vec<&'a Item>) {
    for i in f {
        out.push(i);
        flat(&i.children, out);
    }
}

fn emit(out: &mut Out, dout: &mut Out, forest: &[Item], npages: u32, cfg: u64, class: &str) {
    let js = json!({"forest": forest.iter().map(item_json).collect::<Vec<_>>(), "npages": npages, "cfg": cfg});
    let w = match catch(std::panic::AssertUnwindSafe(|| write_and_read(forest, npages, cfg))) {
        Ok(Ok(w)) => w,
        Ok(Err(e)) => {
            out.impl_failures.push(json!({"what": e, "case": js}));
            return;
        }
        Err(p) => {
            out.impl_failures.push(json!({"what": format!("panic: {p}"), "case": js}));
            return;
        }
    };
    if forest.is_empty() {
        out.count("empty_forest_no_outlines_entry");
        return;
    }
    // every item resolves to the authored page: judged in Coq (channel dest)
    let mut all = vec![];
    flat(forest, &mut all);
    let dcoq = coq_list(all.iter().map(|it| {
        let w = w.dests.iter().find(|(l, _)| *l == it.label).map(|(_, d)| d.clone()).unwrap_or("WOther".into());
        format!("({}, {}, {})", it.label, coq_opt(it.page.map(|p| p.to_string())), w)
    }));
    dout.push(dcoq, js.clone(), class, all.iter().any(|i| i.page.is_some()));
    if w.recs.len() != all.len() {
        out.impl_failures.push(json!({"what": format!("{} outline item dictionaries written for {} authored items", w.recs.len(), all.len()), "case": js}));
    }
    let o = |x: Option<u64>| coq_opt(x.map(|v| v.to_string()));
    let coq = format!(
        "({}, {}, {}, {}, {}, {})",
        coq_list(forest.iter().map(|c| format!("({})", item_coq(c)))),
        w.root,
        o(w.first),
        o(w.last),
        coq_z(w.count as i128),
        coq_list(w.recs.iter().cloned())
    );
    // non-trivial: some non-last sibling has children (ids not contiguous among siblings) or a closed item has a closed child with children
    fn nonlast_with_children(f: &[Item]) -> bool {
        f.iter().enumerate().any(|(i, x)| (i + 1 < f.len() && !x.children.is_empty()) || nonlast_with_children(&x.children))
    }
    out.push(coq, js, class, nonlast_with_children(forest));
}

/// named destinations of one written copy: (name bytes, Coq wdest term)
fn read_names(bytes: Vec<u8>) -> Result<Vec<(Vec<u8>, String)>, String> {
    let mut rd = PdfReader::new(std::io::Cursor::new(bytes)).map_err(|e| format!("reopen: {e:?}"))?;
    let cat = rd.catalog().map_err(|e| format!("catalog: {e:?}"))?.clone();
    let mut page_objs: Vec<u64> = vec![];
    if let Some(PdfObject::Reference(pn, _)) = cat.get("Pages") {
        if let Ok(PdfObject::Dictionary(pd)) = rd.get_object(*pn, 0) {
            if let Some(PdfObject::Array(k)) = pd.get("Kids") {
                for i in 0..k.len() {
                    if let Some(PdfObject::Reference(n, _)) = k.get(i) {
                        page_objs.push(*n as u64);
                    }
                }
            }
        }
    }
    let names_ref = match cat.get("Names") {
        Some(PdfObject::Reference(n, _)) => *n,
        None => return Ok(vec![]),
        o => return Err(format!("/Names: {o:?}")),
    };
    let nd = match rd.get_object(names_ref, 0).map_err(|e| format!("{e:?}"))? {
        PdfObject::Dictionary(d) => d.clone(),
        o => return Err(format!("name dictionary: {o:?}")),
    };
    let dests_ref = match nd.get("Dests") {
        Some(PdfObject::Reference(n, _)) => *n,
        None => return Ok(vec![]),
        o => return Err(format!("/Dests: {o:?}")),
    };
    // walk the name tree (leaf /Names arrays, /Kids)
    let mut out = vec![];
    let mut todo = vec![dests_ref];
    let mut guard = 0;
    while let Some(n) = todo.pop() {
        guard += 1;
        if guard > 1000 {
            return Err("name tree too large or cyclic".into());
        }
        let d = match rd.get_object(n, 0).map_err(|e| format!("{e:?}"))? {
            PdfObject::Dictionary(d) => d.clone(),
            o => return Err(format!("name tree node: {o:?}")),
        };
        if let Some(PdfObject::Array(k)) = d.get("Kids") {
            for i in 0..k.len() {
                if let Some(PdfObject::Reference(c, _)) = k.get(i) {
                    todo.push(*c);
                }
            }
        }
        if let Some(PdfObject::Array(a)) = d.get("Names") {
            let mut i = 0;
            while i + 1 < a.len() {
                let name = match a.get(i) {
                    Some(PdfObject::String(s)) => s.as_bytes().to_vec(),
                    o => return Err(format!("name tree key: {o:?}")),
                };
                let w = match a.get(i + 1) {
                    Some(PdfObject::Array(d)) => match d.get(0) {
                        Some(PdfObject::Integer(x)) => format!("WInt {}", coq_z(*x as i128)),
                        Some(PdfObject::Reference(r, _)) => format!("WRef {}", coq_opt(page_objs.iter().position(|p| *p == *r as u64).map(|x| x.to_string()))),
                        _ => "WOther".to_string(),
                    },
                    _ => "WOther".to_string(),
                };
                out.push((name, w));
                i += 2;
            }
        }
    }
    Ok(out)
}

fn emit_names(out: &mut Out, names: &[(String, u32)], npages: u32, cfg: u64, copies: usize, class: &str) {
    let js = json!({"names": names.iter().map(|(n, p)| json!([n, p])).collect::<Vec<_>>(), "npages": npages, "cfg": cfg, "copies": copies});
    let res = catch(std::panic::AssertUnwindSafe(|| {
        let mut doc = Document::new();
        for _ in 0..npages {
            doc.add_page(Page::a4());
        }
        let mut nd = NamedDestinations::new();
        for (n, p) in names {
            nd.add_destination(n.clone(), Destination::fit(PageDestination::PageNumber(*p)).to_array());
        }
        doc.set_named_destinations(nd);
        let mut all = vec![];
        for _ in 0..copies {
            let config = WriterConfig { use_xref_streams: cfg & 1 == 1, ..WriterConfig::default() };
            let bytes = doc.to_bytes_with_config(config).map_err(|e| format!("write: {e:?}"))?;
            all.push(read_names(bytes)?);
        }
        Ok::<_, String>(all)
    }));
    let all = match res {
        Ok(Ok(a)) => a,
        Ok(Err(e)) => {
            out.impl_failures.push(json!({"what": e, "case": js}));
            return;
        }
        Err(p) => {
            out.impl_failures.push(json!({"what": format!("panic: {p}"), "case": js}));
            return;
        }
    };
    let coq = format!(
        "({}, {})",
        coq_list(names.iter().map(|(n, p)| format!("({}, {})", coq_bytes(n.as_bytes()), p))),
        coq_list(all.iter().map(|c| coq_list(c.iter().map(|(n, w)| format!("({}, {})", coq_bytes(n), w)))))
    );
    out.push(coq, js, class, names.len() >= 2 && copies >= 2);
}

pub fn run(ctx: &Ctx) {
    let header = "From OxVerif Require Import Base.Util C28.Model.\nOpen Scope Z_scope.";
    let mut out = Out::new(ctx, header, "list item * N * option N * option N * Z * list rec", "outline_code");
    out.shard_size = 60;
    let mut dout = Out::new(ctx, header, "list (N * option N * wdest)", "dest_code");
    dout.shard_size = 400;
    if let Some(cases) = ctx.replay_cases() {
        for c in cases {
            let forest: Vec<Item> = c["forest"].as_array().unwrap().iter().map(item_from).collect();
            emit(&mut out, &mut dout, &forest, c["npages"].as_u64().unwrap_or(3) as u32, c["cfg"].as_u64().unwrap_or(0), "replay");
        }
    } else {
        // small shapes exhaustively: all forests with <= 4 items and every open/closed assignment
        fn shapes(n: usize) -> Vec<Vec<Item>> {
            // forests with exactly n nodes
            if n == 0 {
                return vec![vec![]];
            }
            let mut res = vec![];
            for k in 1..=n {
                // first tree has k nodes (root + forest of k-1), rest has n-k
                for sub in shapes(k - 1) {
                    for rest in shapes(n - k) {
                        let mut f = vec![Item { label: 0, open: true, page: None, children: sub.clone() }];
                        f.extend(rest.clone());
                        res.push(f);
                    }
                }
            }
            res
        }
        fn relabel(f: &mut [Item], next: &mut u64, bits: u64) {
            for i in f.iter_mut() {
                *next += 1;
                i.label = *next;
                i.open = (bits >> (*next - 1)) & 1 == 1;
                i.page = Some(((*next) % 3) as u32);
                relabel(&mut i.children, next, bits);
            }
        }
        let maxn = if ctx.thorough() { 5 } else { 4 };
        for n in 1..=maxn {
            for sh in shapes(n) {
                for bits in 0..(1u64 << n) {
                    let mut f = sh.clone();
                    let mut next = 0;
                    relabel(&mut f, &mut next, bits);
                    emit(&mut out, &mut dout, &f, 3, (bits + n as u64) % 2, &format!("exhaustive_{n}"));
                }
            }
        }
        out.extra.insert("exhaustive_upto_items".into(), json!(maxn));
        let mut r = Rng::new(ctx.seed);
        let nrand = if ctx.thorough() { 600 } else { 150 };
        for _ in 0..nrand {
            let npages = r.range(1, 5) as u32;
            let mut next = 0;
            let depth = r.range(1, 4) as u32;
            let mut f = gen_forest(&mut r, depth, 4, &mut next, npages);
            if count(&f) > 60 {
                f.truncate(2);
            }
            let cfg = match r.below(20) { 0 => 3, 1..=6 => 1, _ => 0 }; // object streams (cfg 3) are slow to reopen: /Size 1000001
            emit(&mut out, &mut dout, &f, npages, cfg, &format!("random_depth{depth}"));
        }
    }
    out.finish("outline");
    dout.finish("dest");

    // ---------- channel names: named destinations, the same Document serialized 1..3 times ----------
    let mut nout = Out::new(ctx, header, "list (bytes * N) * list (list (bytes * wdest))", "names_code");
    nout.shard_size = 200;
    if let Some(cases) = ctx.replay_cases() {
        for c in cases.iter().filter(|c| c.get("names").is_some()) {
            let names: Vec<(String, u32)> = c["names"].as_array().unwrap().iter().map(|p| (p[0].as_str().unwrap().to_string(), p[1].as_u64().unwrap() as u32)).collect();
            emit_names(&mut nout, &names, c["npages"].as_u64().unwrap_or(3) as u32, c["cfg"].as_u64().unwrap_or(0), c["copies"].as_u64().unwrap_or(2) as usize, "replay");
        }
    } else {
        let mut r = Rng::new(ctx.seed ^ 0x28AA);
        let n = if ctx.thorough() { 300 } else { 80 };
        for i in 0..n {
            let npages = r.range(1, 6) as u32;
            let cnt = r.range(1, 8);
            let mut names: Vec<(String, u32)> = vec![];
            for k in 0..cnt {
                let nm = match r.below(4) {
                    0 => format!("intro{k}"),
                    1 => format!("Chapter.{k}"),
                    2 => format!("sec-{}-{k}", r.below(100)),
                    _ => format!("Z{k}"),
                };
                names.push((nm, r.below(npages as u64) as u32));
            }
            let copies = 1 + (i % 3) as usize;
            emit_names(&mut nout, &names, npages, r.below(2), copies, &format!("copies{copies}"));
        }
    }
    nout.finish("names");
}
