//! C02 — documents written by the library read back with the same content.
//! The authoring program (harness/src/c03_gen.rs) is kept as an abstract document: page boxes,
//! rotation, the operators each API call stands for (ISO 32000-1 operator semantics, colours
//! attached to the painting operators), images as sample bytes, info strings.  The written file
//! is re-opened with the library (strict options) and decoded to the same abstraction; the two
//! are compared inside Coq (C02/Model.v `doc_code`) with the proved tolerance comparison.
use crate::c03::gen::*;
use crate::util::*;
use oxidize_pdf::parser::content::{ContentOperation as CO, ContentParser};
use oxidize_pdf::parser::objects::{PdfDictionary, PdfObject};
use oxidize_pdf::parser::{ParseOptions, PdfDocument, PdfReader};
use serde_json::{json, Value};
use std::io::Cursor;

fn cl<I: IntoIterator<Item = String>>(it: I) -> String {
    let mut s = String::from("(");
    for x in it {
        s.push_str(&x);
        s.push_str(" :: ");
    }
    s.push_str("nil)");
    s
}
fn z(v: i64) -> String {
    coq_z(v as i128)
}
fn micro(k: i64) -> i64 {
    k * 1000
}
fn name(s: &str) -> String {
    coq_bytes(s.as_bytes())
}
fn ocol(c: Option<&Col>) -> String {
    match c {
        Some(c) => format!("(Some {})", cl(c.0.iter().map(|k| z(micro(*k))))),
        None => "None".into(),
    }
}
const FONT_NAMES: [&str; 14] = [
    "Helvetica", "Helvetica-Bold", "Helvetica-Oblique", "Helvetica-BoldOblique", "Times-Roman", "Times-Bold", "Times-Italic", "Times-BoldItalic",
    "Courier", "Courier-Bold", "Courier-Oblique", "Courier-BoldOblique", "Symbol", "ZapfDingbats",
];

/// the operators the authoring calls stand for
fn expected_ops(calls: &[Call]) -> Vec<String> {
    let mut fill = Col(vec![0]);
    let mut stroke = Col(vec![0]);
    let mut stack: Vec<(Col, Col)> = vec![];
    let mut out = vec![];
    let num = |v: i64, d: u32| format!("ENum {} {}", z(micro(v)), d);
    let op = |n: &str, args: Vec<String>, f: Option<&Col>, s: Option<&Col>| format!("({}, {}, {}, {})", name(n), cl(args), ocol(f), ocol(s));
    for c in calls {
        match c {
            Call::M(x, y) => out.push(op("m", vec![num(*x, 2), num(*y, 2)], None, None)),
            Call::L(x, y) => out.push(op("l", vec![num(*x, 2), num(*y, 2)], None, None)),
            Call::C(a) => out.push(op("c", a.iter().map(|v| num(*v, 2)).collect(), None, None)),
            Call::Re(a) => out.push(op("re", a.iter().map(|v| num(*v, 2)).collect(), None, None)),
            Call::H => out.push(op("h", vec![], None, None)),
            Call::S => out.push(op("S", vec![], None, Some(&stroke))),
            Call::F => out.push(op("f", vec![], Some(&fill), None)),
            Call::B => out.push(op("B", vec![], Some(&fill), Some(&stroke))),
            Call::W(w) => out.push(op("w", vec![num(*w, 2)], None, None)),
            Call::Save => {
                stack.push((fill.clone(), stroke.clone()));
                out.push(op("q", vec![], None, None));
            }
            Call::Restore => {
                if let Some((f, s)) = stack.pop() {
                    fill = f;
                    stroke = s;
                }
                out.push(op("Q", vec![], None, None));
            }
            Call::Cm(a) => out.push(op("cm", a.iter().map(|v| num(*v, 2)).collect(), None, None)),
            Call::Fill(c) => fill = c.clone(),
            Call::Stroke(c) => stroke = c.clone(),
            Call::Text { font, size, x, y, s, col } => {
                out.push(op("BT", vec![], None, None));
                out.push(op("Tf", vec![format!("EName {}", name(FONT_NAMES[*font % 14])), num(*size, 6)], None, None));
                out.push(op("Td", vec![num(*x, 2), num(*y, 2)], None, None));
                out.push(op("Tj", vec![format!("EStr {}", coq_bytes(s.as_bytes()))], Some(col), None));
                out.push(op("ET", vec![], None, None));
            }
            Call::Img { name: n, pos, .. } => {
                out.push(op("q", vec![], None, None));
                out.push(op("cm", vec![num(pos[2], 2), num(0, 2), num(0, 2), num(pos[3], 2), num(pos[0], 2), num(pos[1], 2)], None, None));
                out.push(op("Do", vec![format!("EName {}", name(n))], None, None));
                out.push(op("Q", vec![], None, None));
            }
        }
    }
    out
}

fn f2m(x: f32) -> String {
    format!("ANum {}", z((x as f64 * 1e6).round() as i64))
}
fn rop(n: &str, args: Vec<String>) -> String {
    format!("({}, {})", name(n), cl(args))
}

fn dict_of<'a>(doc: &PdfDocument<Cursor<Vec<u8>>>, o: &PdfObject) -> Option<PdfDictionary> {
    match doc.resolve(o).ok()? {
        PdfObject::Dictionary(d) => Some(d),
        PdfObject::Stream(s) => Some(s.dict.clone()),
        _ => None,
    }
}

struct ReadPage {
    coq: String,
}

fn read_back(bytes: &[u8]) -> Result<(Vec<String>, Vec<String>), String> {
    let rd = PdfReader::new_with_options(Cursor::new(bytes.to_vec()), ParseOptions::strict()).map_err(|e| format!("open: {e:?}"))?;
    let doc = rd.into_document();
    let n = doc.page_count().map_err(|e| format!("page_count: {e:?}"))?;
    let mut pages = vec![];
    for i in 0..n {
        let p = doc.get_page(i).map_err(|e| format!("page {i}: {e:?}"))?;
        let res = doc.get_page_resources(&p).map_err(|e| format!("resources {i}: {e:?}"))?.cloned();
        let sub = |key: &str| -> Option<PdfDictionary> { res.as_ref().and_then(|r| r.get(key)).and_then(|o| dict_of(&doc, o)) };
        let fonts = sub("Font");
        let xobjs = sub("XObject");
        let mut ops = vec![];
        let mut imgs = vec![];
        let streams = doc.get_page_content_streams(&p).map_err(|e| format!("content {i}: {e:?}"))?;
        let mut all = vec![];
        for s in &streams {
            all.extend_from_slice(s);
            all.push(b'\n');
        }
        for o in ContentParser::parse_content(&all).map_err(|e| format!("content parse {i}: {e:?}"))? {
            ops.push(match o {
                CO::BeginText => rop("BT", vec![]),
                CO::EndText => rop("ET", vec![]),
                CO::SetFont(nm, size) => {
                    // the resource name is the writer's choice: report the font it denotes
                    let base = fonts
                        .as_ref()
                        .and_then(|f| f.get(&nm))
                        .and_then(|o| dict_of(&doc, o))
                        .and_then(|d| d.get("BaseFont").and_then(|b| b.as_name().map(|n| n.as_str().to_string())))
                        .unwrap_or_else(|| format!("?unresolved:{nm}"));
                    rop("Tf", vec![format!("AName {}", name(&base)), f2m(size)])
                }
                CO::MoveText(x, y) => rop("Td", vec![f2m(x), f2m(y)]),
                CO::ShowText(b) => rop("Tj", vec![format!("AStr {}", coq_bytes(&b))]),
                CO::SaveGraphicsState => rop("q", vec![]),
                CO::RestoreGraphicsState => rop("Q", vec![]),
                CO::SetTransformMatrix(a, b, c, d, e, f) => rop("cm", vec![f2m(a), f2m(b), f2m(c), f2m(d), f2m(e), f2m(f)]),
                CO::SetLineWidth(w) => rop("w", vec![f2m(w)]),
                CO::MoveTo(x, y) => rop("m", vec![f2m(x), f2m(y)]),
                CO::LineTo(x, y) => rop("l", vec![f2m(x), f2m(y)]),
                CO::CurveTo(a, b, c, d, e, f) => rop("c", vec![f2m(a), f2m(b), f2m(c), f2m(d), f2m(e), f2m(f)]),
                CO::ClosePath => rop("h", vec![]),
                CO::Rectangle(a, b, c, d) => rop("re", vec![f2m(a), f2m(b), f2m(c), f2m(d)]),
                CO::Stroke => rop("S", vec![]),
                CO::Fill => rop("f", vec![]),
                CO::FillStroke => rop("B", vec![]),
                CO::SetNonStrokingGray(g) => rop("g", vec![f2m(g)]),
                CO::SetStrokingGray(g) => rop("G", vec![f2m(g)]),
                CO::SetNonStrokingRGB(r, g, b) => rop("rg", vec![f2m(r), f2m(g), f2m(b)]),
                CO::SetStrokingRGB(r, g, b) => rop("RG", vec![f2m(r), f2m(g), f2m(b)]),
                CO::SetNonStrokingCMYK(c, m, y, k) => rop("k", vec![f2m(c), f2m(m), f2m(y), f2m(k)]),
                CO::SetStrokingCMYK(c, m, y, k) => rop("K", vec![f2m(c), f2m(m), f2m(y), f2m(k)]),
                CO::PaintXObject(nm) => {
                    if let Some(PdfObject::Stream(s)) = xobjs.as_ref().and_then(|x| x.get(&nm)).and_then(|o| doc.resolve(o).ok()) {
                        let w = s.dict.get("Width").and_then(|o| o.as_integer()).unwrap_or(-1);
                        let h = s.dict.get("Height").and_then(|o| o.as_integer()).unwrap_or(-1);
                        let data = doc.decode_stream(&s).map_err(|e| format!("image {nm}: {e:?}"))?;
                        imgs.push(format!("({}, {}, {}, {})", name(&nm), w.max(0), h.max(0), coq_bytes(&data)));
                    }
                    rop("Do", vec![format!("AName {}", name(&nm))])
                }
                other => rop(&format!("?{:?}", other).chars().take(40).collect::<String>(), vec![]),
            });
        }
        let annots = doc.get_page_annotations(i).map(|a| a.len()).unwrap_or(9999);
        let mb = p.media_box;
        pages.push(format!(
            "({}, {}, {}, {}, {})",
            cl(mb.iter().map(|v| z((v * 1e6).round() as i64))),
            z(p.rotation as i64),
            cl(ops),
            cl(imgs),
            annots
        ));
    }
    let md = doc.metadata().map_err(|e| format!("metadata: {e:?}"))?;
    let meta = vec![md.title, md.author, md.subject].into_iter().map(|s| coq_bytes(s.unwrap_or_default().as_bytes())).collect();
    Ok((pages, meta))
}

fn emit(out: &mut Out, p: &Prog, class: &str) {
    let mut js = p.to_json();
    let bytes = match catch(std::panic::AssertUnwindSafe(|| p.write())) {
        Ok(Ok(b)) => b,
        Ok(Err(e)) => {
            out.count(&format!("writer_error:{}", e.chars().take(40).collect::<String>()));
            return;
        }
        Err(m) => {
            out.impl_failures.push(json!({"what": format!("writer panicked: {m}"), "case": js}));
            return;
        }
    };
    let exp_pages: Vec<String> = p
        .pages
        .iter()
        .map(|pg| {
            let imgs: Vec<String> = pg
                .calls
                .iter()
                .filter_map(|c| match c {
                    Call::Img { name: n, w, h, data, .. } => Some(format!("({}, {}, {}, {})", name(n), w, h, coq_bytes(data))),
                    _ => None,
                })
                .collect();
            format!(
                "({}, {}, {}, {}, {})",
                cl([0, 0, pg.w, pg.h].iter().map(|k| z(micro(*k)))),
                z(pg.rot as i64),
                cl(expected_ops(&pg.calls)),
                cl(imgs),
                pg.annots.len()
            )
        })
        .collect();
    let exp_meta: Vec<String> = [&p.title, &p.author, &p.subject].iter().map(|s| coq_bytes(s.as_deref().unwrap_or("").as_bytes())).collect();
    let b2 = bytes.clone();
    let rb = catch(std::panic::AssertUnwindSafe(move || read_back(&b2))).unwrap_or_else(|m| Err(format!("panic: {m}")));
    let (ok, got_pages, got_meta) = match rb {
        Ok((pg, m)) => (true, pg, m),
        Err(e) => {
            js["read_error"] = json!(e);
            (false, vec![], vec![])
        }
    };
    let coq = format!("({}, {}, {}, {}, {})", coq_bool(ok), cl(exp_pages), cl(got_pages), cl(exp_meta), cl(got_meta));
    let nt = p.pages.iter().any(|pg| pg.calls.iter().filter(|c| matches!(c, Call::S | Call::F | Call::B | Call::Text { .. } | Call::Img { .. })).count() >= 2);
    out.push(coq, js, &format!("{class}:{}", p.cfg.label()), nt);
}

pub fn run(ctx: &Ctx) {
    let header = "From OxVerif Require Import Base.Util C02.Model.";
    let mut out = Out::new(ctx, header, "doc_case", "doc_code");
    out.shard_size = 40;
    if let Some(cases) = ctx.replay_cases() {
        for c in cases {
            emit(&mut out, &Prog::from_json(&c), "replay");
        }
    } else {
        let mut r = Rng::new(ctx.seed ^ 0xC02);
        let n = if ctx.thorough() { 2400 } else { 240 };
        for i in 0..n {
            let p = gen_prog(&mut r, i, 40);
            emit(&mut out, &p, "gen");
        }
        let k = if ctx.thorough() { 4 } else { 2 };
        for i in 0..k {
            let mut p = gen_prog(&mut r, 0, 20);
            p.cfg = Cfg { xs: i % 2 == 0, os: true, compress: true, ver: "1.5".into() };
            emit(&mut out, &p, "gen");
        }
        // object-stream documents with a second (> 100 compressible objects) and a third (> 200) object stream
        let many: &[(usize, bool)] = if ctx.thorough() { &[(98, true), (131, false), (215, true), (320, false)] } else { &[(101 + (ctx.seed % 30) as usize, false), (203 + (ctx.seed % 30) as usize, true)] };
        for (n, xs) in many {
            let p = gen_many_pages(&mut r, *n, Cfg { xs: *xs, os: true, compress: true, ver: "1.5".into() });
            emit(&mut out, &p, "many");
        }
        // every boundary value of the coordinate catalogue in every operand slot of m l c re cm Td
        for (k, e) in EDGE.iter().enumerate() {
            let o = EDGE[(k + 7) % EDGE.len()];
            let calls = vec![
                Call::Fill(Col(vec![0])), Call::Stroke(Col(vec![0])),
                Call::M(*e, o), Call::L(o, *e), Call::C([*e, o, o, *e, *e, *e]), Call::Re([*e, o, *e, o]), Call::S,
                Call::Save, Call::Cm([*e, o, o, *e, *e, o]), Call::Re([o, *e, o, *e]), Call::F, Call::Restore,
                Call::Text { font: k % 14, size: 12_000, x: *e, y: o, s: "edge".into(), col: Col(vec![0]) },
                Call::Text { font: (k + 3) % 14, size: 9_500, x: o, y: *e, s: "edge".into(), col: Col(vec![500]) },
            ];
            let p = Prog { cfg: gen_cfg(&mut r, k as u64), title: None, author: None, subject: None, outline: vec![],
                           pages: vec![PageP { w: 595_000, h: 842_000, rot: 0, calls, annots: vec![] }] };
            emit(&mut out, &p, "edge");
        }
    }
    out.finish("doc");
}
