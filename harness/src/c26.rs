//! C26 — CMap::parse / CMap::map / ToUnicodeCMapBuilder vs the Gallina model and reference semantics.
use crate::util::*;
use oxidize_pdf::text::cmap::{CMap, CMapEntry, ToUnicodeCMapBuilder};
use serde_json::{json, Value};

#[derive(Clone, Debug)]
enum Rhs {
    Hex(Vec<u8>),
    Arr(Vec<Vec<u8>>),
}
#[derive(Clone, Debug)]
enum Section {
    Codespace(Vec<(Vec<u8>, Vec<u8>)>),
    BfChar(Vec<(Vec<u8>, Vec<u8>)>),
    BfRange(Vec<(Vec<u8>, Vec<u8>, Rhs)>),
}

fn to_be(len: usize, v: u64) -> Vec<u8> {
    (0..len).rev().map(|i| ((v >> (8 * i)) & 0xFF) as u8).collect()
}
fn be(b: &[u8]) -> u64 {
    b.iter().fold(0u64, |a, &x| a.wrapping_mul(256).wrapping_add(x as u64))
}

fn sec_json(s: &Section) -> Value {
    match s {
        Section::Codespace(l) => json!({"cs": l.iter().map(|(a,b)| json!([hex(a), hex(b)])).collect::<Vec<_>>()}),
        Section::BfChar(l) => json!({"bfchar": l.iter().map(|(a,b)| json!([hex(a), hex(b)])).collect::<Vec<_>>()}),
        Section::BfRange(l) => json!({"bfrange": l.iter().map(|(a,b,r)| match r {
            Rhs::Hex(d) => json!([hex(a), hex(b), hex(d)]),
            Rhs::Arr(ds) => json!([hex(a), hex(b), ds.iter().map(|d| hex(d)).collect::<Vec<_>>()]),
        }).collect::<Vec<_>>()}),
    }
}
fn sec_from(v: &Value) -> Section {
    let h = |x: &Value| unhex(x.as_str().unwrap());
    if let Some(l) = v.get("cs") {
        Section::Codespace(l.as_array().unwrap().iter().map(|p| (h(&p[0]), h(&p[1]))).collect())
    } else if let Some(l) = v.get("bfchar") {
        Section::BfChar(l.as_array().unwrap().iter().map(|p| (h(&p[0]), h(&p[1]))).collect())
    } else {
        Section::BfRange(
            v["bfrange"]
                .as_array()
                .unwrap()
                .iter()
                .map(|p| {
                    let r = if p[2].is_array() { Rhs::Arr(p[2].as_array().unwrap().iter().map(h).collect()) } else { Rhs::Hex(h(&p[2])) };
                    (h(&p[0]), h(&p[1]), r)
                })
                .collect(),
        )
    }
}
fn sec_coq(s: &Section) -> String {
    let pair = |(a, b): &(Vec<u8>, Vec<u8>)| format!("({}, {})", coq_bytes(a), coq_bytes(b));
    match s {
        Section::Codespace(l) => format!("Codespace {}", coq_list(l.iter().map(pair))),
        Section::BfChar(l) => format!("BfChar {}", coq_list(l.iter().map(pair))),
        Section::BfRange(l) => format!(
            "BfRange {}",
            coq_list(l.iter().map(|(a, b, r)| format!(
                "({}, {}, {})",
                coq_bytes(a),
                coq_bytes(b),
                match r {
                    Rhs::Hex(d) => format!("RHex {}", coq_bytes(d)),
                    Rhs::Arr(ds) => format!("RArr {}", coq_list(ds.iter().map(|d| coq_bytes(d)))),
                }
            )))
        ),
    }
}

/// render with producer-style variation (the tokenizer is glue covered by the correspondence)
fn render(secs: &[Section], style: u64) -> Vec<u8> {
    let up = style & 1 == 0;
    let sep = match (style >> 1) % 3 {
        0 => " ",
        1 => "",
        _ => "\n",
    };
    let eol = if (style >> 3) & 1 == 0 { "\n" } else { " " };
    let hx = |b: &[u8]| {
        let s = hex(b);
        format!("<{}>", if up { s.to_uppercase() } else { s })
    };
    let mut o = String::new();
    o.push_str("/CIDInit /ProcSet findresource begin\n12 dict begin\nbegincmap\n/CIDSystemInfo << /Registry (Adobe) /Ordering (UCS) /Supplement 0 >> def\n/CMapName /Adobe-Identity-UCS def\n/CMapType 2 def\n");
    for s in secs {
        match s {
            Section::Codespace(l) => {
                o.push_str(&format!("{} begincodespacerange{}", l.len(), eol));
                for (a, b) in l {
                    o.push_str(&format!("{}{}{}{}", hx(a), sep, hx(b), eol));
                }
                o.push_str(&format!("endcodespacerange{}", eol));
            }
            Section::BfChar(l) => {
                o.push_str(&format!("{} beginbfchar{}", l.len(), eol));
                for (a, b) in l {
                    o.push_str(&format!("{}{}{}{}", hx(a), sep, hx(b), eol));
                }
                o.push_str(&format!("endbfchar{}", eol));
            }
            Section::BfRange(l) => {
                o.push_str(&format!("{} beginbfrange{}", l.len(), eol));
                for (a, b, r) in l {
                    o.push_str(&format!("{}{}{}{}", hx(a), sep, hx(b), sep));
                    match r {
                        Rhs::Hex(d) => o.push_str(&hx(d)),
                        Rhs::Arr(ds) => {
                            o.push('[');
                            for d in ds {
                                o.push_str(&hx(d));
                                o.push_str(sep);
                            }
                            o.push(']');
                        }
                    }
                    o.push_str(eol);
                }
                o.push_str(&format!("endbfrange{}", eol));
            }
        }
    }
    o.push_str("endcmap\nCMapName currentdict /CMap defineresource pop\nend\nend\n");
    o.into_bytes()
}

fn utf16be(s: &str) -> Vec<u8> {
    s.encode_utf16().flat_map(|u| u.to_be_bytes()).collect()
}
fn rand_dst(r: &mut Rng) -> Vec<u8> {
    match r.below(10) {
        0..=5 => utf16be(&char::from_u32(r.range(0x20, 0x2FFF) as u32).unwrap_or('x').to_string()),
        6 => utf16be(&char::from_u32(r.range(0x1F600, 0x1F64F) as u32).unwrap().to_string()), // surrogate pair
        7 => utf16be(&format!("{}{}", char::from_u32(r.range(0x41, 0x5A) as u32).unwrap(), char::from_u32(r.range(0x61, 0x7A) as u32).unwrap())),
        8 => vec![0x00, r.range(0xF0, 0xFF) as u8], // last byte near overflow: carry into the byte before
        _ => vec![r.range(0, 255) as u8, 0xFE],
    }
}

struct GenCase {
    secs: Vec<Section>,
    probes: Vec<Vec<u8>>,
    class: &'static str,
}

fn gen_case(r: &mut Rng, i: u64) -> GenCase {
    let len = *r.pick(&[1usize, 1, 2, 2, 2, 3, 4]);
    let maxv: u64 = if len == 4 { 0xFFFF_FFFF } else { (1u64 << (8 * len)) - 1 };
    let class = match i % 10 {
        0..=4 => "clean",
        5 => "cross_boundary",
        6 => "overlap",
        7 => "outside_codespace",
        8 => "array_edges",
        _ => "malformed",
    };
    // code space
    let (cs_lo, cs_hi) = if class == "outside_codespace" || r.chance(1, 4) {
        let a = r.range(0, maxv / 2);
        (a, r.range(a, maxv))
    } else {
        (0, maxv)
    };
    let mut secs = vec![Section::Codespace(vec![(to_be(len, cs_lo), to_be(len, cs_hi))])];
    if class == "outside_codespace" && len == 2 {
        // the #302 shape: generic 2-byte code space, 1-byte bfchars
        secs = vec![Section::Codespace(vec![(vec![0, 0], vec![0xFF, 0xFF])])];
    }
    let mut probes: Vec<Vec<u8>> = vec![];
    let mut used: Vec<(u64, u64)> = vec![]; // occupied source intervals (for the clean classes)
    let nsec = r.range(1, 4);
    let pick_interval = |r: &mut Rng, used: &mut Vec<(u64, u64)>, width: u64, inside: bool, allow_overlap: bool| -> Option<(u64, u64)> {
        for _ in 0..30 {
            let (lo_b, hi_b) = if inside { (cs_lo, cs_hi) } else { (0, maxv) };
            if hi_b - lo_b < width {
                continue;
            }
            let lo = r.range(lo_b, hi_b - width);
            let hi = lo + width;
            if allow_overlap || used.iter().all(|&(a, b)| hi < a || lo > b) {
                used.push((lo, hi));
                return Some((lo, hi));
            }
        }
        None
    };
    for _ in 0..nsec {
        let overlap = class == "overlap";
        let inside = class != "outside_codespace";
        if r.chance(1, 2) {
            let mut l = vec![];
            for _ in 0..r.range(1, 5) {
                if class == "outside_codespace" && len == 2 && r.chance(1, 2) {
                    let c = vec![r.range(0x20, 0x7E) as u8];
                    probes.push(c.clone());
                    l.push((c, rand_dst(r)));
                    continue;
                }
                if let Some((lo, _)) = pick_interval(r, &mut used, 0, inside, overlap) {
                    probes.push(to_be(len, lo));
                    l.push((to_be(len, lo), rand_dst(r)));
                }
            }
            if !l.is_empty() {
                secs.push(Section::BfChar(l));
            }
        } else {
            let mut l = vec![];
            for _ in 0..r.range(1, 4) {
                let mut width = r.range(0, 40).min(maxv);
                if class == "cross_boundary" && len >= 2 {
                    width = r.range(200, 700).min(maxv);
                }
                if let Some((lo, hi)) = pick_interval(r, &mut used, width, inside, overlap) {
                    for c in [lo, hi, lo.saturating_sub(1), (hi + 1).min(maxv), (lo + hi) / 2, lo + width / 3] {
                        probes.push(to_be(len, c));
                    }
                    let rhs = if r.chance(1, 2) || width > 60 {
                        Rhs::Hex(rand_dst(r))
                    } else {
                        let n = match class {
                            "array_edges" => *r.pick(&[0u64, 1, width, width + 1, width + 3]),
                            _ => width + 1,
                        };
                        Rhs::Arr((0..n).map(|_| rand_dst(r)).collect())
                    };
                    let (mut s, mut e) = (to_be(len, lo), to_be(len, hi));
                    if class == "malformed" {
                        match r.below(3) {
                            0 => std::mem::swap(&mut s, &mut e),
                            1 => e.push(0x10),
                            _ => {
                                s.insert(0, 0);
                            }
                        }
                    }
                    l.push((s, e, rhs));
                }
            }
            if !l.is_empty() {
                secs.push(Section::BfRange(l));
            }
        }
    }
    // generic probes
    for c in [cs_lo, cs_hi, cs_lo.saturating_sub(1), (cs_hi + 1).min(maxv), 0, maxv] {
        probes.push(to_be(len, c));
    }
    for _ in 0..4 {
        probes.push(to_be(len, r.range(0, maxv)));
    }
    probes.push(to_be(len + 1, r.range(0, 255)));
    if len > 1 {
        probes.push(to_be(len - 1, r.range(0, 255)));
    }
    probes.push(vec![]);
    probes.sort();
    probes.dedup();
    GenCase { secs, probes, class }
}

fn entry_coq(e: &CMapEntry) -> String {
    match e {
        CMapEntry::Single { src, dst } => format!("Single {} {}", coq_bytes(src), coq_bytes(dst)),
        CMapEntry::Range { src_start, src_end, dst_start } => format!("Range {} {} {}", coq_bytes(src_start), coq_bytes(src_end), coq_bytes(dst_start)),
    }
}

fn emit_parse(out: &mut Out, secs: &[Section], probes: &[Vec<u8>], style: u64, class: &str) {
    let text = render(secs, style);
    let js = json!({"secs": secs.iter().map(sec_json).collect::<Vec<_>>(), "probes": probes.iter().map(|p| hex(p)).collect::<Vec<_>>(), "style": style, "text": String::from_utf8_lossy(&text)});
    let res = catch(std::panic::AssertUnwindSafe(|| {
        let cm = CMap::parse(&text).map_err(|e| format!("{e:?}"))?;
        let pr: Vec<(Vec<u8>, Option<Vec<u8>>, bool, Option<String>)> = probes
            .iter()
            .map(|c| {
                let m = cm.map(c);
                let u = m.as_ref().and_then(|b| cm.to_unicode(b));
                (c.clone(), m, cm.is_valid_code(c), u)
            })
            .collect();
        Ok::<_, String>((cm, pr))
    }));
    let (cm, pr) = match res {
        Ok(Ok(x)) => x,
        Ok(Err(e)) => {
            out.impl_failures.push(json!({"what": format!("CMap::parse rejected a generated CMap: {e}"), "case": js}));
            return;
        }
        Err(m) => {
            out.impl_failures.push(json!({"what": format!("panic: {m}"), "case": js}));
            return;
        }
    };
    // to_unicode must be the UTF-16BE reading of the mapped bytes whenever those are valid UTF-16
    for (c, m, _, u) in &pr {
        if let Some(b) = m {
            if b.len() % 2 == 0 {
                let units: Vec<u16> = b.chunks(2).map(|x| u16::from_be_bytes([x[0], x[1]])).collect();
                let want = String::from_utf16(&units).ok();
                if &want != u {
                    out.impl_failures.push(json!({"what": format!("to_unicode of {} for code {} is {:?}, UTF-16BE reading is {:?}", hex(b), hex(c), u, want), "case": js}));
                }
            }
        }
    }
    let coq = format!(
        "({}, {}, {}, {})",
        coq_list(secs.iter().map(sec_coq)),
        coq_list(cm.mappings.iter().map(entry_coq)),
        coq_list(cm.codespace_ranges.iter().map(|c| format!("({}, {})", coq_bytes(&c.start), coq_bytes(&c.end)))),
        coq_list(pr.iter().map(|(c, m, v, _)| format!("({}, {}, {})", coq_bytes(c), coq_opt(m.as_ref().map(|b| coq_bytes(b))), coq_bool(*v))))
    );
    let nt = pr.iter().any(|p| p.1.is_some()) && pr.iter().any(|p| p.1.is_none()) && secs.len() >= 2;
    out.push(coq, js, class, nt);
}

fn emit_builder(out: &mut Out, code_len: usize, m: &[(Vec<u8>, String)], probes: &[Vec<u8>]) {
    let js = json!({"code_len": code_len, "map": m.iter().map(|(k, v)| json!([hex(k), v])).collect::<Vec<_>>(), "probes": probes.iter().map(|p| hex(p)).collect::<Vec<_>>()});
    let res = catch(std::panic::AssertUnwindSafe(|| {
        let mut b = ToUnicodeCMapBuilder::new(code_len);
        for (k, v) in m {
            b.add_mapping(k.clone(), v);
        }
        let text = b.build();
        let cm = CMap::parse(&text).map_err(|e| format!("{e:?}"))?;
        let pr: Vec<(Vec<u8>, Option<Vec<u8>>, Option<String>)> = probes
            .iter()
            .map(|c| {
                let x = cm.map(c);
                let u = x.as_ref().and_then(|b| cm.to_unicode(b));
                (c.clone(), x, u)
            })
            .collect();
        Ok::<_, String>((cm, pr))
    }));
    let (cm, pr) = match res {
        Ok(Ok(x)) => x,
        Ok(Err(e)) => {
            out.impl_failures.push(json!({"what": format!("built CMap does not parse: {e}"), "case": js}));
            return;
        }
        Err(e) => {
            out.impl_failures.push(json!({"what": format!("panic: {e}"), "case": js}));
            return;
        }
    };
    for (c, _, u) in &pr {
        let want = m.iter().find(|(k, _)| k == c).map(|(_, v)| v.clone());
        if &want != u {
            out.impl_failures.push(json!({"what": format!("code {} reads back as {:?}, generated from {:?}", hex(c), u, want), "case": js}));
        }
    }
    let coq = format!(
        "({}, {}, {})",
        coq_list(m.iter().map(|(k, v)| format!("({}, {})", coq_bytes(k), coq_bytes(&utf16be(v))))),
        coq_list(cm.mappings.iter().map(entry_coq)),
        coq_list(pr.iter().map(|(c, x, _)| format!("({}, {})", coq_bytes(c), coq_opt(x.as_ref().map(|b| coq_bytes(b))))))
    );
    out.push(coq, js, &format!("builder_len{code_len}"), m.len() >= 2);
}

pub fn run(ctx: &Ctx) {
    let header = "From OxVerif Require Import Base.Util C26.Model.";
    let replay = ctx.replay_cases();
    // ---------- channel parse ----------
    let mut out = Out::new(ctx, header, "list section * list entry * list (bytes * bytes) * list probe", "parse_code");
    out.shard_size = 150;
    if let Some(cases) = &replay {
        for c in cases.iter().filter(|c| c.get("secs").is_some()) {
            let secs: Vec<Section> = c["secs"].as_array().unwrap().iter().map(sec_from).collect();
            let probes: Vec<Vec<u8>> = c["probes"].as_array().unwrap().iter().map(|p| unhex(p.as_str().unwrap())).collect();
            emit_parse(&mut out, &secs, &probes, c["style"].as_u64().unwrap_or(0), "replay");
        }
    } else {
        let mut r = Rng::new(ctx.seed);
        let n = if ctx.thorough() { 6000 } else { 1200 };
        for i in 0..n {
            let g = gen_case(&mut r, i);
            let style = r.below(16);
            emit_parse(&mut out, &g.secs, &g.probes, style, g.class);
        }
    }
    out.finish("parse");

    // ---------- channel builder ----------
    let mut out = Out::new(ctx, header, "list (bytes * bytes) * list entry * list (bytes * option bytes)", "builder_code");
    out.shard_size = 100;
    if let Some(cases) = &replay {
        for c in cases.iter().filter(|c| c.get("map").is_some()) {
            let m: Vec<(Vec<u8>, String)> = c["map"].as_array().unwrap().iter().map(|p| (unhex(p[0].as_str().unwrap()), p[1].as_str().unwrap().to_string())).collect();
            let probes: Vec<Vec<u8>> = c["probes"].as_array().unwrap().iter().map(|p| unhex(p.as_str().unwrap())).collect();
            emit_builder(&mut out, c["code_len"].as_u64().unwrap() as usize, &m, &probes);
        }
    } else {
        let mut r = Rng::new(ctx.seed ^ 0xB26);
        let n = if ctx.thorough() { 1500 } else { 300 };
        for i in 0..n {
            let code_len = *r.pick(&[1usize, 2, 2, 2, 3, 4]);
            let maxv: u64 = if code_len == 4 { 0xFFFF_FFFF } else { (1u64 << (8 * code_len)) - 1 };
            let cnt = if i % 25 == 0 { r.range(100, 260) } else { r.range(0, 30) };
            let mut keys: Vec<u64> = (0..cnt).map(|_| if r.chance(1, 2) { r.range(0, maxv.min(400)) } else { r.range(0, maxv) }).collect();
            keys.sort();
            keys.dedup();
            // insertion order is shuffled: the builder must sort
            for k in (1..keys.len()).rev() {
                let j = r.below(k as u64 + 1) as usize;
                keys.swap(k, j);
            }
            let m: Vec<(Vec<u8>, String)> = keys
                .iter()
                .map(|&k| {
                    let s = match r.below(6) {
                        0 => "\u{1F600}".to_string(),
                        1 => "ffi".to_string(),
                        2 => char::from_u32(r.range(0x4E00, 0x9FFF) as u32).unwrap().to_string(),
                        _ => char::from_u32(r.range(0x20, 0x24F) as u32).unwrap().to_string(),
                    };
                    (to_be(code_len, k), s)
                })
                .collect();
            let mut probes: Vec<Vec<u8>> = keys.iter().take(40).map(|&k| to_be(code_len, k)).collect();
            for _ in 0..6 {
                probes.push(to_be(code_len, r.range(0, maxv)));
            }
            probes.push(to_be(code_len + 1, 65));
            probes.sort();
            probes.dedup();
            emit_builder(&mut out, code_len, &m, &probes);
        }
    }
    out.finish("builder");
    let _ = be(&[]);
}
