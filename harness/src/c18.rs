//! C18 — page-tree navigation: generated page trees as raw PDF bytes, read with the real
//! PdfReader/PdfDocument (page_count, get_page), written as Coq cases for C18/Model.v.
use crate::util::*;
use oxidize_pdf::parser::{PdfDocument, PdfReader};
use serde_json::{json, Value};
use std::io::Cursor;

#[path = "c18_pdf.rs"]
pub mod rawpdf;
use rawpdf::RawPdf;

// ---------------------------------------------------------------- mirror of the Coq types
#[derive(Clone, Debug, PartialEq)]
pub enum PVal {
    Ref(u32),
    Int(i64),
    Arr(Vec<PVal>),
    Dict(u64),
    Other,
}
#[derive(Clone, Copy, Debug, PartialEq)]
pub enum Kind {
    Page,
    Pages,
    Other,
    None,
}
#[derive(Clone, Debug)]
pub struct Node {
    pub ty: Kind,
    pub kids: Option<PVal>,
    pub parent: Option<PVal>,
    pub contents: bool,
    pub media: Option<PVal>,
    pub crop: Option<PVal>,
    pub rotate: Option<PVal>,
    pub res: Option<PVal>,
    pub count: Option<i64>, // /Count: never looked at by the flat index; emitted only
}
#[derive(Clone, Debug)]
pub enum SObj {
    Dict(Node),
    Val(PVal),
}
#[derive(Clone, Debug)]
pub enum Tree {
    Leaf(u32, [Option<PVal>; 4]),
    Node(u32, [Option<PVal>; 4], Vec<Tree>),
}
pub type Store = Vec<(u32, SObj)>;

const CATALOG: u32 = 1;
const ROOT: u32 = 2;
const CONTENT: u32 = 3;

// ---------------------------------------------------------------- PDF text
fn pv_pdf(v: &PVal) -> String {
    match v {
        PVal::Ref(r) => format!("{} 0 R", r),
        PVal::Int(z) => format!("{}", z),
        PVal::Arr(l) => format!("[{}]", l.iter().map(pv_pdf).collect::<Vec<_>>().join(" ")),
        PVal::Dict(id) => format!("<< /Font << /F{} << /Type /Font /Subtype /Type1 /BaseFont /Helvetica >> >> >>", id),
        PVal::Other => "/Oth".into(),
    }
}
fn node_pdf(n: &Node) -> String {
    let mut s = String::from("<<");
    match n.ty {
        Kind::Page => s.push_str(" /Type /Page"),
        Kind::Pages => s.push_str(" /Type /Pages"),
        Kind::Other => s.push_str(" /Type /Thing"),
        Kind::None => {}
    }
    let mut put = |k: &str, v: &Option<PVal>| {
        if let Some(v) = v {
            s.push_str(&format!(" /{} {}", k, pv_pdf(v)));
        }
    };
    put("Parent", &n.parent);
    put("Kids", &n.kids);
    put("MediaBox", &n.media);
    put("CropBox", &n.crop);
    put("Rotate", &n.rotate);
    put("Resources", &n.res);
    if let Some(c) = n.count {
        s.push_str(&format!(" /Count {}", c));
    }
    if n.contents {
        s.push_str(&format!(" /Contents {} 0 R", CONTENT));
    }
    s.push_str(" >>");
    s
}
pub fn store_pdf(store: &Store) -> Vec<u8> {
    let mut p = RawPdf::new();
    p.set(CATALOG, format!("<< /Type /Catalog /Pages {} 0 R >>", ROOT));
    p.set_stream(CONTENT, "", b"q Q");
    for (r, o) in store {
        match o {
            SObj::Dict(n) => p.set(*r, node_pdf(n)),
            SObj::Val(v) => p.set(*r, pv_pdf(v)),
        }
    }
    p.build(CATALOG)
}

// ---------------------------------------------------------------- Coq text
/// lists as `(a :: b :: nil)`: the bracket notation makes the Coq parser backtrack at every
/// nesting level, which is exponential for trees
fn coq_list<I: IntoIterator<Item = String>>(it: I) -> String {
    let mut s = String::from("(");
    for x in it {
        s.push_str(&x);
        s.push_str(" :: ");
    }
    s.push_str("nil)");
    s
}
fn pv_coq(v: &PVal) -> String {
    match v {
        PVal::Ref(r) => format!("VRef {}", r),
        PVal::Int(z) => format!("VInt {}", coq_z(*z as i128)),
        PVal::Arr(l) => format!("VArr {}", coq_list(l.iter().map(pv_coq))),
        PVal::Dict(id) => format!("VDict {}", id),
        PVal::Other => "VOther".into(),
    }
}
fn opv_coq(v: &Option<PVal>) -> String {
    coq_opt(v.as_ref().map(|x| format!("({})", pv_coq(x))))
}
fn node_coq(n: &Node) -> String {
    let k = match n.ty {
        Kind::Page => "KPage",
        Kind::Pages => "KPages",
        Kind::Other => "KOther",
        Kind::None => "KNone",
    };
    format!(
        "(Build_node {} {} {} {} {} {} {} {})",
        k,
        opv_coq(&n.kids),
        opv_coq(&n.parent),
        coq_bool(n.contents),
        opv_coq(&n.media),
        opv_coq(&n.crop),
        opv_coq(&n.rotate),
        opv_coq(&n.res)
    )
}
fn store_coq(s: &Store) -> String {
    coq_list(s.iter().map(|(r, o)| match o {
        SObj::Dict(n) => format!("({}, SDict {})", r, node_coq(n)),
        SObj::Val(v) => format!("({}, SVal ({}))", r, pv_coq(v)),
    }))
}
fn attrs_coq(a: &[Option<PVal>; 4]) -> String {
    format!("(Build_attrs {} {} {} {})", opv_coq(&a[0]), opv_coq(&a[1]), opv_coq(&a[2]), opv_coq(&a[3]))
}
fn tree_coq(t: &Tree) -> String {
    match t {
        Tree::Leaf(r, a) => format!("Leaf {} {}", r, attrs_coq(a)),
        Tree::Node(r, a, ks) => format!("Node {} {} {}", r, attrs_coq(a), coq_list(ks.iter().map(tree_coq))),
    }
}

// ---------------------------------------------------------------- JSON (replay)
fn pv_json(v: &PVal) -> Value {
    match v {
        PVal::Ref(r) => json!({"r": r}),
        PVal::Int(z) => json!({"i": z}),
        PVal::Arr(l) => json!({"a": l.iter().map(pv_json).collect::<Vec<_>>()}),
        PVal::Dict(id) => json!({"d": id}),
        PVal::Other => json!("o"),
    }
}
fn pv_from(v: &Value) -> PVal {
    if let Some(r) = v.get("r") {
        PVal::Ref(r.as_u64().unwrap() as u32)
    } else if let Some(i) = v.get("i") {
        PVal::Int(i.as_i64().unwrap())
    } else if let Some(a) = v.get("a") {
        PVal::Arr(a.as_array().unwrap().iter().map(pv_from).collect())
    } else if let Some(d) = v.get("d") {
        PVal::Dict(d.as_u64().unwrap())
    } else {
        PVal::Other
    }
}
fn opv_json(v: &Option<PVal>) -> Value {
    v.as_ref().map(pv_json).unwrap_or(Value::Null)
}
fn opv_from(v: &Value) -> Option<PVal> {
    if v.is_null() {
        None
    } else {
        Some(pv_from(v))
    }
}
fn store_json(s: &Store) -> Value {
    Value::Array(
        s.iter()
            .map(|(r, o)| match o {
                SObj::Dict(n) => json!({"n": r, "ty": match n.ty { Kind::Page => "Page", Kind::Pages => "Pages", Kind::Other => "Other", Kind::None => "None" },
                    "kids": opv_json(&n.kids), "parent": opv_json(&n.parent), "contents": n.contents, "media": opv_json(&n.media),
                    "crop": opv_json(&n.crop), "rotate": opv_json(&n.rotate), "res": opv_json(&n.res), "count": n.count}),
                SObj::Val(v) => json!({"n": r, "val": pv_json(v)}),
            })
            .collect(),
    )
}
fn store_from(v: &Value) -> Store {
    v.as_array()
        .unwrap()
        .iter()
        .map(|o| {
            let r = o["n"].as_u64().unwrap() as u32;
            if let Some(val) = o.get("val") {
                (r, SObj::Val(pv_from(val)))
            } else {
                let ty = match o["ty"].as_str().unwrap_or("None") {
                    "Page" => Kind::Page,
                    "Pages" => Kind::Pages,
                    "Other" => Kind::Other,
                    _ => Kind::None,
                };
                (
                    r,
                    SObj::Dict(Node {
                        ty,
                        kids: opv_from(&o["kids"]),
                        parent: opv_from(&o["parent"]),
                        contents: o["contents"].as_bool().unwrap_or(false),
                        media: opv_from(&o["media"]),
                        crop: opv_from(&o["crop"]),
                        rotate: opv_from(&o["rotate"]),
                        res: opv_from(&o["res"]),
                        count: o["count"].as_i64(),
                    }),
                )
            }
        })
        .collect()
}
fn tree_json(t: &Tree) -> Value {
    match t {
        Tree::Leaf(r, a) => json!({"leaf": r, "a": a.iter().map(opv_json).collect::<Vec<_>>()}),
        Tree::Node(r, a, ks) => json!({"node": r, "a": a.iter().map(opv_json).collect::<Vec<_>>(), "ks": ks.iter().map(tree_json).collect::<Vec<_>>()}),
    }
}
fn tree_from(v: &Value) -> Tree {
    let a: Vec<Option<PVal>> = v["a"].as_array().unwrap().iter().map(opv_from).collect();
    let a = [a[0].clone(), a[1].clone(), a[2].clone(), a[3].clone()];
    if let Some(r) = v.get("leaf") {
        Tree::Leaf(r.as_u64().unwrap() as u32, a)
    } else {
        Tree::Node(v["node"].as_u64().unwrap() as u32, a, v["ks"].as_array().unwrap().iter().map(tree_from).collect())
    }
}

// ---------------------------------------------------------------- generator
struct Gen<'a> {
    r: &'a mut Rng,
    store: Store,
    next: u32,
    indirect_attr: bool, // attribute values may be indirect references
    indirect_kids: u64,  // percent of Pages nodes with /Kids n 0 R
    wrong_count: bool,
    uniq: i64,
}
impl<'a> Gen<'a> {
    fn alloc(&mut self) -> u32 {
        // object numbers in no particular relation to document order
        self.next += 1 + self.r.below(3) as u32;
        self.next
    }
    fn put(&mut self, r: u32, o: SObj) {
        let at = self.r.below(self.store.len() as u64 + 1) as usize;
        self.store.insert(at, (r, o));
    }
    fn maybe_indirect(&mut self, v: PVal) -> PVal {
        if self.indirect_attr && self.r.chance(1, 2) {
            let n = self.alloc();
            self.put(n, SObj::Val(v));
            PVal::Ref(n)
        } else {
            v
        }
    }
    fn rect(&mut self) -> PVal {
        self.uniq += 1;
        let x = self.r.range(0, 400) as i64 - 200;
        let y = self.r.range(0, 400) as i64 - 200;
        PVal::Arr(vec![PVal::Int(x), PVal::Int(y), PVal::Int(x + 100 + self.uniq), PVal::Int(y + 200 + self.r.below(500) as i64)])
    }
    fn attrs(&mut self, p: u64) -> [Option<PVal>; 4] {
        let mut a: [Option<PVal>; 4] = [None, None, None, None];
        if self.r.chance(p, 100) {
            let v = self.rect();
            a[0] = Some(self.maybe_indirect(v));
        }
        if self.r.chance(p, 100) {
            let v = self.rect();
            a[1] = Some(self.maybe_indirect(v));
        }
        if self.r.chance(p, 100) {
            let v = PVal::Int(90 * (self.r.range(0, 14) as i64 - 5));
            a[2] = Some(self.maybe_indirect(v));
        }
        if self.r.chance(p, 100) {
            self.uniq += 1;
            let v = PVal::Dict(self.uniq as u64);
            a[3] = Some(if self.r.chance(1, 3) || self.indirect_attr && self.r.chance(1, 2) {
                let n = self.alloc();
                self.put(n, SObj::Val(v));
                PVal::Ref(n)
            } else {
                v
            });
        }
        a
    }
    /// builds the subtree below `me` (already allocated); returns the tree
    fn subtree(&mut self, me: u32, parent: Option<u32>, depth: u32, maxdepth: u32, fan: u64) -> Tree {
        let leaf = parent.is_some() && (depth >= maxdepth || self.r.chance(45, 100));
        let a = self.attrs(if leaf { 35 } else { 30 });
        if leaf {
            let has_c = self.r.chance(4, 5);
            self.put(
                me,
                SObj::Dict(Node { ty: Kind::Page, kids: None, parent: parent.map(PVal::Ref), contents: has_c, media: a[0].clone(), crop: a[1].clone(), rotate: a[2].clone(), res: a[3].clone(), count: None }),
            );
            return Tree::Leaf(me, a);
        }
        let nk = if depth == 0 { self.r.range(1, fan) } else { self.r.range(0, fan) };
        let kid_refs: Vec<u32> = (0..nk).map(|_| self.alloc()).collect();
        let ks: Vec<Tree> = kid_refs.iter().map(|k| self.subtree(*k, Some(me), depth + 1, maxdepth, fan)).collect();
        let arr = PVal::Arr(kid_refs.iter().map(|k| PVal::Ref(*k)).collect());
        let kids = if self.r.chance(self.indirect_kids, 100) {
            let n = self.alloc();
            self.put(n, SObj::Val(arr));
            PVal::Ref(n)
        } else {
            arr
        };
        let true_count: i64 = ks.iter().map(leaves_of).sum();
        let count = if self.wrong_count && self.r.chance(1, 2) { *self.r.pick(&[0, 1, true_count + 1, true_count * 3 + 7, 99999, 100001, -1, 4294967296]) } else { true_count };
        self.put(
            me,
            SObj::Dict(Node { ty: Kind::Pages, kids: Some(kids), parent: parent.map(PVal::Ref), contents: false, media: a[0].clone(), crop: a[1].clone(), rotate: a[2].clone(), res: a[3].clone(), count: Some(count) }),
        );
        Tree::Node(me, a, ks)
    }
}
fn leaves_of(t: &Tree) -> i64 {
    match t {
        Tree::Leaf(..) => 1,
        Tree::Node(_, _, ks) => ks.iter().map(leaves_of).sum(),
    }
}
fn tree_refs(t: &Tree, pages: &mut Vec<u32>, inner: &mut Vec<u32>) {
    match t {
        Tree::Leaf(r, _) => pages.push(*r),
        Tree::Node(r, _, ks) => {
            inner.push(*r);
            ks.iter().for_each(|k| tree_refs(k, pages, inner));
        }
    }
}
fn tree_depth(t: &Tree) -> u32 {
    match t {
        Tree::Leaf(..) => 0,
        Tree::Node(_, _, ks) => 1 + ks.iter().map(tree_depth).max().unwrap_or(0),
    }
}

pub fn gen_wellformed(r: &mut Rng, maxdepth: u32, fan: u64, indirect_attr: bool, indirect_kids: u64, wrong_count: bool) -> (Store, Tree) {
    let mut g = Gen { r, store: vec![], next: 3, indirect_attr, indirect_kids, wrong_count, uniq: 0 };
    let t = g.subtree(ROOT, None, 0, maxdepth, fan);
    (g.store, t)
}

fn node_mut(store: &mut Store, r: u32) -> Option<&mut Node> {
    store.iter_mut().find(|(k, _)| *k == r).and_then(|(_, o)| match o {
        SObj::Dict(n) => Some(n),
        _ => None,
    })
}
fn kids_push(store: &mut Store, parent: u32, extra: PVal, front: bool) {
    // add an element to the (direct or indirect) kids array of `parent`
    let kv = node_mut(store, parent).and_then(|n| n.kids.clone());
    match kv {
        Some(PVal::Arr(mut l)) => {
            if front {
                l.insert(0, extra)
            } else {
                l.push(extra)
            }
            node_mut(store, parent).unwrap().kids = Some(PVal::Arr(l));
        }
        Some(PVal::Ref(a)) => {
            if let Some((_, SObj::Val(PVal::Arr(l)))) = store.iter_mut().find(|(k, _)| *k == a) {
                if front {
                    l.insert(0, extra)
                } else {
                    l.push(extra)
                }
            }
        }
        _ => {}
    }
}

/// one random damage; returns its label
fn mutate(r: &mut Rng, store: &mut Store, t: &Tree) -> &'static str {
    let (mut pages, mut inner) = (vec![], vec![]);
    tree_refs(t, &mut pages, &mut inner);
    let free = store.iter().map(|(k, _)| *k).max().unwrap_or(3) + 1;
    let any_inner = *r.pick(&inner);
    match r.below(16) {
        0 if !pages.is_empty() => {
            let p = *r.pick(&pages);
            kids_push(store, any_inner, PVal::Ref(p), r.chance(1, 2));
            "shared_kid"
        }
        1 => {
            let anc = *r.pick(&inner);
            kids_push(store, any_inner, PVal::Ref(anc), r.chance(1, 2));
            "cyclic_kid"
        }
        2 => {
            kids_push(store, any_inner, PVal::Ref(any_inner), false);
            "self_kid"
        }
        3 => {
            kids_push(store, any_inner, PVal::Ref(free + 5), r.chance(1, 2));
            "dangling_kid"
        }
        4 => {
            store.push((free, SObj::Val(PVal::Int(7))));
            kids_push(store, any_inner, PVal::Ref(free), r.chance(1, 2));
            "nondict_kid"
        }
        5 => {
            let e = r.pick(&[PVal::Int(3), PVal::Other]).clone();
            kids_push(store, any_inner, e, r.chance(1, 2));
            "nonref_kid_element"
        }
        6 => {
            if let Some(n) = node_mut(store, any_inner) {
                n.kids = r.pick(&[None, Some(PVal::Other), Some(PVal::Int(1)), Some(PVal::Ref(free + 9))]).clone();
            }
            "kids_not_array"
        }
        7 => {
            // /Kids -> reference -> reference -> array (only one level is followed)
            if let Some(n) = node_mut(store, any_inner) {
                if let Some(k) = n.kids.clone() {
                    n.kids = Some(PVal::Ref(free));
                    let inner_v = match k {
                        PVal::Ref(x) => PVal::Ref(x),
                        other => {
                            store.push((free + 1, SObj::Val(other)));
                            PVal::Ref(free + 1)
                        }
                    };
                    store.push((free, SObj::Val(inner_v)));
                }
            }
            "kids_double_indirect"
        }
        8 => {
            let all: Vec<u32> = pages.iter().chain(inner.iter()).copied().collect();
            let x = *r.pick(&all);
            let ty = *r.pick(&[Kind::None, Kind::Other, Kind::Page, Kind::Pages]);
            if let Some(n) = node_mut(store, x) {
                n.ty = ty;
            }
            "type_changed"
        }
        9 if !pages.is_empty() => {
            let x = *r.pick(&pages);
            if let Some(n) = node_mut(store, x) {
                n.ty = Kind::None;
                n.contents = false;
            }
            "typeless_page"
        }
        10 => {
            let all: Vec<u32> = pages.iter().chain(inner.iter()).copied().collect();
            let x = *r.pick(&all);
            let y = *r.pick(&all);
            if let Some(n) = node_mut(store, x) {
                n.parent = r.pick(&[None, Some(PVal::Ref(y)), Some(PVal::Ref(x)), Some(PVal::Ref(free + 3)), Some(PVal::Int(2))]).clone();
            }
            "parent_wrong"
        }
        11 => {
            // /Parent cycle between two intermediate nodes
            let a = *r.pick(&inner);
            let b = *r.pick(&inner);
            if let Some(n) = node_mut(store, a) {
                n.parent = Some(PVal::Ref(b));
            }
            if let Some(n) = node_mut(store, b) {
                n.parent = Some(PVal::Ref(a));
            }
            "parent_cycle"
        }
        12 => {
            let all: Vec<u32> = pages.iter().chain(inner.iter()).copied().collect();
            let x = *r.pick(&all);
            let bad = r.pick(&[PVal::Arr(vec![PVal::Int(0), PVal::Int(0), PVal::Int(10)]), PVal::Arr(vec![PVal::Other, PVal::Int(1), PVal::Int(50), PVal::Int(60)]), PVal::Int(5), PVal::Other, PVal::Arr(vec![])]).clone();
            if let Some(n) = node_mut(store, x) {
                if r.chance(1, 2) {
                    n.media = Some(bad)
                } else {
                    n.crop = Some(bad)
                }
            }
            "bad_box"
        }
        13 => {
            let all: Vec<u32> = pages.iter().chain(inner.iter()).copied().collect();
            let x = *r.pick(&all);
            if let Some(n) = node_mut(store, x) {
                if r.chance(1, 2) {
                    n.rotate = Some(r.pick(&[PVal::Other, PVal::Int(2147483647), PVal::Int(-2147483648), PVal::Int(4294967386), PVal::Arr(vec![])]).clone());
                } else {
                    n.res = Some(r.pick(&[PVal::Other, PVal::Int(3), PVal::Ref(free + 4), PVal::Arr(vec![])]).clone());
                }
            }
            "bad_rotate_or_resources"
        }
        14 => {
            // the root itself among the kids of a node
            kids_push(store, any_inner, PVal::Ref(ROOT), r.chance(1, 2));
            "root_as_kid"
        }
        _ => {
            // duplicate the whole kids list of a node
            let kv = node_mut(store, any_inner).and_then(|n| n.kids.clone());
            if let Some(PVal::Arr(l)) = kv {
                let mut l2 = l.clone();
                l2.extend(l);
                node_mut(store, any_inner).unwrap().kids = Some(PVal::Arr(l2));
            }
            "kids_duplicated"
        }
    }
}

// ---------------------------------------------------------------- real code
#[derive(Debug, Clone)]
enum PRes {
    Err,
    Ok { r: u32, media: [f64; 4], crop: Option<[f64; 4]>, rot: i32, res: Option<u64> },
}
fn run_real(bytes: Vec<u8>) -> Option<Vec<PRes>> {
    let reader = PdfReader::new(Cursor::new(bytes)).ok()?;
    let doc = PdfDocument::new(reader);
    let n = doc.page_count().ok()?;
    let mut out = vec![];
    for i in 0..n {
        match doc.get_page(i) {
            Ok(p) => {
                let res = p.get_resources().and_then(|d| d.get("Font")).and_then(|f| f.as_dict()).and_then(|f| f.0.keys().next().and_then(|k| k.0.strip_prefix('F').and_then(|x| x.parse::<u64>().ok())));
                out.push(PRes::Ok { r: p.obj_ref.0, media: p.media_box, crop: p.crop_box, rot: p.rotation, res });
            }
            Err(_) => {
                out.push(PRes::Err);
            }
        }
    }
    Some(out)
}
fn fz(x: f64) -> String {
    if x.fract() == 0.0 && x.abs() < 1e15 {
        coq_z(x as i128)
    } else {
        // non-integral: cannot be a value the generator wrote; make the comparison fail visibly
        coq_z(987654321987)
    }
}
fn pres_coq(p: &PRes) -> String {
    match p {
        PRes::Err => "PErr".into(),
        PRes::Ok { r, media, crop, rot, res } => format!(
            "POk (Build_pinfo {} {} {} {} {})",
            r,
            coq_list(media.iter().map(|x| fz(*x))),
            coq_opt(crop.map(|c| coq_list(c.iter().map(|x| fz(*x))))),
            coq_z(*rot as i128),
            coq_opt(res.map(|x| x.to_string()))
        ),
    }
}

fn emit(out: &mut Out, store: &Store, tree: Option<&Tree>, class: &str, label: &str) {
    let bytes = store_pdf(store);
    let js = json!({"store": store_json(store), "tree": tree.map(tree_json), "label": label});
    // wall-clock guard: the real code runs in its own thread
    let (tx, rx) = std::sync::mpsc::channel();
    let b2 = bytes.clone();
    std::thread::spawn(move || {
        let r = catch(std::panic::AssertUnwindSafe(|| run_real(b2)));
        let _ = tx.send(r);
    });
    let res = match rx.recv_timeout(std::time::Duration::from_secs(20)) {
        Ok(Ok(r)) => r,
        Ok(Err(m)) => {
            out.impl_failures.push(json!({"what":"panic","msg":m,"case":js}));
            return;
        }
        Err(_) => {
            out.impl_failures.push(json!({"what":"no result within 20 s (hang)","case":js}));
            return;
        }
    };
    let coq = format!(
        "({}, {}, {}, {})",
        store_coq(store),
        ROOT,
        coq_opt(tree.map(|t| format!("({})", tree_coq(t)))),
        coq_opt(res.as_ref().map(|ps| coq_list(ps.iter().map(pres_coq))))
    );
    let nt = match (&res, tree) {
        (Some(ps), Some(t)) => ps.len() >= 2 && tree_depth(t) >= 2,
        (Some(ps), None) => !ps.is_empty(),
        _ => false,
    };
    out.push(coq, js, class, nt);
}

pub fn run(ctx: &Ctx) {
    let header = "From OxVerif Require Import Base.Util C18.Model.";
    let mut out = Out::new(ctx, header, "case", "case_code");
    out.shard_size = 60;
    if let Some(cases) = ctx.replay_cases() {
        for c in cases {
            let store = store_from(&c["store"]);
            let tree = if c["tree"].is_null() { None } else { Some(tree_from(&c["tree"])) };
            emit(&mut out, &store, tree.as_ref(), "replay", c["label"].as_str().unwrap_or("replay"));
        }
        out.finish("tree");
        return;
    }
    let mut r = Rng::new(ctx.seed ^ 0xC18);
    let scale = if ctx.thorough() { 5 } else { 1 };
    // well-formed trees: direct values
    for i in 0..(260 * scale) {
        let maxdepth = 1 + (i % 6) as u32;
        let fan = 1 + r.below(5);
        let (s, t) = gen_wellformed(&mut r, maxdepth, fan, false, 40, true);
        emit(&mut out, &s, Some(&t), "wellformed", "wf");
    }
    // well-formed trees whose attribute values are indirect references
    for i in 0..(120 * scale) {
        let maxdepth = 1 + (i % 5) as u32;
        let fan = 1 + r.below(4);
        let (s, t) = gen_wellformed(&mut r, maxdepth, fan, true, 40, true);
        emit(&mut out, &s, Some(&t), "wellformed_indirect_attr", "wf_ind");
    }
    // damaged trees
    for i in 0..(420 * scale) {
        let maxdepth = 1 + (i % 5) as u32;
        let fan = 1 + r.below(4);
        let (mut s, t) = gen_wellformed(&mut r, maxdepth, fan, i % 7 == 0, 30, true);
        let n = 1 + r.below(3);
        let mut label = String::new();
        for _ in 0..n {
            label.push_str(mutate(&mut r, &mut s, &t));
            label.push('+');
        }
        let first = label.split('+').next().unwrap().to_string();
        emit(&mut out, &s, None, &format!("damaged_{}", first), &label);
    }
    out.finish("tree");
}
