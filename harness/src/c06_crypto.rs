//! C06 — self-contained primitives for the harness's own (independent) PDF encryptor: RC4, MD5
//! (RFC 1321), SHA-256/384/512 (FIPS 180-4), AES-128/256 block encryption (FIPS 197), CBC.
//! Nothing here calls the library under test; a sample of the encryptor's output is re-checked
//! in Coq against C23's specifications on every run.

pub fn rc4(key: &[u8], data: &[u8]) -> Vec<u8> {
    let mut s: Vec<u8> = (0..=255u8).collect();
    let mut j = 0usize;
    for i in 0..256 {
        j = (j + s[i] as usize + key[i % key.len()] as usize) & 255;
        s.swap(i, j);
    }
    let (mut i, mut j) = (0usize, 0usize);
    data.iter()
        .map(|b| {
            i = (i + 1) & 255;
            j = (j + s[i] as usize) & 255;
            s.swap(i, j);
            b ^ s[(s[i] as usize + s[j] as usize) & 255]
        })
        .collect()
}

pub fn md5(msg: &[u8]) -> Vec<u8> {
    let s: [u32; 64] = [
        7, 12, 17, 22, 7, 12, 17, 22, 7, 12, 17, 22, 7, 12, 17, 22, 5, 9, 14, 20, 5, 9, 14, 20, 5, 9, 14, 20, 5, 9, 14, 20, 4, 11, 16, 23, 4, 11, 16, 23, 4, 11, 16,
        23, 4, 11, 16, 23, 6, 10, 15, 21, 6, 10, 15, 21, 6, 10, 15, 21, 6, 10, 15, 21,
    ];
    static K: std::sync::OnceLock<Vec<u32>> = std::sync::OnceLock::new();
    let k = K.get_or_init(|| (0..64).map(|i| ((i as f64 + 1.0).sin().abs() * 4294967296.0) as u64 as u32).collect());
    let (mut a0, mut b0, mut c0, mut d0) = (0x67452301u32, 0xefcdab89u32, 0x98badcfeu32, 0x10325476u32);
    let mut m = msg.to_vec();
    m.push(0x80);
    while m.len() % 64 != 56 {
        m.push(0);
    }
    m.extend_from_slice(&((msg.len() as u64).wrapping_mul(8)).to_le_bytes());
    for ch in m.chunks(64) {
        let w: Vec<u32> = ch.chunks(4).map(|c| u32::from_le_bytes([c[0], c[1], c[2], c[3]])).collect();
        let (mut a, mut b, mut c, mut d) = (a0, b0, c0, d0);
        for i in 0..64 {
            let (f, g) = match i / 16 {
                0 => ((b & c) | (!b & d), i),
                1 => ((d & b) | (!d & c), (5 * i + 1) % 16),
                2 => (b ^ c ^ d, (3 * i + 5) % 16),
                _ => (c ^ (b | !d), (7 * i) % 16),
            };
            let f2 = f.wrapping_add(a).wrapping_add(k[i]).wrapping_add(w[g]);
            a = d;
            d = c;
            c = b;
            b = b.wrapping_add(f2.rotate_left(s[i]));
        }
        a0 = a0.wrapping_add(a);
        b0 = b0.wrapping_add(b);
        c0 = c0.wrapping_add(c);
        d0 = d0.wrapping_add(d);
    }
    let mut out = vec![];
    for v in [a0, b0, c0, d0] {
        out.extend_from_slice(&v.to_le_bytes());
    }
    out
}

fn primes(n: usize) -> Vec<u64> {
    let mut p = vec![];
    let mut c = 2u64;
    while p.len() < n {
        if p.iter().all(|q| c % q != 0) {
            p.push(c);
        }
        c += 1;
    }
    p
}
/// floor(frac(root) * 2^bits) for the square (k=2) or cube (k=3) root of p, by integer search
fn root_frac(p: u64, k: u32, bits: u32) -> u128 {
    // find r = floor(p^(1/k) * 2^bits) with big integers: r^k <= p * 2^(k*bits)
    // use u128 for bits=32 directly; for bits=64 use 256-bit via (hi, lo) emulation with floats avoided:
    // binary search on r (up to 64+4 bits) with multiplication in arbitrary precision (Vec<u32>)
    fn mul(a: &[u32], b: &[u32]) -> Vec<u32> {
        let mut r = vec![0u64; a.len() + b.len() + 1];
        for (i, x) in a.iter().enumerate() {
            let mut carry = 0u64;
            for (j, y) in b.iter().enumerate() {
                let t = r[i + j] + (*x as u64) * (*y as u64) + carry;
                r[i + j] = t & 0xffff_ffff;
                carry = t >> 32;
            }
            let mut kx = i + b.len();
            while carry > 0 {
                let t = r[kx] + carry;
                r[kx] = t & 0xffff_ffff;
                carry = t >> 32;
                kx += 1;
            }
        }
        let mut v: Vec<u32> = r.iter().map(|x| *x as u32).collect();
        while v.len() > 1 && *v.last().unwrap() == 0 {
            v.pop();
        }
        v
    }
    fn cmp(a: &[u32], b: &[u32]) -> std::cmp::Ordering {
        let la = a.iter().rposition(|x| *x != 0).map(|i| i + 1).unwrap_or(0);
        let lb = b.iter().rposition(|x| *x != 0).map(|i| i + 1).unwrap_or(0);
        if la != lb {
            return la.cmp(&lb);
        }
        for i in (0..la).rev() {
            if a[i] != b[i] {
                return a[i].cmp(&b[i]);
            }
        }
        std::cmp::Ordering::Equal
    }
    fn big(x: u128) -> Vec<u32> {
        vec![x as u32, (x >> 32) as u32, (x >> 64) as u32, (x >> 96) as u32]
    }
    // target = p << (k*bits)
    let shift = (k * bits) as usize;
    let mut target = vec![0u32; shift / 32 + 3];
    let pv = (p as u128) << (shift % 32);
    target[shift / 32] = pv as u32;
    target[shift / 32 + 1] = (pv >> 32) as u32;
    target[shift / 32 + 2] = (pv >> 64) as u32;
    let (mut lo, mut hi) = (0u128, 1u128 << (bits + 5));
    while hi - lo > 1 {
        let mid = (lo + hi) / 2;
        let m = big(mid);
        let mut pw = m.clone();
        for _ in 1..k {
            pw = mul(&pw, &m);
        }
        if cmp(&pw, &target) != std::cmp::Ordering::Greater {
            lo = mid;
        } else {
            hi = mid;
        }
    }
    lo & ((1u128 << bits) - 1)
}

fn k256() -> &'static (Vec<u32>, Vec<u32>) {
    static C: std::sync::OnceLock<(Vec<u32>, Vec<u32>)> = std::sync::OnceLock::new();
    C.get_or_init(|| {
        let pr = primes(64);
        (pr.iter().map(|p| root_frac(*p, 3, 32) as u32).collect(), pr[..8].iter().map(|p| root_frac(*p, 2, 32) as u32).collect())
    })
}
fn k512() -> &'static (Vec<u64>, Vec<u64>, Vec<u64>) {
    static C: std::sync::OnceLock<(Vec<u64>, Vec<u64>, Vec<u64>)> = std::sync::OnceLock::new();
    C.get_or_init(|| {
        let pr = primes(80);
        (
            pr.iter().map(|p| root_frac(*p, 3, 64) as u64).collect(),
            pr[..8].iter().map(|p| root_frac(*p, 2, 64) as u64).collect(),
            pr[8..16].iter().map(|p| root_frac(*p, 2, 64) as u64).collect(),
        )
    })
}
pub fn sha256(msg: &[u8]) -> Vec<u8> {
    let k = &k256().0;
    let mut h: Vec<u32> = k256().1.clone();
    let mut m = msg.to_vec();
    m.push(0x80);
    while m.len() % 64 != 56 {
        m.push(0);
    }
    m.extend_from_slice(&((msg.len() as u64) * 8).to_be_bytes());
    for ch in m.chunks(64) {
        let mut w = vec![0u32; 64];
        for i in 0..16 {
            w[i] = u32::from_be_bytes([ch[4 * i], ch[4 * i + 1], ch[4 * i + 2], ch[4 * i + 3]]);
        }
        for i in 16..64 {
            let s0 = w[i - 15].rotate_right(7) ^ w[i - 15].rotate_right(18) ^ (w[i - 15] >> 3);
            let s1 = w[i - 2].rotate_right(17) ^ w[i - 2].rotate_right(19) ^ (w[i - 2] >> 10);
            w[i] = w[i - 16].wrapping_add(s0).wrapping_add(w[i - 7]).wrapping_add(s1);
        }
        let mut v = h.clone();
        for i in 0..64 {
            let s1 = v[4].rotate_right(6) ^ v[4].rotate_right(11) ^ v[4].rotate_right(25);
            let chv = (v[4] & v[5]) ^ (!v[4] & v[6]);
            let t1 = v[7].wrapping_add(s1).wrapping_add(chv).wrapping_add(k[i]).wrapping_add(w[i]);
            let s0 = v[0].rotate_right(2) ^ v[0].rotate_right(13) ^ v[0].rotate_right(22);
            let maj = (v[0] & v[1]) ^ (v[0] & v[2]) ^ (v[1] & v[2]);
            let t2 = s0.wrapping_add(maj);
            v = vec![t1.wrapping_add(t2), v[0], v[1], v[2], v[3].wrapping_add(t1), v[4], v[5], v[6]];
        }
        for i in 0..8 {
            h[i] = h[i].wrapping_add(v[i]);
        }
    }
    h.iter().flat_map(|x| x.to_be_bytes()).collect()
}

fn sha512_core(msg: &[u8], init: Vec<u64>, outlen: usize) -> Vec<u8> {
    let k = &k512().0;
    let mut h = init;
    let mut m = msg.to_vec();
    m.push(0x80);
    while m.len() % 128 != 112 {
        m.push(0);
    }
    m.extend_from_slice(&((msg.len() as u128) * 8).to_be_bytes());
    for ch in m.chunks(128) {
        let mut w = vec![0u64; 80];
        for i in 0..16 {
            let mut b = [0u8; 8];
            b.copy_from_slice(&ch[8 * i..8 * i + 8]);
            w[i] = u64::from_be_bytes(b);
        }
        for i in 16..80 {
            let s0 = w[i - 15].rotate_right(1) ^ w[i - 15].rotate_right(8) ^ (w[i - 15] >> 7);
            let s1 = w[i - 2].rotate_right(19) ^ w[i - 2].rotate_right(61) ^ (w[i - 2] >> 6);
            w[i] = w[i - 16].wrapping_add(s0).wrapping_add(w[i - 7]).wrapping_add(s1);
        }
        let mut v = h.clone();
        for i in 0..80 {
            let s1 = v[4].rotate_right(14) ^ v[4].rotate_right(18) ^ v[4].rotate_right(41);
            let chv = (v[4] & v[5]) ^ (!v[4] & v[6]);
            let t1 = v[7].wrapping_add(s1).wrapping_add(chv).wrapping_add(k[i]).wrapping_add(w[i]);
            let s0 = v[0].rotate_right(28) ^ v[0].rotate_right(34) ^ v[0].rotate_right(39);
            let maj = (v[0] & v[1]) ^ (v[0] & v[2]) ^ (v[1] & v[2]);
            let t2 = s0.wrapping_add(maj);
            v = vec![t1.wrapping_add(t2), v[0], v[1], v[2], v[3].wrapping_add(t1), v[4], v[5], v[6]];
        }
        for i in 0..8 {
            h[i] = h[i].wrapping_add(v[i]);
        }
    }
    let out: Vec<u8> = h.iter().flat_map(|x| x.to_be_bytes()).collect();
    out[..outlen].to_vec()
}
pub fn sha512(msg: &[u8]) -> Vec<u8> {
    sha512_core(msg, k512().1.clone(), 64)
}
pub fn sha384(msg: &[u8]) -> Vec<u8> {
    sha512_core(msg, k512().2.clone(), 48)
}

// ------------------------------------------------------------------ AES (encryption direction only)
fn xtime(a: u8) -> u8 {
    (a << 1) ^ if a & 0x80 != 0 { 0x1b } else { 0 }
}
fn gmul(mut a: u8, mut b: u8) -> u8 {
    let mut r = 0;
    while b != 0 {
        if b & 1 != 0 {
            r ^= a;
        }
        a = xtime(a);
        b >>= 1;
    }
    r
}
fn sbox() -> [u8; 256] {
    static S: std::sync::OnceLock<[u8; 256]> = std::sync::OnceLock::new();
    *S.get_or_init(sbox_compute)
}
fn sbox_compute() -> [u8; 256] {
    let mut s = [0u8; 256];
    for x in 0..256usize {
        // multiplicative inverse by search
        let inv = if x == 0 { 0 } else { (1..=255u8).find(|y| gmul(x as u8, *y) == 1).unwrap() };
        let mut r = inv;
        for sh in 1..5 {
            r ^= inv.rotate_left(sh);
        }
        s[x] = r ^ 0x63;
    }
    s
}
pub struct AesEnc {
    rk: Vec<[u8; 16]>,
    sb: [u8; 256],
}
impl AesEnc {
    pub fn new(key: &[u8]) -> AesEnc {
        let sb = sbox();
        let nk = key.len() / 4;
        let nr = nk + 6;
        let mut w: Vec<[u8; 4]> = key.chunks(4).map(|c| [c[0], c[1], c[2], c[3]]).collect();
        let mut rcon = 1u8;
        for i in nk..4 * (nr + 1) {
            let mut t = w[i - 1];
            if i % nk == 0 {
                t = [sb[t[1] as usize] ^ rcon, sb[t[2] as usize], sb[t[3] as usize], sb[t[0] as usize]];
                rcon = xtime(rcon);
            } else if nk > 6 && i % nk == 4 {
                t = [sb[t[0] as usize], sb[t[1] as usize], sb[t[2] as usize], sb[t[3] as usize]];
            }
            let p = w[i - nk];
            w.push([p[0] ^ t[0], p[1] ^ t[1], p[2] ^ t[2], p[3] ^ t[3]]);
        }
        let rk = w
            .chunks(4)
            .map(|c| {
                let mut b = [0u8; 16];
                for (i, x) in c.iter().enumerate() {
                    b[4 * i..4 * i + 4].copy_from_slice(x);
                }
                b
            })
            .collect();
        AesEnc { rk, sb }
    }
    pub fn block(&self, input: &[u8]) -> [u8; 16] {
        let mut s = [0u8; 16];
        s.copy_from_slice(input);
        let nr = self.rk.len() - 1;
        for i in 0..16 {
            s[i] ^= self.rk[0][i];
        }
        for r in 1..=nr {
            for b in s.iter_mut() {
                *b = self.sb[*b as usize];
            }
            let t = s;
            for c in 0..4 {
                for row in 0..4 {
                    s[4 * c + row] = t[4 * ((c + row) % 4) + row];
                }
            }
            if r != nr {
                for c in 0..4 {
                    let a = [s[4 * c], s[4 * c + 1], s[4 * c + 2], s[4 * c + 3]];
                    let x = [xtime(a[0]), xtime(a[1]), xtime(a[2]), xtime(a[3])];
                    s[4 * c] = x[0] ^ (x[1] ^ a[1]) ^ a[2] ^ a[3];
                    s[4 * c + 1] = a[0] ^ x[1] ^ (x[2] ^ a[2]) ^ a[3];
                    s[4 * c + 2] = a[0] ^ a[1] ^ x[2] ^ (x[3] ^ a[3]);
                    s[4 * c + 3] = (x[0] ^ a[0]) ^ a[1] ^ a[2] ^ x[3];
                }
            }
            for i in 0..16 {
                s[i] ^= self.rk[r][i];
            }
        }
        s
    }
    /// CBC without padding (data length must be a multiple of 16)
    pub fn cbc_raw(&self, iv: &[u8], data: &[u8]) -> Vec<u8> {
        let mut prev = [0u8; 16];
        prev.copy_from_slice(iv);
        let mut out = vec![];
        for ch in data.chunks(16) {
            let mut b = [0u8; 16];
            for i in 0..16 {
                b[i] = ch[i] ^ prev[i];
            }
            prev = self.block(&b);
            out.extend_from_slice(&prev);
        }
        out
    }
    /// CBC with PKCS#7 padding
    pub fn cbc(&self, iv: &[u8], data: &[u8]) -> Vec<u8> {
        let pad = 16 - data.len() % 16;
        let mut d = data.to_vec();
        d.extend(std::iter::repeat(pad as u8).take(pad));
        self.cbc_raw(iv, &d)
    }
    pub fn ecb(&self, data: &[u8]) -> Vec<u8> {
        data.chunks(16).flat_map(|c| self.block(c)).collect()
    }
}

pub fn selftest() -> Result<(), String> {
    let h = crate::util::hex;
    let chk = |name: &str, got: String, want: &str| if got == want { Ok(()) } else { Err(format!("{name}: {got} != {want}")) };
    chk("md5", h(&md5(b"abc")), "900150983cd24fb0d6963f7d28e17f72")?;
    chk("sha256", h(&sha256(b"abc")), "ba7816bf8f01cfea414140de5dae2223b00361a396177a9cb410ff61f20015ad")?;
    chk("sha384", h(&sha384(b"abc")), "cb00753f45a35e8bb5a03d699ac65007272c32ab0eded1631a8b605a43ff5bed8086072ba1e7cc2358baeca134c825a7")?;
    chk(
        "sha512",
        h(&sha512(b"abc")),
        "ddaf35a193617abacc417349ae20413112e6fa4e89a97ea20a9eeee64b55d39a2192992a274fc1a836ba3c23a3feebbd454d4423643ce80e2a9ac94fa54ca49f",
    )?;
    chk("rc4", h(&rc4(b"Key", b"Plaintext")), "bbf316e8d940af0ad3")?;
    let k128: Vec<u8> = (0..16).collect();
    let pt = crate::util::unhex("00112233445566778899aabbccddeeff");
    chk("aes128", h(&AesEnc::new(&k128).block(&pt)), "69c4e0d86a7b0430d8cdb78070b4c55a")?;
    let k256: Vec<u8> = (0..32).collect();
    chk("aes256", h(&AesEnc::new(&k256).block(&pt)), "8ea2b7ca516745bfeafc49904b496089")?;
    Ok(())
}
