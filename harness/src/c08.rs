//! C08 — bounded decoding: the same cases as C07 (see c07.rs) run additionally through
//! PdfStream::decode_with_limit / filters::decode_stream_with_limit for every limit of the case.
pub fn run(ctx: &crate::util::Ctx) {
    crate::c07::run_with(ctx, "c08_code", true, "bounded");
}
