//! C30 — user-chosen resource names through the public API, written and re-read by the library.
//! Entry points exercised: Page::add_image + Page::draw_image (no validation on the pinned tree)
//! and Page::add_form_xobject (validated by validate_pdf_resource_name).
use crate::util::*;
use oxidize_pdf::graphics::{FormXObject, Image};
use oxidize_pdf::parser::content::{ContentOperation, ContentParser};
use oxidize_pdf::parser::objects::PdfObject;
use oxidize_pdf::parser::{PdfDocument, PdfReader};
use oxidize_pdf::{Document, Page};
use serde_json::{json, Value};
use std::io::Cursor;

#[path = "c09.rs"]
#[allow(dead_code)]
mod gen;

/// outcome: 0 = the page reads back with exactly this name as XObject key (and as the Do operand
/// when drawn); 1 = the API rejected the name; 2 = anything else (document/page/resources
/// unreadable, key missing or different, operand different)
fn run_entry(entry: &str, name: &str) -> Result<(u8, String), String> {
    let name = name.to_string();
    let entry = entry.to_string();
    catch(std::panic::AssertUnwindSafe(move || {
        let mut doc = Document::new();
        let mut page = Page::a4();
        let drawn = entry == "image";
        if entry == "image" {
            let img = match Image::from_gray_data(vec![0u8, 50, 100, 200], 2, 2) {
                Ok(i) => i,
                Err(e) => return (2, format!("image: {e:?}")),
            };
            page.add_image(name.clone(), img);
            if let Err(e) = page.draw_image(&name, 10.0, 10.0, 20.0, 20.0) {
                return (1, format!("draw_image: {e:?}"));
            }
        } else {
            let bbox = oxidize_pdf::geometry::Rectangle::from_position_and_size(0.0, 0.0, 10.0, 10.0);
            if let Err(e) = page.add_form_xobject(name.clone(), FormXObject::new(bbox)) {
                return (1, format!("add_form_xobject: {e:?}"));
            }
        }
        doc.add_page(page);
        let bytes = match doc.to_bytes() {
            Ok(b) => b,
            Err(e) => return (1, format!("to_bytes: {e:?}")),
        };
        let reader = match PdfReader::new(Cursor::new(bytes)) {
            Ok(r) => r,
            Err(e) => return (2, format!("reopen: {e:?}")),
        };
        let pd = PdfDocument::new(reader);
        let pg = match pd.get_page(0) {
            Ok(p) => p,
            Err(e) => return (2, format!("get_page: {e:?}")),
        };
        let res = match pg.get_resources() {
            Some(r) => r.clone(),
            None => return (2, "no resources".into()),
        };
        let xo = match res.get("XObject").map(|o| pd.resolve(o)) {
            Some(Ok(PdfObject::Dictionary(d))) => d,
            other => return (2, format!("XObject: {:?}", other.map(|x| x.map(|_| ())))),
        };
        let keys: Vec<String> = xo.0.keys().map(|k| k.0.clone()).collect();
        let as_latin1: String = name.bytes().map(|b| b as char).collect();
        if !(keys.len() == 1 && keys[0] == as_latin1) {
            return (2, format!("keys {:?}", keys));
        }
        if drawn {
            let streams = match pd.get_page_content_streams(&pg) {
                Ok(s) => s,
                Err(e) => return (2, format!("content: {e:?}")),
            };
            let mut ops = vec![];
            for s in &streams {
                match ContentParser::parse(s) {
                    Ok(o) => ops.extend(o),
                    Err(e) => return (2, format!("content parse: {e:?}")),
                }
            }
            let dos: Vec<String> = ops.iter().filter_map(|o| if let ContentOperation::PaintXObject(n) = o { Some(n.clone()) } else { None }).collect();
            // the content tokenizer may decode bytes as UTF-8 or Latin-1: accept either view of the same bytes
            if !(dos.len() == 1 && (dos[0] == name || dos[0] == as_latin1)) {
                return (2, format!("Do operands {:?}", dos));
            }
        }
        (0, String::new())
    }))
}

pub fn run(ctx: &Ctx) {
    let header = "From OxVerif Require Import Base.Util C09.Model C30.Model.";
    let mut out = Out::new(ctx, header, "api_case", "api_code");
    out.shard_size = 400;
    let mut emit = |out: &mut Out, entry: &str, name: &str, class: &str| {
        let js = json!({"entry":entry,"name":hex(name.as_bytes())});
        match run_entry(entry, name) {
            Ok((code, detail)) => {
                let mut js = js;
                js["outcome"] = json!(code);
                js["detail"] = json!(detail);
                js["irregular"] = json!(name.is_empty() || name.bytes().any(|b| b.is_ascii_whitespace() || b == 0 || b"/<>[](){}%#".contains(&b)));
                let coq = format!("({}, {}, {})", if entry == "image" { "EImage" } else { "EForm" }, coq_bytes(name.as_bytes()), code);
                out.push(coq, js, class, name.len() > 1);
            }
            Err(m) => out.impl_failures.push(json!({"what":"panic","msg":m,"case":js})),
        }
    };
    if let Some(cases) = ctx.replay_cases() {
        for c in cases {
            let n = String::from_utf8(unhex(c["name"].as_str().unwrap())).unwrap();
            emit(&mut out, c["entry"].as_str().unwrap(), &n, "replay");
        }
    } else {
        let fixed = ["Img1", "My Image", "A/B", "A#20", "A#", "é", "", "a(b", "a)b", "x%y", "R", "Im{1}", "tab\there", "nl\nx", "nul\0x", "日本", "A.B-C_D", "<<", "[x]", "F+1"];
        for n in fixed {
            emit(&mut out, "image", n, "fixed");
            emit(&mut out, "form", n, "fixed");
        }
        // every ASCII char inside a name
        for c in 0u8..128 {
            let n = format!("N{}m", c as char);
            emit(&mut out, "image", &n, "ascii_sweep");
            emit(&mut out, "form", &n, "ascii_sweep");
        }
        let mut r = Rng::new(ctx.seed ^ 0xC30);
        let n = if ctx.thorough() { 1500 } else { 250 };
        for i in 0..n {
            let name = if i % 2 == 0 { gen::gen_regular_name(&mut r) } else { gen::gen_irregular_name(&mut r) };
            emit(&mut out, if r.chance(1, 2) { "image" } else { "form" }, &name, if i % 2 == 0 { "random_regular" } else { "random_irregular" });
        }
    }
    out.finish("api");
}
