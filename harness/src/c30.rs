//! C30 — user-chosen resource names through the public API, written and re-read by the library.
//! Entry points exercised: Page::add_image + Page::draw_image (no validation; names are #XX-escaped
//! at emission since fix_name_escape) and Page::add_form_xobject (validated by validate_pdf_resource_name).
//! Names are compared as Rust Strings: the key of the re-read resource dictionary and the operand of
//! the re-parsed `Do` must both EQUAL the name given.
use crate::util::*;
use oxidize_pdf::graphics::{FormXObject, Image};
use oxidize_pdf::parser::content::{ContentOperation, ContentParser};
use oxidize_pdf::parser::objects::PdfObject;
use oxidize_pdf::parser::{PdfDocument, PdfReader};
use oxidize_pdf::{Document, Page};
use serde_json::{json, Value};
use std::io::Cursor;

#[path = "c09.rs"]
#[allow(dead_code)]
mod gen;

/// outcome: 0 = the page reads back with exactly this name as XObject key (and as the Do operand
/// when drawn); 1 = the API rejected the name; 2 = anything else (document/page/resources
/// unreadable, key missing or different, operand different)
fn run_entry(entry: &str, name: &str) -> Result<(u8, String), String> {
    let name = name.to_string();
    let entry = entry.to_string();
    catch(std::panic::AssertUnwindSafe(move || {
        let mut doc = Document::new();
        let mut page = Page::a4();
        let drawn = entry == "image";
        if entry == "image" {
            let img = match Image::from_gray_data(vec![0u8, 50, 100, 200], 2, 2) {
                Ok(i) => i,
                Err(e) => return (2, format!("image: {e:?}")),
            };
            page.add_image(name.clone(), img);
            if let Err(e) = page.draw_image(&name, 10.0, 10.0, 20.0, 20.0) {
                return (1, format!("draw_image: {e:?}"));
            }
        } else {
            let bbox = oxidize_pdf::geometry::Rectangle::from_position_and_size(0.0, 0.0, 10.0, 10.0);
            if let Err(e) = page.add_form_xobject(name.clone(), FormXObject::new(bbox)) {
                return (1, format!("add_form_xobject: {e:?}"));
            }
        }
        doc.add_page(page);
        let bytes = match doc.to_bytes() {
            Ok(b) => b,
            Err(e) => return (1, format!("to_bytes: {e:?}")),
        };
        let reader = match PdfReader::new(Cursor::new(bytes)) {
            Ok(r) => r,
            Err(e) => return (2, format!("reopen: {e:?}")),
        };
        let pd = PdfDocument::new(reader);
        let pg = match pd.get_page(0) {
            Ok(p) => p,
            Err(e) => return (2, format!("get_page: {e:?}")),
        };
        let res = match pg.get_resources() {
            Some(r) => r.clone(),
            None => return (2, "no resources".into()),
        };
        let xo = match res.get("XObject").map(|o| pd.resolve(o)) {
            Some(Ok(PdfObject::Dictionary(d))) => d,
            other => return (2, format!("XObject: {:?}", other.map(|x| x.map(|_| ())))),
        };
        let keys: Vec<String> = xo.0.keys().map(|k| k.0.clone()).collect();
        if !(keys.len() == 1 && keys[0] == name) {
            return (2, format!("keys {:?}", keys));
        }
        if drawn {
            let streams = match pd.get_page_content_streams(&pg) {
                Ok(s) => s,
                Err(e) => return (2, format!("content: {e:?}")),
            };
            let mut ops = vec![];
            for s in &streams {
                match ContentParser::parse(s) {
                    Ok(o) => ops.extend(o),
                    Err(e) => return (2, format!("content parse: {e:?}")),
                }
            }
            let dos: Vec<String> = ops.iter().filter_map(|o| if let ContentOperation::PaintXObject(n) = o { Some(n.clone()) } else { None }).collect();
            if !(dos.len() == 1 && dos[0] == name) {
                return (2, format!("Do operands {:?}", dos));
            }
        }
        (0, String::new())
    }))
}

pub fn run(ctx: &Ctx) {
    let header = "From OxVerif Require Import Base.Util C09.Model C30.Model.";
    let mut out = Out::new(ctx, header, "api_case", "api_code");
    out.shard_size = 400;
    let mut emit = |out: &mut Out, entry: &str, name: &str, class: &str| {
        let js = json!({"entry":entry,"name":hex(name.as_bytes())});
        match run_entry(entry, name) {
            Ok((code, detail)) => {
                let mut js = js;
                js["outcome"] = json!(code);
                js["detail"] = json!(detail);
                js["irregular"] = json!(name.is_empty() || name.bytes().any(|b| b.is_ascii_whitespace() || b == 0 || b"/<>[](){}%#".contains(&b)));
                let coq = format!("({}, {}, {})", if entry == "image" { "EImage" } else { "EForm" }, coq_bytes(name.as_bytes()), code);
                out.push(coq, js, class, name.len() > 1);
            }
            Err(m) => out.impl_failures.push(json!({"what":"panic","msg":m,"case":js})),
        }
    };
    if let Some(cases) = ctx.replay_cases() {
        for c in cases.iter().filter(|c| c.get("pages").is_none()) {
            let n = String::from_utf8(unhex(c["name"].as_str().unwrap())).unwrap();
            emit(&mut out, c["entry"].as_str().unwrap(), &n, "replay");
        }
    } else {
        let fixed = ["Img1", "My Image", "A/B", "A#20", "A#", "é", "", "a(b", "a)b", "x%y", "R", "Im{1}", "tab\there", "nl\nx", "nul\0x", "日本", "A.B-C_D", "<<", "[x]", "F+1",
                     "#", "##", "#2", "A#2", "a b c", " ", "/", "%", "x\ry", "x\u{c}y", "\u{7f}", "\u{1}\u{1f}", "A#ZZ", "A#+5", "trailing ", " leading", "a#20b#", "()<>[]{}/%#", "Fm0+x", "\u{80}", "a\u{ff}b", "😀",
                     "é中1", "caf\u{e9}", "\u{7ff}", "\u{800}", "\u{d7ff}", "\u{e000}", "\u{ffff}", "\u{10000}", "\u{10ffff}", "Ã©", "é é", "日#本", "😀/x"];
        for n in fixed {
            emit(&mut out, "image", n, "fixed");
            emit(&mut out, "form", n, "fixed");
        }
        // every ASCII char inside a name
        for c in 0u8..128 {
            let n = format!("N{}m", c as char);
            emit(&mut out, "image", &n, "ascii_sweep");
            emit(&mut out, "form", &n, "ascii_sweep");
        }
        // names with 2-, 3- and 4-byte UTF-8 sequences (every Rust String is valid UTF-8: a name that is not
        // cannot be passed to the API; bytes that are not UTF-8 reach the reader only from a file: C09 channel lex)
        let mut ru = Rng::new(ctx.seed ^ 0x07F8);
        let nu = if ctx.thorough() { 300 } else { 60 };
        for k in 2..=4usize {
            for i in 0..nu {
                let name = gen::gen_utf8_name(&mut ru, k);
                emit(&mut out, if i % 2 == 0 { "image" } else { "form" }, &name, &format!("utf8_{k}byte"));
            }
        }
        let mut r = Rng::new(ctx.seed ^ 0xC30);
        let n = if ctx.thorough() { 1500 } else { 250 };
        for i in 0..n {
            let name = if i % 2 == 0 { gen::gen_regular_name(&mut r) } else { gen::gen_irregular_name(&mut r) };
            emit(&mut out, if r.chance(1, 2) { "image" } else { "form" }, &name, if i % 2 == 0 { "random_regular" } else { "random_irregular" });
        }
    }
    out.finish("api");
    run_pages(ctx);
}

// ---------------------------------------------------------------- channel pages
// Multi-page documents in which the SAME (regular) user-chosen name is registered on several
// pages for DIFFERENT resources.  A resource name is scoped to its page: on every page the name
// must resolve to the resource registered on THAT page.  Case = per (page, name): the marker
// (stream bytes) registered there and the decoded stream bytes the name resolves to after
// writing and re-opening; the judgement (found = Some expected, for all) is made in Coq.
#[derive(Clone, Debug)]
struct Res {
    kind: String, // "rgb" | "gray" | "form"
    name: String,
    w: u32,
    h: u32,
    data: Vec<u8>, // pixel bytes, or the form's content operators
}
fn res_json(r: &Res) -> Value {
    json!({"kind":r.kind,"name":hex(r.name.as_bytes()),"w":r.w,"h":r.h,"data":hex(&r.data)})
}
fn res_from(v: &Value) -> Res {
    Res {
        kind: v["kind"].as_str().unwrap().to_string(),
        name: String::from_utf8(unhex(v["name"].as_str().unwrap())).unwrap(),
        w: v["w"].as_u64().unwrap() as u32,
        h: v["h"].as_u64().unwrap() as u32,
        data: unhex(v["data"].as_str().unwrap()),
    }
}

/// Ok(per page, per resource: found decoded bytes or None) / Err(why the document could not be built or read)
fn run_pages_doc(pages: &[Vec<Res>]) -> Result<Result<Vec<Vec<Option<Vec<u8>>>>, String>, String> {
    let pages = pages.to_vec();
    catch(std::panic::AssertUnwindSafe(move || {
        use oxidize_pdf::graphics::ColorSpace;
        let mut doc = Document::new();
        for rs in &pages {
            let mut page = Page::a4();
            for (k, r) in rs.iter().enumerate() {
                match r.kind.as_str() {
                    "form" => {
                        let bbox = oxidize_pdf::geometry::Rectangle::from_position_and_size(0.0, 0.0, 10.0, 10.0);
                        let ops = String::from_utf8(r.data.clone()).map_err(|e| format!("{e}"))?;
                        page.add_form_xobject(r.name.clone(), FormXObject::from_graphics_ops(bbox, &ops)).map_err(|e| format!("add_form_xobject: {e:?}"))?;
                    }
                    kind => {
                        let cs = if kind == "rgb" { ColorSpace::DeviceRGB } else { ColorSpace::DeviceGray };
                        page.add_image(r.name.clone(), Image::from_raw_data(r.data.clone(), r.w, r.h, cs, 8));
                        page.draw_image(&r.name, 20.0 + 30.0 * k as f64, 20.0, 25.0, 25.0).map_err(|e| format!("draw_image: {e:?}"))?;
                    }
                }
            }
            doc.add_page(page);
        }
        let bytes = doc.to_bytes().map_err(|e| format!("to_bytes: {e:?}"))?;
        let reader = PdfReader::new(Cursor::new(bytes)).map_err(|e| format!("reopen: {e:?}"))?;
        let pd = PdfDocument::new(reader);
        let mut all = vec![];
        for (i, rs) in pages.iter().enumerate() {
            let pg = pd.get_page(i as u32).map_err(|e| format!("get_page {i}: {e:?}"))?;
            let xo = match pg.get_resources().and_then(|r| r.get("XObject")).map(|o| pd.resolve(o)) {
                Some(Ok(PdfObject::Dictionary(d))) => Some(d),
                _ => None,
            };
            // syntactic check kept: every drawn image name is the operand of a Do on this page
            let mut dos: Vec<String> = vec![];
            if let Ok(streams) = pd.get_page_content_streams(&pg) {
                for s in &streams {
                    if let Ok(ops) = ContentParser::parse(s) {
                        dos.extend(ops.iter().filter_map(|o| if let ContentOperation::PaintXObject(n) = o { Some(n.clone()) } else { None }));
                    }
                }
            }
            let mut found = vec![];
            for r in rs {
                let drawn_ok = r.kind == "form" || dos.iter().any(|d| *d == r.name);
                let f = xo.as_ref().and_then(|d| d.get(&r.name)).and_then(|o| pd.resolve(o).ok()).and_then(|o| match o {
                    PdfObject::Stream(st) => st.decode(&oxidize_pdf::parser::ParseOptions::default()).ok(),
                    _ => None,
                });
                found.push(if drawn_ok { f } else { None });
            }
            all.push(found);
        }
        Ok(all)
    }))
}

fn emit_pages(out: &mut Out, pages: &[Vec<Res>], class: &str) {
    let js = json!({"pages": pages.iter().map(|p| p.iter().map(res_json).collect::<Vec<_>>()).collect::<Vec<_>>()});
    match run_pages_doc(pages) {
        Ok(Ok(found)) => {
            let mut items = vec![];
            for (i, (rs, fs)) in pages.iter().zip(&found).enumerate() {
                for (r, f) in rs.iter().zip(fs) {
                    items.push(format!("({}, {}, {}, {})", i, coq_bytes(r.name.as_bytes()), coq_bytes(&r.data), coq_opt(f.as_ref().map(|b| coq_bytes(b)))));
                }
            }
            let shared = pages.iter().flatten().map(|r| &r.name).collect::<std::collections::HashSet<_>>().len() < pages.iter().flatten().count();
            out.push(coq_list(items), js, class, shared && pages.len() >= 2);
        }
        Ok(Err(m)) => out.impl_failures.push(json!({"what":format!("multi-page document could not be written/read: {m}"),"case":js})),
        Err(m) => out.impl_failures.push(json!({"what":"panic","msg":m,"case":js})),
    }
}

fn run_pages(ctx: &Ctx) {
    let header = "From OxVerif Require Import Base.Util C09.Model C30.Model.";
    let mut out = Out::new(ctx, header, "list page_res", "pages_code");
    out.shard_size = 150;
    if let Some(cases) = ctx.replay_cases() {
        for c in cases.iter().filter(|c| c.get("pages").is_some()) {
            let pages: Vec<Vec<Res>> = c["pages"].as_array().unwrap().iter().map(|p| p.as_array().unwrap().iter().map(res_from).collect()).collect();
            emit_pages(&mut out, &pages, "replay");
        }
        out.finish("pages");
        return;
    }
    let mut r = Rng::new(ctx.seed ^ 0x9A6E5);
    let reg_name = |r: &mut Rng| -> String {
        // regular, validator-accepted ASCII names (form XObjects are gated)
        loop {
            let n = gen::gen_regular_name(r);
            if !n.is_empty() && n.bytes().all(|b| (0x21..0x7f).contains(&b) && !b"/<>[](){}%#".contains(&b)) {
                return n;
            }
        }
    };
    // any non-empty ASCII name, with white space / delimiters / '#' / controls (images are not gated; escaped at emission)
    let irr_name = |r: &mut Rng| -> String {
        loop {
            let n: String = gen::gen_irregular_name(r).chars().filter(|c| c.is_ascii()).collect();
            if !n.is_empty() {
                return n;
            }
        }
    };
    let pixels = |r: &mut Rng, kind: &str, w: u32, h: u32| -> Vec<u8> {
        let n = (w * h) as usize * if kind == "rgb" { 3 } else { 1 };
        if r.chance(1, 3) {
            vec![r.next() as u8; n] // solid colour
        } else {
            r.bytes(n)
        }
    };
    let form_ops = |r: &mut Rng| -> Vec<u8> { format!("0.{} 0 0 rg 0 0 {} {} re f", r.range(1, 9), r.range(1, 9), r.range(1, 9)).into_bytes() };
    // non-ASCII names (2-, 3-, 4-byte sequences) made of validator-accepted chars: usable for images and form XObjects
    let utf8_name = |r: &mut Rng| -> String {
        let mut cs: Vec<char> = reg_name(r).chars().collect();
        let k = r.range(2, 4) as usize;
        let pos = r.below(cs.len() as u64 + 1) as usize;
        cs.insert(pos, gen::gen_utf8_char(r, k));
        cs.into_iter().collect()
    };
    let n = if ctx.thorough() { 600 } else { 120 };
    for i in 0..n {
        let np = r.range(2, 4) as usize;
        let images_only = matches!(i % 6, 0 | 1 | 2 | 4);
        let nonascii = (i / 6) % 2 == 1;
        let name = if nonascii { utf8_name(&mut r) } else if i % 5 == 0 { "Im1".to_string() } else if images_only && r.chance(1, 2) { irr_name(&mut r) } else { reg_name(&mut r) };
        let name2 = loop {
            let x = if nonascii && r.chance(1, 2) { utf8_name(&mut r) } else if images_only && r.chance(1, 2) { irr_name(&mut r) } else { reg_name(&mut r) };
            if x != name {
                break x;
            }
        };
        let (w, h) = (r.range(1, 5) as u32, r.range(1, 5) as u32);
        let kind = if r.chance(2, 3) { "rgb" } else { "gray" };
        let mut pages: Vec<Vec<Res>> = vec![];
        let class;
        match i % 6 {
            // the same name on every page, different pictures of equal size
            0 | 1 => {
                class = "same_name_images_equal_size";
                for _ in 0..np {
                    pages.push(vec![Res { kind: kind.into(), name: name.clone(), w, h, data: pixels(&mut r, kind, w, h) }]);
                }
            }
            // the same name, different sizes
            2 => {
                class = "same_name_images_other_size";
                for p in 0..np {
                    let (w2, h2) = (w + p as u32, h);
                    pages.push(vec![Res { kind: kind.into(), name: name.clone(), w: w2, h: h2, data: pixels(&mut r, kind, w2, h2) }]);
                }
            }
            // the same name for different form XObjects
            3 => {
                class = "same_name_forms";
                for _ in 0..np {
                    pages.push(vec![Res { kind: "form".into(), name: name.clone(), w: 0, h: 0, data: form_ops(&mut r) }]);
                }
            }
            // two names per page, exchanged from page to page; some pages repeat an earlier picture
            4 => {
                class = "two_names_exchanged";
                let a = pixels(&mut r, kind, w, h);
                let b = pixels(&mut r, kind, w, h);
                for p in 0..np {
                    let (x, y) = if p % 2 == 0 { (a.clone(), b.clone()) } else { (b.clone(), a.clone()) };
                    pages.push(vec![
                        Res { kind: kind.into(), name: name.clone(), w, h, data: x },
                        Res { kind: kind.into(), name: name2.clone(), w, h, data: y },
                    ]);
                }
            }
            // image on one page, form XObject under the same name on the next, image again
            _ => {
                class = "same_name_image_and_form";
                for p in 0..np {
                    if p % 2 == 0 {
                        pages.push(vec![Res { kind: kind.into(), name: name.clone(), w, h, data: pixels(&mut r, kind, w, h) }]);
                    } else {
                        pages.push(vec![Res { kind: "form".into(), name: name.clone(), w: 0, h: 0, data: form_ops(&mut r) }]);
                    }
                }
            }
        }
        let class = if nonascii { format!("{class}_utf8name") } else { class.to_string() };
        emit_pages(&mut out, &pages, &class);
    }
    out.finish("pages");
}
