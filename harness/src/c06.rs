//! C06 — interoperation with an independent implementation (the Gallina reference C06/RefDecrypt.v).
//!   l2i / lkey : files written by the LIBRARY; the raw objects found by the independent scanner and
//!                the /Encrypt entries go to Coq, whose RefDecrypt must recover the plaintext / file key
//!   i2l / ikey : files written by the harness's OWN encryptor (c06_crypto.rs: ISO algorithms written
//!                out here, nothing from the library's encryption module); the library must open them
//!                and return the plaintext objects; Coq re-checks the encryptor's output against RefDecrypt.
#[path = "c06_crypto.rs"]
pub mod crypto;
use crate::c05::tree::*;
use crate::c05::{self, coq_obool, coq_obytes, enc_params, find_trailer, has_skipped_string, EncParams, Spec};
use crate::util::*;
use crypto::*;
use serde_json::{json, Value};

pub const HEADER: &str = "From OxVerif Require Import Base.Util C05.EncryptLayer C05.Check C06.RefDecrypt.\nRequire Import List NArith String. Import ListNotations.\nOpen Scope string_scope.";

fn cps(s: &str) -> Vec<u32> {
    s.chars().map(|c| c as u32).collect()
}
fn coq_cps(s: &str) -> String {
    let v = cps(s);
    let mut o = String::new();
    for c in v {
        o.push_str(&format!("{} :: ", c));
    }
    o.push_str("nil");
    format!("({})", o)
}
fn ikey_coq(e: &EncParams, pw: &str, fkey: &[u8], ok: Option<bool>, key: Option<&Vec<u8>>) -> String {
    format!(
        "({}, {}, {}, {}, {}, {}, {}, {}, {}, {}, {}, {}, {})",
        e.r, e.n, coq_bytes(&e.o), coq_bytes(&e.u), coq_bytes(&e.oe), coq_bytes(&e.ue), e.p, coq_bytes(&e.id), coq_bool(e.encmeta), coq_cps(pw), coq_bytes(fkey),
        coq_obool(ok), coq_obytes(key)
    )
}

// ------------------------------------------------------------------ direction library -> independent
fn marker_class(plain: &T) -> bool {
    // the library's writer puts /Filter /Crypt on a stream without /Filter and appends it to a filter array
    match plain {
        T::Stream(_, _) => !matches!(plain.get("Filter"), Some(T::Name(_))),
        _ => false,
    }
}
fn stream_dict_string(plain: &T) -> bool {
    match plain {
        T::Stream(d, _) => d.iter().any(|(_, v)| v.has_payload()),
        _ => false,
    }
}

fn l2i_doc(spec: &Spec, lkey: &mut Out, l2i: &mut Out) {
    let js = |ch: &str, extra: Value| {
        let mut v = spec.json();
        v["ch"] = json!(ch);
        if let Value::Object(m) = extra {
            for (k, x) in m {
                v[k] = x;
            }
        }
        v
    };
    let w1 = match c05::write(spec, true) {
        Ok(w) => w,
        Err(_) => {
            l2i.count("write-failed");
            return;
        }
    };
    let raws = scan_objects(&w1.bytes);
    let trailer = find_trailer(&w1.bytes, &raws);
    let encd = match w1.plain.iter().find(|(_, _, t, a)| !*a && t.get("O").is_some() && t.get("U").is_some()) {
        Some(e) => e.clone(),
        None => return,
    };
    // the reference reads the /Encrypt dictionary FROM THE FILE (raw scanner), not from the hook
    let enc_raw = raws.iter().find(|(n, g, _)| *n == encd.0 && *g == encd.1).map(|(_, _, t)| t.clone());
    let ep = match &enc_raw {
        Some(t) => enc_params(t, trailer.as_ref()),
        None => {
            l2i.impl_failures.push(json!({"case": js("l2i", json!({})), "what": "the /Encrypt dictionary is not a direct object of the file"}));
            return;
        }
    };
    if !matches!(trailer.as_ref().and_then(|t| t.get("Encrypt")), Some(T::Ref(_, _))) {
        l2i.impl_failures.push(json!({"case": js("l2i", json!({})), "what": "trailer / xref-stream dictionary has no /Encrypt reference"}));
        return;
    }
    // the file key as the library itself recovers it (user password)
    let rb = c05::read_back(&w1.bytes, &spec.user, &[], false);
    let fkey = match (&rb.unlock, &rb.key) {
        (Some(true), Some(k)) => k.clone(),
        _ => {
            l2i.count("library-cannot-open-its-own-file");
            return;
        }
    };
    let cls = format!("s{}-c{}", spec.strength, spec.cfg);
    for (kind, pw) in [(0u64, &spec.user), (1, &spec.owner)] {
        lkey.push(
            ikey_coq(&ep, pw, &fkey, Some(true), Some(&fkey)),
            js("lkey", json!({"kind": kind, "r": ep.r, "nonascii": !pw.is_ascii(), "pwlen": pw.len()})),
            &format!("{}-k{}", cls, kind),
            true,
        );
    }
    for (n, g, plain, active) in w1.plain.iter() {
        if !*active {
            continue;
        }
        let raw = match raws.iter().find(|(rn, rg, _)| rn == n && rg == g) {
            Some((_, _, t)) => t.clone(),
            None => continue, // member of an object stream: the stream itself is a case
        };
        if plain.size() + raw.size() > 3500 || !plain.has_payload() {
            continue;
        }
        l2i.push(
            format!("({}, {}, {}, {}, {}, {}, {})", ep.meth, coq_bool(ep.encmeta), coq_bytes(&fkey), n, g, plain.coq(), raw.coq()),
            js("l2i", json!({"obj": n, "marker": marker_class(plain), "skipkey": has_skipped_string(plain), "dictstr": stream_dict_string(plain)})),
            &cls,
            true,
        );
    }
}

// ------------------------------------------------------------------ direction independent -> library
const PAD: [u8; 32] = [
    0x28, 0xBF, 0x4E, 0x5E, 0x4E, 0x75, 0x8A, 0x41, 0x64, 0x00, 0x4E, 0x56, 0xFF, 0xFA, 0x01, 0x08, 0x2E, 0x2E, 0x00, 0xB6, 0xD0, 0x68, 0x3E, 0x80, 0x2F, 0x0C, 0xA9, 0xFE, 0x64,
    0x53, 0x69, 0x7A,
];
/// PDFDocEncoding of a password made of ASCII and Latin-1 letters (what the generator uses)
fn pdfdoc(s: &str) -> Vec<u8> {
    s.chars().map(|c| if (c as u32) < 256 { c as u32 as u8 } else { b'?' }).collect()
}
fn pad32(pw: &[u8]) -> Vec<u8> {
    let mut v = pw.to_vec();
    v.extend_from_slice(&PAD);
    v.truncate(32);
    v
}
fn xor_key(k: &[u8], i: u8) -> Vec<u8> {
    k.iter().map(|b| b ^ i).collect()
}
/// Algorithm 3: O
fn alg3(r: u64, n: usize, owner: &[u8], user: &[u8]) -> Vec<u8> {
    let opw = if owner.is_empty() { user } else { owner };
    let mut h = md5(&pad32(opw));
    if r >= 3 {
        for _ in 0..50 {
            h = md5(&h);
        }
    }
    let key = &h[..n];
    let mut x = rc4(key, &pad32(user));
    if r >= 3 {
        for i in 1..=19u8 {
            x = rc4(&xor_key(key, i), &x);
        }
    }
    x
}
/// Algorithm 2: file key
fn alg2(r: u64, n: usize, user: &[u8], o: &[u8], p: u32, id: &[u8], encmeta: bool) -> Vec<u8> {
    let mut d = pad32(user);
    d.extend_from_slice(o);
    d.extend_from_slice(&p.to_le_bytes());
    d.extend_from_slice(id);
    if r >= 4 && !encmeta {
        d.extend_from_slice(&[0xff; 4]);
    }
    let mut h = md5(&d);
    if r >= 3 {
        for _ in 0..50 {
            h = md5(&h[..n]);
        }
    }
    h[..n].to_vec()
}
/// Algorithm 4 / 5: U
fn alg45(r: u64, key: &[u8], id: &[u8]) -> Vec<u8> {
    if r == 2 {
        rc4(key, &PAD)
    } else {
        let mut d = PAD.to_vec();
        d.extend_from_slice(id);
        let mut x = rc4(key, &md5(&d));
        for i in 1..=19u8 {
            x = rc4(&xor_key(key, i), &x);
        }
        x.extend_from_slice(&[0u8; 16]);
        x
    }
}
/// where an Algorithm 2.B evaluation stopped: number of rounds done, last byte of E in that round,
/// and whether some earlier round >= 64 missed the stopping test by exactly one (last == round - 31)
#[derive(Clone, Copy, Debug, Default)]
pub struct Stop {
    pub round: u32,
    pub last: u32,
    pub cont31: bool,
}
impl Stop {
    /// last - (round - 32): 0 = stopped exactly on the boundary `last_byte == round - 32`
    pub fn margin(&self) -> i64 {
        self.last as i64 - (self.round as i64 - 32)
    }
    fn json(&self) -> Value {
        json!([self.round, self.last, self.cont31])
    }
}
/// Algorithm 2.B (ISO 32000-2 7.6.4.3.4), with the stopping information
fn alg2b_info(pw: &[u8], salt: &[u8], u: &[u8]) -> (Vec<u8>, Stop) {
    let mut d = pw.to_vec();
    d.extend_from_slice(salt);
    d.extend_from_slice(u);
    let mut k = sha256(&d);
    let mut round = 0u32;
    let mut cont31 = false;
    loop {
        let mut k1 = vec![];
        for _ in 0..64 {
            k1.extend_from_slice(pw);
            k1.extend_from_slice(&k);
            k1.extend_from_slice(u);
        }
        let e = AesEnc::new(&k[..16]).cbc_raw(&k[16..32], &k1);
        let m: u32 = e[..16].iter().map(|b| *b as u32).sum::<u32>() % 3;
        k = match m {
            0 => sha256(&e),
            1 => sha384(&e),
            _ => sha512(&e),
        };
        round += 1;
        let last = *e.last().unwrap() as u32;
        if round >= 64 && last <= round - 32 {
            return (k[..32].to_vec(), Stop { round, last, cont31 });
        }
        if round >= 64 && last == round - 31 {
            cont31 = true;
        }
    }
}
fn alg2b(pw: &[u8], salt: &[u8], u: &[u8]) -> Vec<u8> {
    alg2b_info(pw, salt, u).0
}
/// draw 8-byte salts until the 2.B evaluation satisfies `want` (0 none; 1 stops with last == round-32;
/// 2 last == round-33; 3 a round missed the test by one, last == round-31); None after 4000 draws
fn search_salt(pw: &[u8], u: &[u8], want: u64, rng: &mut Rng) -> (Vec<u8>, Vec<u8>, Stop, bool) {
    let mut tries = 0;
    loop {
        let salt = rng.bytes(8);
        let (h, st) = alg2b_info(pw, &salt, u);
        let ok = match want {
            1 => st.margin() == 0,
            2 => st.margin() == -1,
            3 => st.cont31,
            _ => true,
        };
        tries += 1;
        if ok || tries >= 4000 {
            return (salt, h, st, ok);
        }
    }
}

#[derive(Clone, Debug)]
pub struct ISpec {
    pub mode: u64, // 0 R2, 1 R3, 2 R4-RC4, 3 R4-AESV2, 4 R6-AESV3
    pub encmeta: bool,
    pub objstm: bool,
    pub user: String,
    pub owner: String,
    pub perm: u32,
    pub seed: u64,
    pub open_as: u64, // 0 user password, 1 owner password
    pub mass: bool,   // one of the many small R6 files (channel r6): opened with BOTH passwords
    pub bsearch: u64, // R6: 10*slot + want; slot 1 user validation salt, 2 user key salt, 3 owner validation salt, 4 owner key salt; want as in search_salt
}
impl ISpec {
    fn json(&self) -> Value {
        json!({"mode": self.mode, "encmeta": self.encmeta, "objstm": self.objstm, "user": self.user, "owner": self.owner, "perm": self.perm, "seed": self.seed, "open_as": self.open_as, "mass": self.mass, "bsearch": self.bsearch, "i2l": true})
    }
    fn from(v: &Value) -> ISpec {
        ISpec {
            mode: v["mode"].as_u64().unwrap_or(1),
            encmeta: v["encmeta"].as_bool().unwrap_or(true),
            objstm: v["objstm"].as_bool().unwrap_or(false),
            user: v["user"].as_str().unwrap_or("").into(),
            owner: v["owner"].as_str().unwrap_or("").into(),
            perm: v["perm"].as_u64().unwrap_or(0xFFFF_F0C4) as u32,
            seed: v["seed"].as_u64().unwrap_or(1),
            open_as: v["open_as"].as_u64().unwrap_or(0),
            mass: v["mass"].as_bool().unwrap_or(false),
            bsearch: v["bsearch"].as_u64().unwrap_or(0),
        }
    }
}

fn d(e: Vec<(&str, T)>) -> Vec<(Vec<u8>, T)> {
    let mut v: Vec<(Vec<u8>, T)> = e.into_iter().map(|(k, v)| (k.as_bytes().to_vec(), v)).collect();
    v.sort_by(|a, b| a.0.cmp(&b.0));
    v
}
fn nmt(s: &str) -> T {
    T::Name(s.as_bytes().to_vec())
}
fn st(s: &str) -> T {
    T::Str(s.as_bytes().to_vec())
}
fn num(i: i64) -> T {
    T::Num(i.to_string())
}

struct Built {
    bytes: Vec<u8>,
    ep: EncParams,
    fkey: Vec<u8>,
    direct: Vec<(u32, T, T)>,  // num, plain, encrypted-as-written
    members: Vec<(u32, T)>,    // num, plain (as it stands in the object stream)
    stops: Vec<Stop>,          // R6: user validation, user key, owner validation, owner key
    h2b: Option<(Vec<u8>, Vec<u8>, Vec<u8>, Vec<u8>, Stop)>, // the searched 2.B evaluation: pw, salt, u, hash
    found: bool,
}

fn ref_encrypt_obj(meth: u64, fkey: &[u8], onum: u32, encmeta: bool, o: &T, rng: &mut Rng) -> T {
    fn okey(meth: u64, fkey: &[u8], onum: u32) -> Vec<u8> {
        if meth == 2 {
            return fkey.to_vec();
        }
        let mut dd = fkey.to_vec();
        dd.extend_from_slice(&onum.to_le_bytes()[..3]);
        dd.extend_from_slice(&[0, 0]);
        if meth == 1 {
            dd.extend_from_slice(b"sAlT");
        }
        md5(&dd)[..(fkey.len() + 5).min(16)].to_vec()
    }
    fn enc(meth: u64, k: &[u8], x: &[u8], rng: &mut Rng) -> Vec<u8> {
        if meth == 0 {
            rc4(k, x)
        } else {
            let iv = rng.bytes(16);
            let mut out = iv.clone();
            out.extend_from_slice(&AesEnc::new(k).cbc(&iv, x));
            out
        }
    }
    fn walk(meth: u64, k: &[u8], encmeta: bool, o: &T, rng: &mut Rng) -> T {
        match o {
            T::Str(s) => T::Str(enc(meth, k, s, rng)),
            T::Arr(a) => T::Arr(a.iter().map(|x| walk(meth, k, encmeta, x, rng)).collect()),
            T::Dict(dd) => T::Dict(dd.iter().map(|(kk, v)| (kk.clone(), walk(meth, k, encmeta, v, rng))).collect()),
            T::Stream(dd, data) => {
                let is = |key: &str, val: &str| matches!(o.get(key), Some(T::Name(n)) if n == val.as_bytes());
                let clear = is("Type", "XRef") || (!encmeta && is("Type", "Metadata"));
                let nd: Vec<(Vec<u8>, T)> = dd.iter().map(|(kk, v)| (kk.clone(), walk(meth, k, encmeta, v, rng))).collect();
                let ndata = if clear { data.clone() } else { enc(meth, k, data, rng) };
                let mut nd: Vec<(Vec<u8>, T)> = nd.into_iter().filter(|(kk, _)| kk != b"Length").collect();
                nd.push((b"Length".to_vec(), num(ndata.len() as i64)));
                nd.sort_by(|a, b| a.0.cmp(&b.0));
                T::Stream(nd, ndata)
            }
            other => other.clone(),
        }
    }
    let k = okey(meth, fkey, onum);
    walk(meth, &k, encmeta, o, rng)
}
fn with_length(o: &T) -> T {
    match o {
        T::Stream(dd, data) => {
            let mut nd: Vec<(Vec<u8>, T)> = dd.iter().filter(|(k, _)| k != b"Length").cloned().collect();
            nd.push((b"Length".to_vec(), num(data.len() as i64)));
            nd.sort_by(|a, b| a.0.cmp(&b.0));
            T::Stream(nd, data.clone())
        }
        other => other.clone(),
    }
}

fn build(s: &ISpec) -> Built {
    let mut rng = Rng::new(s.seed ^ 0xC06);
    let id = rng.bytes(16);
    let (r, v, n, meth): (u64, i64, usize, u64) = match s.mode {
        0 => (2, 1, 5, 0),
        1 => (3, 2, 16, 0),
        2 => (4, 4, 16, 0),
        3 => (4, 4, 16, 1),
        _ => (6, 5, 32, 2),
    };
    let encmeta = s.encmeta || r < 4;
    // ---- plaintext objects
    let content = b"BT /F1 12 Tf 50 700 Td (Hello independent world) Tj ET".to_vec();
    let xmp = b"<?xpacket begin='' id='W5M0MpCehiHzreSzNTczkc9d'?><x:xmpmeta xmlns:x='adobe:ns:meta/'><rdf:RDF xmlns:rdf='http://www.w3.org/1999/02/22-rdf-syntax-ns#'/></x:xmpmeta><?xpacket end='w'?>".to_vec();
    let mut objs: Vec<(u32, T)> = vec![
        (1, T::Dict(d(vec![("Type", nmt("Catalog")), ("Pages", T::Ref(2, 0)), ("Metadata", T::Ref(8, 0)), ("Lang", st("en-GB")),
            ("AcroForm", T::Dict(d(vec![("DA", st("/Helv 0 Tf 0 g")), ("Fields", T::Arr(vec![T::Dict(d(vec![("FT", nmt("Tx")), ("T", st("inline field")), ("V", st("inline value"))]))]))])))]))),
        (2, T::Dict(d(vec![("Type", nmt("Pages")), ("Kids", T::Arr(vec![T::Ref(3, 0)])), ("Count", num(1))]))),
        (
            3,
            T::Dict(d(vec![
                ("Type", nmt("Page")),
                ("Parent", T::Ref(2, 0)),
                ("MediaBox", T::Arr(vec![num(0), num(0), num(612), num(792)])),
                ("Contents", T::Ref(4, 0)),
                ("Annots", T::Arr(vec![T::Ref(6, 0)])),
                ("Resources", T::Dict(d(vec![("Font", T::Dict(d(vec![("F1", T::Dict(d(vec![("Type", nmt("Font")), ("Subtype", nmt("Type1")), ("BaseFont", nmt("Helvetica"))])))])))]))),
            ])),
        ),
        (4, T::Stream(d(vec![]), content)),
        (5, T::Dict(d(vec![("Title", st("Interop title (with parens)")), ("Author", st("sixteen bytes!!!")), ("Keywords", st(""))]))),
        (
            6,
            T::Dict(d(vec![
                ("Type", nmt("Annot")),
                ("Subtype", nmt("Text")),
                ("Rect", T::Arr(vec![num(10), num(10), num(30), num(30)])),
                ("Contents", st("annotation text")),
                ("RC", T::Arr(vec![st("in array"), T::Dict(d(vec![("Deep", st("nested dict in array"))]))])),
                // arrays whose elements are ONLY dictionaries (strings at depth 1, 2, 3)
                (
                    "Kids",
                    T::Arr(vec![
                        T::Dict(d(vec![("T", st("kid one")), ("V", st("value one"))])),
                        T::Dict(d(vec![("T", st("kid two")), ("Sub", T::Dict(d(vec![("D2", st("depth two")), ("Deeper", T::Dict(d(vec![("D3", st("depth three"))])))])))])),
                    ]),
                ),
                // numbers / names / references + a dictionary, no direct string or array sibling
                ("Mix", T::Arr(vec![num(1), nmt("Name"), T::Ref(3, 0), T::Dict(d(vec![("S", st("dictionary among numbers and names"))]))])),
                // a single-dictionary array inside a dictionary inside an array of dictionaries
                ("Nest", T::Arr(vec![T::Dict(d(vec![("Inner", T::Arr(vec![T::Dict(d(vec![("Leaf", st("leaf in inner dict array"))]))]))]))])),
            ])),
        ),
        // a stream whose DICTIONARY holds strings (embedded-file parameters)
        (7, T::Stream(d(vec![("Type", nmt("EmbeddedFile")), ("Params", T::Dict(d(vec![("ModDate", st("D:20240101000000Z")), ("Size", num(3))])))]), b"abc".to_vec())),
        (8, T::Stream(d(vec![("Type", nmt("Metadata")), ("Subtype", nmt("XML"))]), xmp)),
    ];
    let member_objs: Vec<(u32, T)> = vec![
        (10, T::Dict(d(vec![("Kind", nmt("Member")), ("Text", st("string inside an object stream")), ("Arr", T::Arr(vec![st("second"), num(7)]))]))),
        (11, T::Arr(vec![st("top-level array member"), T::Ref(10, 0)])),
    ];
    if s.objstm {
        // 9 = the object stream
        let mut body = vec![];
        let mut head = String::new();
        for (num_, t) in &member_objs {
            head.push_str(&format!("{} {} ", num_, body.len()));
            t.write(&mut body);
            body.push(b'\n');
        }
        let mut data = head.clone().into_bytes();
        data.extend_from_slice(&body);
        let comp = deflate(&data);
        objs.push((9, T::Stream(d(vec![("Type", nmt("ObjStm")), ("N", num(member_objs.len() as i64)), ("First", num(head.len() as i64)), ("Filter", nmt("FlateDecode"))]), comp)));
    }
    // ---- encryption parameters
    let p = s.perm;
    let (upw, opw): (Vec<u8>, Vec<u8>) = if r <= 4 { (pdfdoc(&s.user), pdfdoc(&s.owner)) } else { (s.user.as_bytes().to_vec(), s.owner.as_bytes().to_vec()) };
    let mut ep = EncParams { r, n: n as u64, p, id: id.clone(), encmeta, meth, ..Default::default() };
    let fkey;
    let mut stops = vec![];
    let mut h2b = None;
    let mut found = true;
    if r <= 4 {
        ep.o = alg3(r, n, &opw, &upw);
        fkey = alg2(r, n, &upw, &ep.o, p, &id, encmeta);
        ep.u = alg45(r, &fkey, &id);
    } else {
        fkey = rng.bytes(32);
        let upw = &upw[..upw.len().min(127)];
        let opw = &opw[..opw.len().min(127)];
        let (slot, want) = ((s.bsearch % 100) / 10, s.bsearch % 10);
        let w = |k: u64| if slot == k { want } else { 0 };
        let (uv, uh, s1, f1) = search_salt(upw, &[], w(1), &mut rng);
        let (uk, ukh, s2, f2) = search_salt(upw, &[], w(2), &mut rng);
        let mut u = uh.clone();
        u.extend_from_slice(&uv);
        u.extend_from_slice(&uk);
        ep.ue = AesEnc::new(&ukh).cbc_raw(&[0u8; 16], &fkey);
        let (ov, oh, s3, f3) = search_salt(opw, &u, w(3), &mut rng);
        let (ok_, okh, s4, f4) = search_salt(opw, &u, w(4), &mut rng);
        let mut o = oh.clone();
        o.extend_from_slice(&ov);
        o.extend_from_slice(&ok_);
        ep.oe = AesEnc::new(&okh).cbc_raw(&[0u8; 16], &fkey);
        stops = vec![s1, s2, s3, s4];
        found = f1 && f2 && f3 && f4;
        h2b = match slot {
            1 => Some((upw.to_vec(), uv.clone(), vec![], uh, s1)),
            2 => Some((upw.to_vec(), uk.clone(), vec![], ukh, s2)),
            3 => Some((opw.to_vec(), ov.clone(), u.clone(), oh, s3)),
            4 => Some((opw.to_vec(), ok_.clone(), u.clone(), okh, s4)),
            _ => None,
        };
        ep.u = u;
        ep.o = o;
        let mut pp = p.to_le_bytes().to_vec();
        pp.extend_from_slice(&[0xff; 4]);
        pp.push(if encmeta { b'T' } else { b'F' });
        pp.extend_from_slice(b"adb");
        pp.extend_from_slice(&rng.bytes(4));
        ep.perms = AesEnc::new(&fkey).ecb(&pp);
    }
    let mut encd = vec![("Filter", nmt("Standard")), ("V", num(v)), ("R", num(r as i64)), ("O", T::Str(ep.o.clone())), ("U", T::Str(ep.u.clone())), ("P", num(p as i32 as i64))];
    if v >= 2 {
        encd.push(("Length", num(n as i64 * 8)));
    }
    if v >= 4 {
        let cfm = ["V2", "V2", "V2", "AESV2", "AESV3"][s.mode as usize];
        encd.push(("CF", T::Dict(d(vec![("StdCF", T::Dict(d(vec![("CFM", nmt(cfm)), ("AuthEvent", nmt("DocOpen")), ("Length", num(if r >= 5 { 32 } else { 16 }))])))]))));
        encd.push(("StmF", nmt("StdCF")));
        encd.push(("StrF", nmt("StdCF")));
        if !s.encmeta {
            encd.push(("EncryptMetadata", T::Bool(false)));
        }
    }
    if r >= 5 {
        encd.push(("OE", T::Str(ep.oe.clone())));
        encd.push(("UE", T::Str(ep.ue.clone())));
        encd.push(("Perms", T::Str(ep.perms.clone())));
    }
    let enc_num = 12u32;
    // ---- serialise
    let mut out = b"%PDF-1.7\n%\xE2\xE3\xCF\xD3\n".to_vec();
    let mut offsets: std::collections::BTreeMap<u32, usize> = Default::default();
    let mut direct = vec![];
    for (num_, t) in &objs {
        let plain = with_length(t);
        let e = ref_encrypt_obj(meth, &fkey, *num_, encmeta, &plain, &mut rng);
        offsets.insert(*num_, out.len());
        out.extend_from_slice(format!("{} 0 obj\n", num_).as_bytes());
        e.write(&mut out);
        out.extend_from_slice(b"\nendobj\n");
        direct.push((*num_, plain, e));
    }
    offsets.insert(enc_num, out.len());
    out.extend_from_slice(format!("{} 0 obj\n", enc_num).as_bytes());
    T::Dict(d(encd)).write(&mut out);
    out.extend_from_slice(b"\nendobj\n");
    let idt = T::Arr(vec![T::Str(id.clone()), T::Str(id.clone())]);
    let startxref;
    if s.objstm {
        // cross-reference stream (never encrypted), object 13
        let xnum = 13u32;
        startxref = out.len();
        offsets.insert(xnum, startxref);
        let mut rows = vec![];
        for i in 0..=xnum {
            let (t, a, b): (u8, u32, u16) = if i == 0 {
                (0, 0, 65535)
            } else if let Some(pos) = member_objs.iter().position(|(m, _)| *m == i) {
                (2, 9, pos as u16)
            } else if let Some(o) = offsets.get(&i) {
                (1, *o as u32, 0)
            } else {
                (0, 0, 0)
            };
            rows.push(t);
            rows.extend_from_slice(&a.to_be_bytes());
            rows.extend_from_slice(&b.to_be_bytes());
        }
        let comp = deflate(&rows);
        let xd = d(vec![
            ("Type", nmt("XRef")),
            ("Size", num(xnum as i64 + 1)),
            ("W", T::Arr(vec![num(1), num(4), num(2)])),
            ("Root", T::Ref(1, 0)),
            ("Info", T::Ref(5, 0)),
            ("Encrypt", T::Ref(enc_num, 0)),
            ("ID", idt),
            ("Filter", nmt("FlateDecode")),
            ("Length", num(comp.len() as i64)),
        ]);
        out.extend_from_slice(format!("{} 0 obj\n", xnum).as_bytes());
        T::Stream(xd, comp).write(&mut out);
        out.extend_from_slice(b"\nendobj\n");
    } else {
        startxref = out.len();
        let size = enc_num + 1;
        out.extend_from_slice(format!("xref\n0 {}\n", size).as_bytes());
        for i in 0..size {
            match offsets.get(&i) {
                Some(o) => out.extend_from_slice(format!("{:010} 00000 n \n", o).as_bytes()),
                None => out.extend_from_slice(if i == 0 { b"0000000000 65535 f \n" } else { b"0000000000 00000 f \n" }),
            }
        }
        out.extend_from_slice(b"trailer\n");
        T::Dict(d(vec![("Size", num(size as i64)), ("Root", T::Ref(1, 0)), ("Info", T::Ref(5, 0)), ("Encrypt", T::Ref(enc_num, 0)), ("ID", idt)])).write(&mut out);
        out.push(b'\n');
    }
    out.extend_from_slice(format!("startxref\n{}\n%%EOF\n", startxref).as_bytes());
    Built { bytes: out, ep, fkey, direct, members: if s.objstm { member_objs } else { vec![] }, stops, h2b, found }
}

fn i2l_doc(s: &ISpec, ikey: &mut Out, i2l: &mut Out, r6: &mut Out, h2b: &mut Out) {
    let b = build(s);
    let js = |ch: &str, extra: Value| {
        let mut v = s.json();
        v["ch"] = json!(ch);
        if let Value::Object(m) = extra {
            for (k, x) in m {
                v[k] = x;
            }
        }
        v
    };
    // the raw objects are re-read from the bytes by the scanner (what is judged is the FILE)
    let raws = scan_objects(&b.bytes);
    if s.mass {
        mass_doc(s, &b, &raws, &js, r6, i2l, h2b);
        return;
    }
    let mut ids: Vec<(u32, u16)> = b.direct.iter().map(|(n, _, _)| (*n, 0u16)).collect();
    ids.extend(b.members.iter().map(|(n, _)| (*n, 0u16)));
    // Algorithm 3 (a): without an owner password the user password takes its place
    let pw = if s.open_as == 0 || s.owner.is_empty() { &s.user } else { &s.owner };
    let rb = c05::read_back(&b.bytes, pw, &ids, false);
    let cls = format!("m{}{}{}", s.mode, if s.encmeta { "" } else { "-nometa" }, if s.objstm { "-objstm" } else { "" });
    if let Err(e) = &rb.opened {
        i2l.impl_failures.push(json!({"case": js("i2l", json!({})), "what": format!("the library does not open the file: {e}")}));
        return;
    }
    ikey.push(
        ikey_coq(&b.ep, pw, &b.fkey, rb.unlock, rb.key.as_ref()),
        js("ikey", json!({"r": b.ep.r, "nonascii": !pw.is_ascii(), "pwlen": pw.len(), "lib_ok": rb.unlock})),
        &format!("{}-open{}", cls, s.open_as),
        rb.unlock == Some(true),
    );
    if rb.unlock != Some(true) {
        return;
    }
    push_objs(&b, &raws, &ids, &rb, &cls, &js, i2l);
}

fn push_objs(b: &Built, raws: &[(u32, u16, T)], ids: &[(u32, u16)], rb: &c05::ReadBack, cls: &str, js: &dyn Fn(&str, Value) -> Value, i2l: &mut Out) {
    for (i, (n, _g)) in ids.iter().enumerate() {
        let lib = rb.objects.get(i).map(|(_, _, r)| r.clone()).unwrap_or(Err("missing".into()));
        let (flags, plain, raw) = match b.direct.iter().find(|(dn, _, _)| dn == n) {
            Some((_, plain, _)) => match raws.iter().find(|(rn, _, _)| rn == n) {
                Some((_, _, t)) => (0u64, plain.clone(), t.clone()),
                None => continue,
            },
            None => {
                let m = b.members.iter().find(|(mn, _)| mn == n).unwrap().1.clone();
                (1, m.clone(), m)
            }
        };
        let is = |key: &str, val: &str| matches!(plain.get(key), Some(T::Name(nn)) if nn == val.as_bytes());
        i2l.push(
            format!(
                "({}, {}, {}, {}, 0, {}, {}, {}, {})",
                b.ep.meth, coq_bool(b.ep.encmeta), coq_bytes(&b.fkey), n, flags, plain.coq(), raw.coq(), coq_opt(lib.as_ref().ok().map(|t| t.coq()))
            ),
            js("i2l", json!({"obj": n, "member": flags, "dictstr": stream_dict_string(&plain), "clearmeta": !b.ep.encmeta && is("Type", "Metadata"), "lib_err": lib.as_ref().err()})),
            cls,
            plain.has_payload(),
        );
    }
}


/// one of the many small revision-6 files: both passwords must open it and give the file key; the
/// stopping round / last byte of each of the encryptor's four Algorithm 2.B evaluations is reported
fn mass_doc(s: &ISpec, b: &Built, raws: &[(u32, u16, T)], js: &dyn Fn(&str, Value) -> Value, r6: &mut Out, i2l: &mut Out, h2b: &mut Out) {
    let ids: Vec<(u32, u16)> = vec![(1, 0), (5, 0), (6, 0)];
    let margins: Vec<i64> = b.stops.iter().map(|x| x.margin()).collect();
    let cls = if !b.found {
        "boundary-not-found"
    } else if margins.iter().any(|m| *m == 0) {
        "stop-on-boundary(last=round-32)"
    } else if margins.iter().any(|m| *m == -1) {
        "stop-last=round-33"
    } else if b.stops.iter().any(|x| x.cont31) {
        "passed-last=round-31"
    } else {
        "other"
    };
    let stops: Vec<Value> = b.stops.iter().map(|x| x.json()).collect();
    if s.bsearch >= 100 {
        if let Some((pw, salt, u, h, st)) = &b.h2b {
            h2b.push(
                format!("({}, {}, {}, {})", coq_bytes(pw), coq_bytes(salt), coq_bytes(u), coq_bytes(h)),
                js("h2b", json!({"stop": st.json(), "margin": st.margin()})),
                &format!("margin{}{}", st.margin(), if st.cont31 { "-cont31" } else { "" }),
                true,
            );
        }
    }
    for (role, pw) in [(0u64, &s.user), (1, &s.owner)] {
        if role == 1 && (s.owner.is_empty() || s.owner == s.user) {
            continue;
        }
        let rb = c05::read_back(&b.bytes, pw, &ids, false);
        if let Err(e) = &rb.opened {
            r6.impl_failures.push(json!({"case": js("r6", json!({"role": role})), "what": format!("the library does not open the file: {e}")}));
            continue;
        }
        r6.push(
            format!("({}, {}, {})", coq_bytes(&b.fkey), coq_obool(rb.unlock), coq_obytes(rb.key.as_ref())),
            js("r6", json!({"role": role, "lib_ok": rb.unlock, "stops": stops, "margins": margins})),
            &format!("{}-role{}", cls, role),
            true,
        );
        if rb.unlock == Some(true) && (role == 0 || s.bsearch != 0) {
            push_objs(b, raws, &ids, &rb, "m4-mass", js, i2l);
        }
    }
}

pub fn run(ctx: &Ctx) {
    if let Err(e) = selftest() {
        eprintln!("c06_crypto self-test failed: {e}");
        std::process::exit(3);
    }
    let mut lkey = Out::new(ctx, HEADER, "ikey_case", "ikey_code");
    let mut l2i = Out::new(ctx, HEADER, "l2i_case", "l2i_code");
    let mut ikey = Out::new(ctx, HEADER, "ikey_case", "ikey_code");
    let mut i2l = Out::new(ctx, HEADER, "i2l_case", "i2l_code");
    let mut r6 = Out::new(ctx, HEADER, "r6open_case", "r6open_code");
    let mut h2b = Out::new(ctx, HEADER, "h2b_case", "h2b_code");
    r6.shard_size = 400;
    h2b.shard_size = 1; // one Algorithm 2.B evaluation inside Coq per shard
    lkey.shard_size = 10;
    l2i.shard_size = 30;
    ikey.shard_size = 1; // revision 6 (Algorithm 2.B) takes minutes inside Coq
    i2l.shard_size = 30;
    let (lspecs, ispecs): (Vec<Spec>, Vec<ISpec>) = match ctx.replay_cases() {
        Some(cases) => {
            let mut seen = std::collections::HashSet::new();
            let mut l = vec![];
            let mut i = vec![];
            for c in &cases {
                if c["i2l"].as_bool() == Some(true) {
                    let s = ISpec::from(c);
                    if seen.insert(s.json().to_string()) {
                        i.push(s);
                    }
                } else {
                    let s = Spec::from(c);
                    if seen.insert(s.json().to_string()) {
                        l.push(s);
                    }
                }
            }
            (l, i)
        }
        None => {
            let mut rng = Rng::new(ctx.seed ^ 0xC06);
            // library -> independent: classic and xref-stream configurations, one object-stream one
            let mut l = vec![];
            let reps = if ctx.thorough() { 3 } else { 1 };
            for _ in 0..reps {
                for strength in 0..4u64 {
                    for cfg in [0u64, 1, 2] {
                        let (user, owner) = c05::passwords(&mut rng);
                        let mut doc = c05_sample(&mut rng);
                        if rng.chance(1, 6) {
                            doc["label"] = json!("A-");
                        }
                        l.push(Spec { doc, strength, cfg, user, owner, perm: 0xFFFF_F0C4 });
                    }
                }
                let (user, owner) = c05::passwords(&mut rng);
                l.push(Spec { doc: c05_sample(&mut rng), strength: rng.below(4), cfg: 4, user, owner, perm: 0xFFFF_FFFC });
            }
            // independent -> library
            let pws = ["", "user", "own(er", "caf\u{e9}", "0123456789012345678901234567890123456789"];
            let mut i = vec![];
            for mode in 0..4u64 {
                for (k, (encmeta, objstm)) in [(true, false), (false, false), (true, true), (false, true)].iter().enumerate() {
                    if (mode < 2 && !encmeta) || (!ctx.thorough() && k == 3) {
                        continue;
                    }
                    let user = pws[rng.below(pws.len() as u64) as usize].to_string();
                    let mut owner = pws[rng.below(pws.len() as u64) as usize].to_string();
                    if owner == user {
                        owner.push_str("-o");
                    }
                    i.push(ISpec { mode, encmeta: *encmeta, objstm: *objstm, user, owner, perm: 0xFFFF_F0C4, seed: rng.next() % 100000, open_as: rng.below(2), mass: false, bsearch: 0 });
                }
            }
            // revision 6: Algorithm 2.B costs minutes per evaluation inside Coq -> very few key cases
            i.push(ISpec { mode: 4, encmeta: true, objstm: true, user: "us\u{e9}r".into(), owner: "owner".into(), perm: 0xFFFF_F0C4, seed: rng.next() % 100000, open_as: 0, mass: false, bsearch: 0 });
            if ctx.thorough() {
                i.push(ISpec { mode: 4, encmeta: false, objstm: false, user: "".into(), owner: "owner".into(), perm: 0xFFFF_FFFC, seed: rng.next() % 100000, open_as: 1, mass: false, bsearch: 0 });
            }
            // many small revision-6 files from the harness's own Algorithm 2.B: searched salts put an
            // evaluation exactly on the stopping boundary (last byte == round - 32), one below it and one
            // round that misses it by one, for the user and the owner side; the rest are random pairs
            let searched: Vec<u64> = if ctx.thorough() { vec![111, 112, 113, 21, 31, 41, 22, 32, 42, 23, 33, 43] } else { vec![111, 21, 31, 41, 12, 33] };
            let nmass = if ctx.thorough() { 150 } else { 48 };
            let alphabet: Vec<char> = "abcXYZ019 ()\u{e9}\u{20ac}".chars().collect();
            for k in 0..nmass {
                let mut word = |rng: &mut Rng, lo: u64, hi: u64| -> String { (0..rng.range(lo, hi)).map(|_| *rng.pick(&alphabet)).collect() };
                let user = if k % 7 == 6 { String::new() } else { word(&mut rng, 1, 8) };
                let mut owner = word(&mut rng, 1, 10);
                if owner == user {
                    owner.push('o');
                }
                let bsearch = searched.get(k).copied().unwrap_or(0);
                i.push(ISpec { mode: 4, encmeta: true, objstm: false, user, owner, perm: 0xFFFF_F0C4, seed: rng.next() % 1000000, open_as: 0, mass: true, bsearch });
            }
            (l, i)
        }
    };
    for s in &lspecs {
        l2i_doc(s, &mut lkey, &mut l2i);
    }
    for s in &ispecs {
        i2l_doc(s, &mut ikey, &mut i2l, &mut r6, &mut h2b);
    }
    lkey.finish("lkey");
    l2i.finish("l2i");
    ikey.finish("ikey");
    i2l.finish("i2l");
    r6.finish("r6");
    h2b.finish("h2b");
}

fn c05_sample(rng: &mut Rng) -> Value {
    let titles = ["Quarterly report", "(paren) \\ back", "", "sixteen bytes!!!", "A longer title that exceeds sixteen bytes so that AES needs two blocks"];
    let t = titles[rng.below(titles.len() as u64) as usize];
    json!({"title": t, "author": "Author", "subject": Value::Null, "keywords": Value::Null,
           "pages": [{"text": ["Hello 0 world", "Hello 1 (x)"], "annots": [["note", "subject"]], "fields": if rng.chance(1,2) { json!(["f0"]) } else { json!([]) }, "combo": ["opt (a)", "second option"]}]})
}
