//! C15 end-to-end observation: author a multi-page document through the library, write it,
//! parse it back, run rag_chunks*, and check content / page provenance / breadcrumbs / determinism.
//! The partitioning of text into elements is NOT modelled; it is only observed here, on documents
//! written so that the partitioner's heuristics have nothing to guess (single column, Helvetica,
//! 10 pt body, 14/18/24 pt headings, every word of the document distinct, generous spacing,
//! no colons / bullets / digits, nothing in the header or footer zone).
use super::*;

const POOL: &[&str] = &[
    "amber", "birch", "cedar", "delta", "ember", "fjord", "grove", "haven", "islet", "jolly", "kayak", "lemon", "maple", "noble", "ocean", "pearl",
    "quilt", "river", "stone", "tulip", "umbra", "vivid", "willow", "xenon", "yonder", "zephyr",
];
fn word(n: usize) -> String {
    // pool word + letters encoding n: every word of a document is distinct
    let mut s = POOL[n % POOL.len()].to_string();
    let mut k = n / POOL.len();
    loop {
        s.push((b'a' + (k % 26) as u8) as char);
        k /= 26;
        if k == 0 {
            break;
        }
    }
    s
}
fn cap(s: &str) -> String {
    let mut c = s.chars();
    match c.next() {
        Some(f) => f.to_uppercase().collect::<String>() + c.as_str(),
        None => String::new(),
    }
}

/// generated spec: {"ch":"e2e","pages":[[block..]..],"cfg":{..}}; block = {"h":level,"t":text} | {"p":[lines]}
pub fn gen_spec(r: &mut Rng) -> Value {
    let mut n = r.below(500) as usize;
    let mut next = || {
        n += 1;
        word(n)
    };
    let npages = r.range(1, 4);
    let mut pages: Vec<Vec<Value>> = vec![];
    let top = r.range(1, 2); // shallowest heading level used by this document
    let mut started = false;
    for pi in 0..npages {
        let mut blocks = vec![];
        let mut budget = 620.0f64;
        // a page may start with body text continuing the running section (page break inside a section)
        let cont = pi > 0 && r.chance(3, 4);
        let mut first = true;
        while budget > 120.0 {
            let want_heading = if first { !(cont && started) } else { r.chance(2, 5) };
            if first && !started && r.chance(1, 6) {
                // preamble paragraph before any heading
            } else if want_heading {
                let lvl = if !started { top } else { r.range(top, 3) };
                started = true;
                let t = format!("{} {}", cap(&next()), cap(&next()));
                blocks.push(json!({"h": lvl, "t": t}));
                budget -= 60.0;
            }
            first = false;
            let nparas = r.range(1, 3);
            for _ in 0..nparas {
                let nlines = r.range(1, 3);
                let mut lines = vec![];
                for li in 0..nlines {
                    let nw = r.range(5, 8);
                    let mut ws: Vec<String> = (0..nw).map(|_| next()).collect();
                    if li == nlines - 1 || r.chance(1, 3) {
                        let l = ws.len() - 1;
                        ws[l].push('.');
                    }
                    lines.push(ws.join(" "));
                }
                budget -= 13.0 * nlines as f64 + 22.0;
                blocks.push(json!({ "p": lines }));
            }
            if r.chance(1, 4) {
                break;
            }
        }
        pages.push(blocks);
    }
    let cfg = json!({
        "entry": *r.pick(&["plain", "with", "with", "source"]),
        "max_tokens": *r.pick(&[12u64, 30, 64, 512]),
        "mode": *r.pick(&["none", "heading", "labeled", "prose"]),
    });
    json!({"ch":"e2e","pages":pages,"cfg":cfg})
}

/// tie family: one heading, then 2-3 (x1-2) single-line paragraphs of exactly equal character count, each in a
/// different standard font (or size), optionally split by a page break; with max_tokens 512 they merge into one
/// chunk whose dominant_font / dominant_font_size is a tie.  Only run-to-run identity is demanded of these documents
/// (no tie-break is documented, and font-dependent layout heuristics are not this family's subject).
pub fn gen_tie_spec(r: &mut Rng) -> Value {
    const FONTS: [&str; 4] = ["Helvetica", "Times-Roman", "Courier", "Helvetica-Bold"];
    let five: Vec<&str> = POOL.iter().copied().filter(|w| w.len() == 5).collect();
    let mut n = r.below(200) as usize;
    let mut w6 = || {
        n += 1;
        format!("{}{}", five[n % five.len()], (b'a' + ((n / five.len()) % 26) as u8) as char)
    };
    let nf = r.range(2, 3) as usize;
    let per = r.range(1, 2) as usize;
    let nw = r.range(4, 6) as usize;
    let by_size = r.chance(1, 3);
    let off = r.below(4) as usize;
    let mut paras: Vec<Value> = vec![];
    for j in 0..nf * per {
        let fi = j % nf;
        let mut ws: Vec<String> = (0..nw).map(|_| w6()).collect();
        let l = ws.len() - 1;
        ws[l].push('.');
        if by_size {
            paras.push(json!({"p":[ws.join(" ")], "f":"Helvetica", "s": 10.0 + fi as f64}));
        } else {
            paras.push(json!({"p":[ws.join(" ")], "f": FONTS[(fi + off) % 4]}));
        }
    }
    let split = if r.chance(1, 2) { r.range(1, paras.len() as u64 - 1) as usize } else { paras.len() };
    let mut p0 = vec![json!({"h": 1, "t": format!("{} {}", cap(&w6()), cap(&w6()))})];
    p0.extend(paras[..split].iter().cloned());
    let mut pages = vec![p0];
    if split < paras.len() {
        pages.push(paras[split..].to_vec());
    }
    let cfg = json!({"entry": *r.pick(&["plain", "with", "source"]), "max_tokens": 512, "mode": *r.pick(&["none", "heading", "labeled", "prose"])});
    json!({"ch":"e2e","tie":true,"pages":pages,"cfg":cfg})
}

struct Block {
    page: u32,
    heading: bool,
    words: Vec<String>,
    crumb: Vec<String>,
}
fn blocks_of(spec: &Value) -> Vec<Block> {
    let mut stack: Vec<(u64, String)> = vec![];
    let mut out = vec![];
    for (pi, pg) in spec["pages"].as_array().unwrap().iter().enumerate() {
        for b in pg.as_array().unwrap() {
            if let Some(h) = b.get("h") {
                let lvl = h.as_u64().unwrap();
                let t = b["t"].as_str().unwrap().to_string();
                while stack.last().map_or(false, |(l, _)| *l >= lvl) {
                    stack.pop();
                }
                stack.push((lvl, t.clone()));
                out.push(Block { page: pi as u32, heading: true, words: norm_words(&t), crumb: stack.iter().map(|x| x.1.clone()).collect() });
            } else {
                let text: Vec<String> = b["p"].as_array().unwrap().iter().map(|l| l.as_str().unwrap().to_string()).collect();
                out.push(Block { page: pi as u32, heading: false, words: norm_words(&text.join(" ")), crumb: stack.iter().map(|x| x.1.clone()).collect() });
            }
        }
    }
    out
}

pub struct Verdict {
    pub pages: Vec<(Vec<u32>, Vec<u32>)>, // per chunk: pages of the authored blocks its words come from (in order), implementation's page_numbers
    pub once: bool,
    pub crumbs: bool,
    pub determ: bool,
    pub diag: Vec<String>,
    pub cross_page_only: bool, // every breadcrumb mismatch concerns a chunk whose governing headings start on an earlier page
}

fn first_diff(a: &str, b: &str) -> String {
    let (ca, cb): (Vec<char>, Vec<char>) = (a.chars().collect(), b.chars().collect());
    let i = ca.iter().zip(&cb).position(|(x, y)| x != y).unwrap_or(ca.len().min(cb.len()));
    let lo = i.saturating_sub(60);
    format!("{:?} vs {:?}", ca[lo..(i + 40).min(ca.len())].iter().collect::<String>(), cb[lo..(i + 40).min(cb.len())].iter().collect::<String>())
}
fn ser(chunks: &[RagChunk]) -> String {
    format!("{:?}", chunks)
}

pub fn evaluate(ctx: &Ctx, spec: &Value, idx: usize) -> Result<Verdict, String> {
    let bytes = author(spec)?;
    let doc = open_doc(&bytes)?;
    let chunks = run_chunks(&doc, &spec["cfg"])?;
    let blocks = blocks_of(spec);
    let mut wm: WordMap = HashMap::new();
    for (bi, b) in blocks.iter().enumerate() {
        for w in &b.words {
            wm.insert(w.clone(), bi);
        }
    }
    let mut diag = vec![];
    // (a) every authored word exactly once, nothing else
    let mut seen: HashMap<String, usize> = HashMap::new();
    let mut all_words: Vec<String> = vec![];
    for c in &chunks {
        for w in norm_words(&c.text) {
            *seen.entry(w.clone()).or_insert(0) += 1;
            all_words.push(w);
        }
    }
    let mut once = true;
    for b in &blocks {
        for w in &b.words {
            match seen.get(w) {
                Some(1) => {}
                other => {
                    once = false;
                    if diag.len() < 6 {
                        diag.push(format!("word {w:?} of the block on page {} appears {} times", b.page, other.copied().unwrap_or(0)));
                    }
                }
            }
        }
    }
    for w in &all_words {
        if !wm.contains_key(w) {
            once = false;
            if diag.len() < 6 {
                diag.push(format!("chunk text contains {w:?}, which was not authored"));
            }
        }
    }
    // (b) every paragraph intact (contiguous, in order) in the concatenation of the chunk texts
    for b in &blocks {
        if !b.heading && !all_words.windows(b.words.len()).any(|w| w == &b.words[..]) {
            once = false;
            if diag.len() < 6 {
                diag.push(format!("paragraph starting {:?} on page {} is not contiguous in the chunk texts", b.words[0], b.page));
            }
        }
    }
    // (c) pages, (d) breadcrumbs
    let mut pages = vec![];
    let mut crumbs = true;
    let mut cross_page_only = true;
    for c in &chunks {
        let ws = norm_words(&c.text);
        let mut bl: Vec<usize> = vec![];
        for w in &ws {
            if let Some(bi) = wm.get(w) {
                if bl.last() != Some(bi) {
                    bl.push(*bi);
                }
            }
        }
        pages.push((bl.iter().map(|bi| blocks[*bi].page).collect::<Vec<u32>>(), c.page_numbers.clone()));
        if let Some(first) = bl.first() {
            let want = &blocks[*first].crumb;
            if &c.metadata.heading_path != want {
                crumbs = false;
                // does the expected breadcrumb contain a heading authored on an earlier page than this chunk's first block?
                let pg = blocks[*first].page;
                let earlier = want.iter().any(|h| blocks.iter().any(|b| b.heading && b.words == norm_words(h) && b.page < pg));
                if !earlier {
                    cross_page_only = false;
                }
                if diag.len() < 6 {
                    diag.push(format!("chunk {} (page {}) has heading_path {:?}, authored structure says {:?}", c.chunk_index, pg, c.metadata.heading_path, want));
                }
            }
        }
    }
    let tie = spec["tie"].as_bool().unwrap_or(false);
    if tie {
        // font-dependent layout is not this family's subject: only run-to-run identity is demanded
        once = true;
        crumbs = true;
        cross_page_only = true;
        pages.clear();
        diag.clear();
    }
    // (e) determinism: repeated runs in this process (same document and fresh parses), one run in a child process.
    // HashMap/HashSet iteration order is random per instance, so an order-dependent aggregate needs several
    // repetitions to show; the full serialisation (text, pages, ids, links, every metadata aggregate) is compared.
    let s1 = ser(&chunks);
    let mut determ = true;
    let reps = if tie { 24 } else { 6 };
    for k in 0..reps {
        let sk = if k % 4 == 3 { ser(&run_chunks(&open_doc(&bytes)?, &spec["cfg"])?) } else { ser(&run_chunks(&doc, &spec["cfg"])?) };
        if sk != s1 {
            determ = false;
            diag.push(format!("repetition {} of {} serialises differently from the first run (metadata included): {}", k + 1, reps, first_diff(&s1, &sk)));
            break;
        }
    }
    let doc2 = open_doc(&bytes)?;
    let s2 = ser(&run_chunks(&doc2, &spec["cfg"])?);
    if s1 != s2 {
        determ = false;
        diag.push("second in-process run serialises differently".into());
    }
    let s1b = ser(&run_chunks(&doc, &spec["cfg"])?);
    if s1 != s1b {
        determ = false;
        diag.push("second run on the same PdfDocument serialises differently".into());
    }
    let p = ctx.out.join(format!("child_{idx}.json"));
    std::fs::write(&p, serde_json::to_string(&json!({"pdf": hex(&bytes), "cfg": spec["cfg"]})).unwrap()).map_err(|e| e.to_string())?;
    let exe = std::env::current_exe().map_err(|e| e.to_string())?;
    let o = std::process::Command::new(exe).args(["c15", "--child", p.to_str().unwrap()]).output().map_err(|e| e.to_string())?;
    let _ = std::fs::remove_file(&p);
    let s3 = String::from_utf8_lossy(&o.stdout).to_string();
    if s3 != s1 {
        determ = false;
        diag.push(format!("run in a second process serialises differently (child exit {:?})", o.status.code()));
    }
    Ok(Verdict { pages, once, crumbs, determ, diag, cross_page_only })
}

pub fn child(path: &str) {
    let v: Value = serde_json::from_str(&std::fs::read_to_string(path).expect("child input")).expect("json");
    let bytes = unhex(v["pdf"].as_str().unwrap());
    let doc = open_doc(&bytes).expect("open");
    let chunks = run_chunks(&doc, &v["cfg"]).expect("chunks");
    print!("{}", ser(&chunks));
}

pub fn emit(ctx: &Ctx, out: &mut Out, spec: &Value, class: &str) {
    let idx = out.coq_cases.len();
    let spec_c = spec.clone();
    let res = catch(std::panic::AssertUnwindSafe(|| evaluate(ctx, &spec_c, idx)));
    let mut js = json!({"ch":"e2e","pages":spec["pages"],"cfg":spec["cfg"]});
    if spec["tie"].as_bool().unwrap_or(false) {
        js["tie"] = json!(true);
    }
    match res {
        Ok(Ok(v)) => {
            let coq = format!(
                "({}, ({}, {}, {}))",
                coq_list(v.pages.iter().map(|(a, b)| format!("({}, {})", coq_list(a.iter().map(|p| p.to_string())), coq_list(b.iter().map(|p| p.to_string()))))),
                coq_bool(v.once),
                coq_bool(v.crumbs),
                coq_bool(v.determ)
            );
            if !v.diag.is_empty() {
                js["diag"] = json!(v.diag);
                js["cross_page_only"] = json!(v.cross_page_only);
            }
            let multi = v.pages.iter().any(|(a, _)| a.iter().collect::<BTreeSet<_>>().len() >= 2);
            let npages = spec["pages"].as_array().unwrap().len();
            out.push(coq, js, class, npages >= 2 && multi);
        }
        Ok(Err(m)) => out.impl_failures.push(json!({"what": format!("authored document could not be written/read/chunked: {m}"), "case": js})),
        Err(m) => out.impl_failures.push(json!({"what":"panic in the document-to-chunks pipeline","msg":m,"case":js})),
    }
}

pub fn generate(ctx: &Ctx, r: &mut Rng, out: &mut Out, n: usize) {
    for _ in 0..(n / 2).max(12) {
        let spec = gen_tie_spec(r);
        emit(ctx, out, &spec, "tie_fonts_or_sizes");
    }
    for _ in 0..n {
        let spec = gen_spec(r);
        let np = spec["pages"].as_array().unwrap().len();
        emit(ctx, out, &spec, &format!("pages{np}_{}", spec["cfg"]["entry"].as_str().unwrap()));
    }
}

pub fn scratch(ctx: &Ctx) {
    let mut r = Rng::new(ctx.seed);
    let spec = match ctx.replay_cases() {
        Some(c) => c[0].clone(),
        None if ctx.flag("--tie") => gen_tie_spec(&mut r),
        None => gen_spec(&mut r),
    };
    println!("{}", serde_json::to_string_pretty(&spec).unwrap());
    let bytes = author(&spec).unwrap();
    let doc = open_doc(&bytes).unwrap();
    for e in doc.partition().unwrap() {
        println!("EL {} p{} font={:?} fs={:?} path={:?} text={:?}", e.type_name(), e.page(), e.metadata().font_name, e.metadata().font_size, e.metadata().heading_path, e.text());
    }
    for c in run_chunks(&doc, &spec["cfg"]).unwrap() {
        println!("CH {} pages={:?} id={} path={:?} types={:?} dom={:?}/{:?}\n   text={:?}", c.chunk_index, c.page_numbers, c.metadata.chunk_id, c.metadata.heading_path, c.element_types, c.metadata.dominant_font, c.metadata.dominant_font_size, c.text);
    }
    let v = evaluate(ctx, &spec, 0).unwrap();
    println!("once={} crumbs={} determ={} cross_page_only={} diag={:#?}", v.once, v.crumbs, v.determ, v.cross_page_only, v.diag);
}
