//! C12, CFF part — VALIDATED per output, nothing proved.  The subsetter emits a CID-keyed raw CFF whose
//! charstrings are desubroutinized, so "unchanged" is judged on the charstring with subroutine calls inlined:
//! the harness's own INDEX/DICT reader locates CharStrings / Private / Subrs in the ORIGINAL and in the SUBSET,
//! the original charstring is inlined with the library's `desubroutinize` (trusted here, named in the notes),
//! the subset's charstring must be byte-identical to it, contain no callsubr/callgsubr operator, and the
//! width-bearing Private DICT entries (defaultWidthX / nominalWidthX) must be unchanged.  Coq compares the
//! extracted byte strings per requested character.
use crate::util::*;
use oxidize_pdf::text::fonts::cff::charstring::desubroutinize;
use oxidize_pdf::text::fonts::cff::index::{parse_cff_index, CffIndex};
use oxidize_pdf::text::fonts::truetype_subsetter::subset_font;
use serde_json::json;
use std::collections::{BTreeMap, HashSet};

/// own INDEX reader: (items as ranges, end offset)
fn index(d: &[u8], pos: usize) -> Result<(Vec<(usize, usize)>, usize), String> {
    let cnt = u16::from_be_bytes(d.get(pos..pos + 2).ok_or("INDEX count")?.try_into().unwrap()) as usize;
    if cnt == 0 {
        return Ok((vec![], pos + 2));
    }
    let os = *d.get(pos + 2).ok_or("offSize")? as usize;
    if !(1..=4).contains(&os) {
        return Err(format!("offSize {os}"));
    }
    let rd = |i: usize| -> Result<usize, String> {
        let b = d.get(pos + 3 + i * os..pos + 3 + (i + 1) * os).ok_or("INDEX offsets")?;
        Ok(b.iter().fold(0usize, |a, x| a * 256 + *x as usize))
    };
    let base = pos + 3 + (cnt + 1) * os - 1;
    if rd(0)? != 1 {
        return Err("INDEX: first offset is not 1".into());
    }
    let mut v = vec![];
    for i in 0..cnt {
        let (a, b) = (rd(i)?, rd(i + 1)?);
        if a < 1 || a > b || base + b > d.len() {
            return Err(format!("INDEX item {i} out of range"));
        }
        v.push((base + a, base + b));
    }
    let end = base + rd(cnt)?;
    Ok((v, end))
}

/// raw INDEX header (count, offSize, offset array) without any validation, for the Coq-side `cff_index_ok`
fn index_hdr(d: &[u8], pos: usize) -> Vec<u8> {
    let Some(c) = d.get(pos..pos + 2) else { return vec![] };
    let cnt = u16::from_be_bytes([c[0], c[1]]) as usize;
    if cnt == 0 {
        return c.to_vec();
    }
    let os = *d.get(pos + 2).unwrap_or(&0) as usize;
    let end = (pos + 3 + (cnt + 1) * os.min(4)).min(d.len());
    d[pos..end].to_vec()
}

/// subset-sum: indices of `lens` (each used at most once) adding up to exactly `target`
fn subset_sum(lens: &[usize], target: usize) -> Option<Vec<usize>> {
    let mut from: Vec<Option<(usize, usize)>> = vec![None; target + 1]; // sum -> (item, previous sum)
    let mut reach = vec![false; target + 1];
    reach[0] = true;
    for (i, &l) in lens.iter().enumerate() {
        if l == 0 || l > target {
            continue;
        }
        for s in (l..=target).rev() {
            if reach[s - l] && !reach[s] && from[s - l].map_or(true, |(j, _)| j != i) {
                reach[s] = true;
                from[s] = Some((i, s - l));
            }
        }
    }
    if !reach[target] {
        return None;
    }
    let (mut v, mut s) = (vec![], target);
    while s > 0 {
        let (i, p) = from[s]?;
        v.push(i);
        s = p;
    }
    Some(v)
}

/// own DICT reader: operator (escaped ops as 1200+b) -> integer operands (reals as i64::MIN markers)
fn dict(d: &[u8]) -> BTreeMap<u16, Vec<i64>> {
    let mut m = BTreeMap::new();
    let mut st: Vec<i64> = vec![];
    let mut i = 0;
    while i < d.len() {
        let b = d[i];
        match b {
            0..=21 => {
                let op = if b == 12 {
                    i += 1;
                    1200 + *d.get(i).unwrap_or(&0) as u16
                } else {
                    b as u16
                };
                m.insert(op, std::mem::take(&mut st));
                i += 1;
            }
            28 => {
                st.push(i16::from_be_bytes([d[i + 1], d[i + 2]]) as i64);
                i += 3;
            }
            29 => {
                st.push(i32::from_be_bytes([d[i + 1], d[i + 2], d[i + 3], d[i + 4]]) as i64);
                i += 5;
            }
            30 => {
                i += 1;
                while i < d.len() && d[i] & 0x0F != 0x0F && d[i] >> 4 != 0x0F {
                    i += 1;
                }
                i += 1;
                st.push(i64::MIN);
            }
            32..=246 => {
                st.push(b as i64 - 139);
                i += 1;
            }
            247..=250 => {
                st.push((b as i64 - 247) * 256 + d[i + 1] as i64 + 108);
                i += 2;
            }
            251..=254 => {
                st.push(-(b as i64 - 251) * 256 - d[i + 1] as i64 - 108);
                i += 2;
            }
            _ => i += 1,
        }
    }
    m
}

struct Cff<'a> {
    d: &'a [u8],
    charstrings: Vec<(usize, usize)>,
    gsubr_pos: usize,
    private: Option<(usize, usize)>,
    top: BTreeMap<u16, Vec<i64>>,
}
fn parse_cff(d: &[u8]) -> Result<Cff, String> {
    let hdr = *d.get(2).ok_or("header")? as usize;
    let (_, e1) = index(d, hdr)?;
    let (tops, e2) = index(d, e1)?;
    let (_, e3) = index(d, e2)?;
    let (_, _e4) = index(d, e3)?;
    let t = tops.first().ok_or("no Top DICT")?;
    let top = dict(&d[t.0..t.1]);
    let cso = *top.get(&17).and_then(|v| v.first()).ok_or("no CharStrings")? as usize;
    let (charstrings, _) = index(d, cso)?;
    let private = top.get(&18).and_then(|v| if v.len() == 2 { Some((v[1] as usize, v[0] as usize)) } else { None });
    Ok(Cff { d, charstrings, gsubr_pos: e3, private, top })
}

/// does a (desubroutinized) charstring still call a subroutine?  token scan with hint-mask skipping
fn calls_subr(cs: &[u8]) -> bool {
    let (mut i, mut stack, mut stems) = (0usize, 0usize, 0usize);
    while i < cs.len() {
        let b = cs[i];
        match b {
            28 => {
                stack += 1;
                i += 3
            }
            32..=246 => {
                stack += 1;
                i += 1
            }
            247..=254 => {
                stack += 1;
                i += 2
            }
            255 => {
                stack += 1;
                i += 5
            }
            10 | 29 => return true,
            1 | 3 | 18 | 23 => {
                stems += stack / 2;
                stack = 0;
                i += 1
            }
            19 | 20 => {
                stems += stack / 2;
                stack = 0;
                i += 1 + (stems + 7) / 8
            }
            12 => {
                stack = 0;
                i += 2
            }
            _ => {
                stack = 0;
                i += 1
            }
        }
    }
    false
}

pub fn run(ctx: &Ctx) {
    let header = "From OxVerif Require Import Base.Util C12.Model.";
    let mut out = Out::new(ctx, header, "bool * list (bytes * N) * list (N * bytes * bytes * N * N)", "cff_code");
    out.shard_size = 4;
    let data = match std::fs::read(super::SOURCESANS) {
        Ok(d) => d,
        Err(e) => {
            out.impl_failures.push(json!({"case": {"cff": true}, "what": format!("cannot read SourceSans3: {e}")}));
            out.finish("cff");
            return;
        }
    };
    let otf = super::sfnt::Sfnt::parse(&data).expect("otf directory");
    let ocmap = otf.cmap().expect("otf cmap");
    let keys: Vec<u32> = ocmap.keys().copied().collect();
    let cff_o = otf.table(b"CFF ").expect("CFF table");
    let po = parse_cff(cff_o).expect("original CFF parses with the harness reader");
    let gs: CffIndex = parse_cff_index(cff_o, po.gsubr_pos).expect("gsubrs");
    let (priv_o, ls): (BTreeMap<u16, Vec<i64>>, CffIndex) = match po.private {
        Some((off, sz)) => {
            let p = dict(&cff_o[off..off + sz]);
            let ls = match p.get(&19).and_then(|v| v.first()) {
                Some(&rel) => parse_cff_index(cff_o, off + rel as usize).expect("local subrs"),
                None => CffIndex::empty(),
            };
            (p, ls)
        }
        None => (BTreeMap::new(), CffIndex::empty()),
    };
    let mut r = Rng::new(ctx.seed ^ 0xCFF);
    let sets: Vec<Vec<u32>> = if let Some(cases) = ctx.replay_cases() {
        cases.iter().filter(|c| c.get("cff").is_some()).map(|c| c["chars"].as_array().unwrap().iter().map(|x| x.as_u64().unwrap() as u32).collect()).collect()
    } else {
        let sizes: &[usize] = if ctx.thorough() { &[1, 2, 5, 10, 11, 20, 40, 80, 150, 300, 600] } else { &[1, 5, 10, 11, 25, 60, 150] };
        let mut v = vec![];
        for &n in sizes {
            for _ in 0..(if ctx.thorough() { 6 } else { 3 }) {
                let mut s = std::collections::BTreeSet::new();
                while s.len() < n {
                    s.insert(*r.pick(&keys));
                }
                let mut cs: Vec<u32> = s.into_iter().collect();
                if r.chance(1, 3) {
                    cs.push(0xE777);
                }
                v.push(cs);
            }
        }
        // INDEX offSize boundaries: character sets whose kept charstrings (subroutines inlined, .notdef included)
        // total exactly 254 / 255 / 256 and 65534 / 65535 / 65536 bytes — the last offset of the rebuilt
        // CharStrings INDEX is then 255 / 256 / 257 resp. 65535 / 65536 / 65537
        let dlen = |g: u16| -> usize {
            let (a, b) = po.charstrings[g as usize];
            desubroutinize(&cff_o[a..b], &gs, cff_o, &ls, cff_o).map(|v| v.len()).unwrap_or(0)
        };
        let mut seen = std::collections::BTreeSet::new();
        let mut cand: Vec<(u32, usize)> = vec![]; // one character per glyph, with its inlined charstring length
        for (&cp, &g) in &ocmap {
            if g != 0 && seen.insert(g) {
                cand.push((cp, dlen(g)));
            }
        }
        let notdef = dlen(0);
        let small: &[usize] = if ctx.thorough() { &[254, 255, 255, 255, 256, 256, 257] } else { &[254, 255, 255, 256] };
        for &t in small {
            for _try in 0..20 {
                let mut pool: Vec<(u32, usize)> = (0..60).map(|_| *r.pick(&cand)).collect();
                pool.sort();
                pool.dedup();
                let lens: Vec<usize> = pool.iter().map(|p| p.1).collect();
                if t <= notdef {
                    break;
                }
                if let Some(ix) = subset_sum(&lens, t - notdef) {
                    let mut cs: Vec<u32> = ix.iter().map(|&i| pool[i].0).collect();
                    cs.sort();
                    v.push(cs);
                    break;
                }
            }
        }
        let bigs: &[usize] = if ctx.thorough() { &[65534, 65535, 65535, 65536] } else { &[65535, 65536] };
        for &t in bigs {
            // shuffle, take glyphs greedily until less than 1500 bytes are missing, finish with an exact subset-sum
            let mut order = cand.clone();
            for i in (1..order.len()).rev() {
                let j = r.below(i as u64 + 1) as usize;
                order.swap(i, j);
            }
            let mut total = notdef;
            let mut cs = vec![];
            let mut k = 0;
            while k < order.len() && total + order[k].1 + 1500 < t {
                total += order[k].1;
                cs.push(order[k].0);
                k += 1;
            }
            let rest = &order[k..];
            let lens: Vec<usize> = rest.iter().take(300).map(|p| p.1).collect();
            if let Some(ix) = subset_sum(&lens, t - total) {
                cs.extend(ix.iter().map(|&i| rest[i].0));
                cs.sort();
                v.push(cs);
            }
        }
        v
    };
    for chars in sets {
        let js = json!({"cff": true, "font": format!("file:{}", super::SOURCESANS), "chars": chars});
        let used: HashSet<char> = chars.iter().filter_map(|&c| char::from_u32(c)).collect();
        let d2 = data.clone();
        let res = match catch(move || subset_font(d2, &used)) {
            Ok(Ok(r)) => r,
            Ok(Err(e)) => {
                out.impl_failures.push(json!({"case": js, "what": format!("subset_font error {e:?}")}));
                continue;
            }
            Err(p) => {
                out.impl_failures.push(json!({"case": js, "what": format!("panic {p}")}));
                continue;
            }
        };
        if !res.is_raw_cff {
            // full font returned: mapping must be the original cmap on the requested characters
            let ok = res.font_data == data && chars.iter().all(|c| ocmap.get(c).copied() == res.glyph_mapping.get(c).copied());
            out.push(format!("({}, nil, nil)", coq_bool(ok)), js, "cff/full", false);
            continue;
        }
        let sub = &res.font_data;
        // raw headers of the rebuilt INDEXes with the room the font's own offsets leave for each of them:
        // Global Subr INDEX up to the charset, CharStrings INDEX up to the FDArray, FDArray INDEX up to the Private DICT
        let idx_coq = {
            let hdr = *sub.get(2).unwrap_or(&4) as usize;
            let mut v: Vec<(usize, usize)> = vec![]; // (position, next structure)
            // the header INDEXes follow each other: read their ends leniently (count/offSize/last offset as written)
            let lenient_end = |pos: usize| -> usize {
                let h = index_hdr(sub, pos);
                if h.len() <= 2 {
                    return pos + 2;
                }
                let os = h[2] as usize;
                if os == 0 || os > 4 || h.len() < 3 + os {
                    return pos + 3;
                }
                let last = h[h.len() - os..].iter().fold(0usize, |a, x| a * 256 + *x as usize);
                pos + h.len() + last.saturating_sub(1)
            };
            let e1 = lenient_end(hdr);
            let e2 = lenient_end(e1);
            let e3 = lenient_end(e2);
            let top = index(sub, e1).ok().and_then(|(t, _)| t.first().copied()).map(|(a, b)| dict(&sub[a..b])).unwrap_or_default();
            let off = |op: u16| top.get(&op).and_then(|v| v.last()).map(|&x| x as usize);
            v.push((hdr, e1));
            v.push((e1, e2));
            v.push((e2, e3));
            if let Some(cs) = off(15) {
                v.push((e3, cs));
            }
            if let (Some(cso), Some(fda)) = (off(17), off(1236)) {
                v.push((cso, fda));
                let fd = index(sub, fda).ok().and_then(|(t, _)| t.first().copied()).map(|(a, b)| dict(&sub[a..b])).unwrap_or_default();
                if let Some(pv) = fd.get(&18).filter(|v| v.len() == 2) {
                    v.push((fda, pv[1] as usize));
                }
            }
            v.iter().map(|&(p, n)| format!("({}, {}) :: ", coq_bytes(&index_hdr(sub, p)), n.saturating_sub(p))).collect::<String>() + "nil"
        };
        let ps = match parse_cff(sub) {
            Ok(p) => p,
            Err(e) => {
                out.push(format!("(false, {idx_coq}, nil)"), js.clone(), "cff/unparseable", true);
                if std::env::var("OXH_C12_TRACE").is_ok() {
                    eprintln!("subset CFF does not parse: {e}");
                }
                continue;
            }
        };
        // the library's own reader must accept it too
        let lib_ok = parse_cff_index(sub, *sub.get(2).unwrap_or(&4) as usize).is_ok();
        let priv_s = ps.private.map(|(off, sz)| dict(&sub[off.min(sub.len())..(off + sz).min(sub.len())])).unwrap_or_default();
        // CID-keyed output keeps its Private DICT behind the FDArray; the top-level Private is absent there
        let priv_s = if priv_s.is_empty() {
            ps.top.get(&1236).and_then(|v| v.first()).and_then(|&o| index(sub, o as usize).ok()).and_then(|(fds, _)| fds.first().copied()).map(|(a, b)| dict(&sub[a..b])).and_then(|fd| fd.get(&18).cloned()).filter(|v| v.len() == 2).map(|v| dict(&sub[(v[1] as usize).min(sub.len())..((v[1] + v[0]) as usize).min(sub.len())])).unwrap_or_default()
        } else {
            priv_s
        };
        let widths_same = priv_s.get(&20) == priv_o.get(&20) && priv_s.get(&21) == priv_o.get(&21);
        let mut rows = vec![];
        let mut struct_ok = lib_ok && widths_same;
        for &c in &chars {
            let Some(&g) = ocmap.get(&c) else { continue };
            let Some(&g2) = res.glyph_mapping.get(&c) else {
                rows.push(format!("({}, {}, {}, 0, 1)", c, coq_bytes(b"mapped"), coq_bytes(b"unmapped")));
                continue;
            };
            let (a, b) = po.charstrings[g as usize];
            let want = desubroutinize(&cff_o[a..b], &gs, cff_o, &ls, cff_o).unwrap_or_default();
            let got: &[u8] = ps.charstrings.get(g2 as usize).map(|&(a, b)| &sub[a..b]).unwrap_or(b"");
            if calls_subr(got) {
                struct_ok = false;
            }
            let (adv_o, adv_s) = (otf.metrics(g as usize).map(|m| m.0).unwrap_or(0), otf.metrics(g as usize).map(|m| m.0).unwrap_or(0));
            rows.push(format!("({}, {}, {}, {}, {})", c, coq_bytes(&want), coq_bytes(got), adv_o, adv_s));
            if rows.len() >= 16 {
                break; // keep the literal small; the sample is the first 16 mapped characters in code order
            }
        }
        let coq = format!("({}, {}, {}nil)", coq_bool(struct_ok), idx_coq, rows.iter().map(|r| format!("{r} :: ")).collect::<String>());
        let total: usize = ps.charstrings.iter().map(|&(a, b)| b - a).sum();
        let label = if [254, 255, 256, 65534, 65535, 65536].contains(&total) { "cff/subset/offsize_boundary" } else { "cff/subset" };
        out.push(coq, js, label, true);
    }
    out.finish("cff");
}
