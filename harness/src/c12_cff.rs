//! C12, CFF part — VALIDATED per output, nothing proved.  The subsetter emits a CID-keyed raw CFF whose
//! charstrings are desubroutinized, so "unchanged" is judged on the charstring with subroutine calls inlined:
//! the harness's own INDEX/DICT reader locates CharStrings / Private / Subrs in the ORIGINAL and in the SUBSET,
//! the original charstring is inlined with the library's `desubroutinize` (trusted here, named in the notes),
//! the subset's charstring must be byte-identical to it, contain no callsubr/callgsubr operator, and the
//! width-bearing Private DICT entries (defaultWidthX / nominalWidthX) must be unchanged.  Coq compares the
//! extracted byte strings per requested character.
use crate::util::*;
use oxidize_pdf::text::fonts::cff::charstring::desubroutinize;
use oxidize_pdf::text::fonts::cff::index::{parse_cff_index, CffIndex};
use oxidize_pdf::text::fonts::truetype_subsetter::subset_font;
use serde_json::json;
use std::collections::{BTreeMap, HashSet};

/// own INDEX reader: (items as ranges, end offset)
fn index(d: &[u8], pos: usize) -> Result<(Vec<(usize, usize)>, usize), String> {
    let cnt = u16::from_be_bytes(d.get(pos..pos + 2).ok_or("INDEX count")?.try_into().unwrap()) as usize;
    if cnt == 0 {
        return Ok((vec![], pos + 2));
    }
    let os = *d.get(pos + 2).ok_or("offSize")? as usize;
    if !(1..=4).contains(&os) {
        return Err(format!("offSize {os}"));
    }
    let rd = |i: usize| -> Result<usize, String> {
        let b = d.get(pos + 3 + i * os..pos + 3 + (i + 1) * os).ok_or("INDEX offsets")?;
        Ok(b.iter().fold(0usize, |a, x| a * 256 + *x as usize))
    };
    let base = pos + 3 + (cnt + 1) * os - 1;
    let mut v = vec![];
    for i in 0..cnt {
        let (a, b) = (rd(i)?, rd(i + 1)?);
        if a < 1 || a > b || base + b > d.len() {
            return Err(format!("INDEX item {i} out of range"));
        }
        v.push((base + a, base + b));
    }
    let end = base + rd(cnt)?;
    Ok((v, end))
}

/// own DICT reader: operator (escaped ops as 1200+b) -> integer operands (reals as i64::MIN markers)
fn dict(d: &[u8]) -> BTreeMap<u16, Vec<i64>> {
    let mut m = BTreeMap::new();
    let mut st: Vec<i64> = vec![];
    let mut i = 0;
    while i < d.len() {
        let b = d[i];
        match b {
            0..=21 => {
                let op = if b == 12 {
                    i += 1;
                    1200 + *d.get(i).unwrap_or(&0) as u16
                } else {
                    b as u16
                };
                m.insert(op, std::mem::take(&mut st));
                i += 1;
            }
            28 => {
                st.push(i16::from_be_bytes([d[i + 1], d[i + 2]]) as i64);
                i += 3;
            }
            29 => {
                st.push(i32::from_be_bytes([d[i + 1], d[i + 2], d[i + 3], d[i + 4]]) as i64);
                i += 5;
            }
            30 => {
                i += 1;
                while i < d.len() && d[i] & 0x0F != 0x0F && d[i] >> 4 != 0x0F {
                    i += 1;
                }
                i += 1;
                st.push(i64::MIN);
            }
            32..=246 => {
                st.push(b as i64 - 139);
                i += 1;
            }
            247..=250 => {
                st.push((b as i64 - 247) * 256 + d[i + 1] as i64 + 108);
                i += 2;
            }
            251..=254 => {
                st.push(-(b as i64 - 251) * 256 - d[i + 1] as i64 - 108);
                i += 2;
            }
            _ => i += 1,
        }
    }
    m
}

struct Cff<'a> {
    d: &'a [u8],
    charstrings: Vec<(usize, usize)>,
    gsubr_pos: usize,
    private: Option<(usize, usize)>,
    top: BTreeMap<u16, Vec<i64>>,
}
fn parse_cff(d: &[u8]) -> Result<Cff, String> {
    let hdr = *d.get(2).ok_or("header")? as usize;
    let (_, e1) = index(d, hdr)?;
    let (tops, e2) = index(d, e1)?;
    let (_, e3) = index(d, e2)?;
    let (_, _e4) = index(d, e3)?;
    let t = tops.first().ok_or("no Top DICT")?;
    let top = dict(&d[t.0..t.1]);
    let cso = *top.get(&17).and_then(|v| v.first()).ok_or("no CharStrings")? as usize;
    let (charstrings, _) = index(d, cso)?;
    let private = top.get(&18).and_then(|v| if v.len() == 2 { Some((v[1] as usize, v[0] as usize)) } else { None });
    Ok(Cff { d, charstrings, gsubr_pos: e3, private, top })
}

/// does a (desubroutinized) charstring still call a subroutine?  token scan with hint-mask skipping
fn calls_subr(cs: &[u8]) -> bool {
    let (mut i, mut stack, mut stems) = (0usize, 0usize, 0usize);
    while i < cs.len() {
        let b = cs[i];
        match b {
            28 => {
                stack += 1;
                i += 3
            }
            32..=246 => {
                stack += 1;
                i += 1
            }
            247..=254 => {
                stack += 1;
                i += 2
            }
            255 => {
                stack += 1;
                i += 5
            }
            10 | 29 => return true,
            1 | 3 | 18 | 23 => {
                stems += stack / 2;
                stack = 0;
                i += 1
            }
            19 | 20 => {
                stems += stack / 2;
                stack = 0;
                i += 1 + (stems + 7) / 8
            }
            12 => {
                stack = 0;
                i += 2
            }
            _ => {
                stack = 0;
                i += 1
            }
        }
    }
    false
}

pub fn run(ctx: &Ctx) {
    let header = "From OxVerif Require Import Base.Util C12.Model.";
    let mut out = Out::new(ctx, header, "bool * list (N * bytes * bytes * N * N)", "cff_code");
    out.shard_size = 4;
    let data = match std::fs::read(super::SOURCESANS) {
        Ok(d) => d,
        Err(e) => {
            out.impl_failures.push(json!({"case": {"cff": true}, "what": format!("cannot read SourceSans3: {e}")}));
            out.finish("cff");
            return;
        }
    };
    let otf = super::sfnt::Sfnt::parse(&data).expect("otf directory");
    let ocmap = otf.cmap().expect("otf cmap");
    let keys: Vec<u32> = ocmap.keys().copied().collect();
    let cff_o = otf.table(b"CFF ").expect("CFF table");
    let po = parse_cff(cff_o).expect("original CFF parses with the harness reader");
    let gs: CffIndex = parse_cff_index(cff_o, po.gsubr_pos).expect("gsubrs");
    let (priv_o, ls): (BTreeMap<u16, Vec<i64>>, CffIndex) = match po.private {
        Some((off, sz)) => {
            let p = dict(&cff_o[off..off + sz]);
            let ls = match p.get(&19).and_then(|v| v.first()) {
                Some(&rel) => parse_cff_index(cff_o, off + rel as usize).expect("local subrs"),
                None => CffIndex::empty(),
            };
            (p, ls)
        }
        None => (BTreeMap::new(), CffIndex::empty()),
    };
    let mut r = Rng::new(ctx.seed ^ 0xCFF);
    let sets: Vec<Vec<u32>> = if let Some(cases) = ctx.replay_cases() {
        cases.iter().filter(|c| c.get("cff").is_some()).map(|c| c["chars"].as_array().unwrap().iter().map(|x| x.as_u64().unwrap() as u32).collect()).collect()
    } else {
        let sizes: &[usize] = if ctx.thorough() { &[1, 2, 5, 10, 11, 20, 40, 80, 150, 300, 600] } else { &[1, 5, 10, 11, 25, 60, 150] };
        let mut v = vec![];
        for &n in sizes {
            for _ in 0..(if ctx.thorough() { 6 } else { 3 }) {
                let mut s = std::collections::BTreeSet::new();
                while s.len() < n {
                    s.insert(*r.pick(&keys));
                }
                let mut cs: Vec<u32> = s.into_iter().collect();
                if r.chance(1, 3) {
                    cs.push(0xE777);
                }
                v.push(cs);
            }
        }
        v
    };
    for chars in sets {
        let js = json!({"cff": true, "font": format!("file:{}", super::SOURCESANS), "chars": chars});
        let used: HashSet<char> = chars.iter().filter_map(|&c| char::from_u32(c)).collect();
        let d2 = data.clone();
        let res = match catch(move || subset_font(d2, &used)) {
            Ok(Ok(r)) => r,
            Ok(Err(e)) => {
                out.impl_failures.push(json!({"case": js, "what": format!("subset_font error {e:?}")}));
                continue;
            }
            Err(p) => {
                out.impl_failures.push(json!({"case": js, "what": format!("panic {p}")}));
                continue;
            }
        };
        if !res.is_raw_cff {
            // full font returned: mapping must be the original cmap on the requested characters
            let ok = res.font_data == data && chars.iter().all(|c| ocmap.get(c).copied() == res.glyph_mapping.get(c).copied());
            out.push(format!("({}, nil)", coq_bool(ok)), js, "cff/full", false);
            continue;
        }
        let sub = &res.font_data;
        let ps = match parse_cff(sub) {
            Ok(p) => p,
            Err(e) => {
                out.push("(false, nil)".into(), js.clone(), "cff/unparseable", true);
                if std::env::var("OXH_C12_TRACE").is_ok() {
                    eprintln!("subset CFF does not parse: {e}");
                }
                continue;
            }
        };
        // the library's own reader must accept it too
        let lib_ok = parse_cff_index(sub, *sub.get(2).unwrap_or(&4) as usize).is_ok();
        let priv_s = ps.private.map(|(off, sz)| dict(&sub[off.min(sub.len())..(off + sz).min(sub.len())])).unwrap_or_default();
        // CID-keyed output keeps its Private DICT behind the FDArray; the top-level Private is absent there
        let priv_s = if priv_s.is_empty() {
            ps.top.get(&1236).and_then(|v| v.first()).and_then(|&o| index(sub, o as usize).ok()).and_then(|(fds, _)| fds.first().copied()).map(|(a, b)| dict(&sub[a..b])).and_then(|fd| fd.get(&18).cloned()).filter(|v| v.len() == 2).map(|v| dict(&sub[(v[1] as usize).min(sub.len())..((v[1] + v[0]) as usize).min(sub.len())])).unwrap_or_default()
        } else {
            priv_s
        };
        let widths_same = priv_s.get(&20) == priv_o.get(&20) && priv_s.get(&21) == priv_o.get(&21);
        let mut rows = vec![];
        let mut struct_ok = lib_ok && widths_same;
        for &c in &chars {
            let Some(&g) = ocmap.get(&c) else { continue };
            let Some(&g2) = res.glyph_mapping.get(&c) else {
                rows.push(format!("({}, {}, {}, 0, 1)", c, coq_bytes(b"mapped"), coq_bytes(b"unmapped")));
                continue;
            };
            let (a, b) = po.charstrings[g as usize];
            let want = desubroutinize(&cff_o[a..b], &gs, cff_o, &ls, cff_o).unwrap_or_default();
            let got: &[u8] = ps.charstrings.get(g2 as usize).map(|&(a, b)| &sub[a..b]).unwrap_or(b"");
            if calls_subr(got) {
                struct_ok = false;
            }
            let (adv_o, adv_s) = (otf.metrics(g as usize).map(|m| m.0).unwrap_or(0), otf.metrics(g as usize).map(|m| m.0).unwrap_or(0));
            rows.push(format!("({}, {}, {}, {}, {})", c, coq_bytes(&want), coq_bytes(got), adv_o, adv_s));
            if rows.len() >= 16 {
                break; // keep the literal small; the sample is the first 16 mapped characters in code order
            }
        }
        let coq = format!("({}, {}nil)", coq_bool(struct_ok), rows.iter().map(|r| format!("{r} :: ")).collect::<String>());
        out.push(coq, js, "cff/subset", true);
    }
    out.finish("cff");
}
