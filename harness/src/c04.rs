//! C04 — the newest revision of an object always wins.
//! Generated multi-revision files (c04_rawpdf) are opened by the real PdfReader; every object
//! number of the history is fetched with get_object and the result is written, together with the
//! sections / history / headers / store of the file, into Coq case files (C04/Model.v case_code).
use crate::util::*;
use oxidize_pdf::parser::{ParseOptions, PdfObject, PdfReader};
use serde_json::{json, Value};
use std::io::Cursor;

#[path = "c04_rawpdf.rs"]
pub mod rawpdf;
use rawpdf::*;

pub const OBJ0: u32 = 120; // first object number used by histories (outside reader.rs's "reconstructible" list)
pub const AUX: u32 = 140;

pub fn options(name: &str) -> ParseOptions {
    match name {
        "strict" => ParseOptions::strict(),
        "tolerant" => ParseOptions::tolerant(),
        "skip" => ParseOptions::skip_errors(),
        "new" => {
            let mut o = ParseOptions::default();
            o.lenient_streams = true;
            o
        }
        _ => ParseOptions::default(),
    }
}

#[derive(Clone, Debug, PartialEq)]
pub enum Res {
    Val(u64),
    Null,
    Stm,
    Err(String),
}
pub fn res_coq(r: &Res) -> String {
    match r {
        Res::Val(v) => format!("RVal {v}"),
        Res::Null => "RNull".into(),
        Res::Stm => "RStm".into(),
        Res::Err(_) => "RErr".into(),
    }
}

/// open `bytes` with the real reader and fetch (n, gen) for every query
pub fn read_all(bytes: &[u8], opts: &ParseOptions, queries: &[(u32, u16)]) -> Vec<Res> {
    let b = bytes.to_vec();
    let o = opts.clone();
    let q = queries.to_vec();
    let r = catch(std::panic::AssertUnwindSafe(move || {
        let mut rd = match PdfReader::new_with_options(Cursor::new(b), o) {
            Ok(r) => r,
            Err(e) => return q.iter().map(|_| Res::Err(format!("open: {e}"))).collect::<Vec<_>>(),
        };
        q.iter()
            .map(|(n, g)| match rd.get_object(*n, *g) {
                Ok(PdfObject::Integer(v)) => Res::Val(*v as u64),
                Ok(PdfObject::Null) => Res::Null,
                Ok(PdfObject::Stream(_)) => Res::Stm,
                Ok(other) => Res::Err(format!("unexpected object {:?}", other).chars().take(80).collect()),
                Err(e) => Res::Err(format!("{e}").chars().take(120).collect()),
            })
            .collect()
    }));
    match r {
        Ok(v) => v,
        Err(m) => queries.iter().map(|_| Res::Err(format!("panic: {m}"))).collect(),
    }
}

fn kind_s(k: Kind) -> &'static str {
    match k {
        Kind::Direct => "D",
        Kind::InStm => "S",
        Kind::Free => "F",
        Kind::HidDirect => "H",
    }
}
fn form_s(f: Form) -> String {
    match f {
        Form::Classic => "c".into(),
        Form::Stream { flate, w0zero } => format!("s{}{}", if flate { "f" } else { "" }, if w0zero { "z" } else { "" }),
        Form::Hybrid { flate } => format!("h{}", if flate { "f" } else { "" }),
    }
}
pub fn rev_json(r: &RevSpec) -> Value {
    json!({"form": form_s(r.form), "defs": r.defs.iter().map(|(n,k)| json!([n, kind_s(*k)])).collect::<Vec<_>>()})
}
pub fn rev_from(v: &Value) -> RevSpec {
    let f = v["form"].as_str().unwrap_or("c");
    let form = if f.starts_with('c') {
        Form::Classic
    } else if f.starts_with('h') {
        Form::Hybrid { flate: f.contains('f') }
    } else {
        Form::Stream { flate: f.contains('f'), w0zero: f.contains('z') }
    };
    let defs = v["defs"]
        .as_array()
        .unwrap()
        .iter()
        .map(|d| {
            let k = match d[1].as_str().unwrap() {
                "D" => Kind::Direct,
                "S" => Kind::InStm,
                "H" => Kind::HidDirect,
                _ => Kind::Free,
            };
            (d[0].as_u64().unwrap() as u32, k)
        })
        .collect();
    RevSpec { form, defs }
}

pub fn entry_def_coq(e: &Entry) -> String {
    match e {
        Entry::Free { .. } => "Free".into(),
        Entry::InUse { off, .. } => format!("Direct {off}"),
        Entry::Compressed { stm, idx } => format!("InStm {stm} {idx}"),
    }
}
pub fn section_coq(s: &SectionData) -> String {
    match s {
        SectionData::Classic(subs) => format!(
            "Classic {}",
            coq_list(subs.iter().map(|(first, es)| format!(
                "({}, {})",
                first,
                coq_list(es.iter().map(|e| match e {
                    Entry::Free { next, gen } => format!("CE {next} {gen} false"),
                    Entry::InUse { off, gen } => format!("CE {off} {gen} true"),
                    Entry::Compressed { .. } => unreachable!(),
                }))
            )))
        ),
        SectionData::Stream(w0, subs) => format!(
            "XStream {} {}",
            w0,
            coq_list(subs.iter().map(|(first, rows)| format!("({}, {})", first, coq_list(rows.iter().map(|(t, a, b)| format!("(T{t}, {a}, {b})"))))))
        ),
    }
}
pub fn store_coq(st: &[(u64, Content)]) -> String {
    coq_list(st.iter().map(|(off, c)| match c {
        Content::Int(v) => format!("({off}, CInt {v})"),
        Content::Stm(objs) => format!("({off}, CStm {})", coq_list(objs.iter().map(|(n, v)| format!("({n}, {v})")))),
    }))
}
pub fn case_coq(mode: u64, b: &Builder, queries: &[(u32, u16)], res: &[Res]) -> String {
    format!(
        "{{| c_mode := {}; c_secs := {}; c_hist := {}; c_hdrs := {}; c_store := {}; c_queries := {} |}}",
        mode,
        coq_list(b.sections.iter().map(section_coq)),
        coq_list(b.hist.iter().map(|r| coq_list(r.iter().map(|(n, e)| format!("({}, {})", n, entry_def_coq(e)))))),
        coq_list(b.headers.iter().map(|(n, g, off)| format!("({n}, {g}, {off})"))),
        store_coq(&b.store),
        coq_list(queries.iter().zip(res).map(|(q, r)| format!("({}, {})", q.0, res_coq(r))))
    )
}

/// one case: history x option preset x damage
fn emit(out: &mut Out, revs: &[RevSpec], opts: &str, damage: u64, class: &str) {
    let b = build(revs, AUX);
    let o = options(opts);
    let mode: u64 = if damage > 0 {
        2
    } else if o.lenient_syntax || o.collect_warnings {
        1
    } else {
        0
    };
    let mut objs: Vec<u32> = revs.iter().flat_map(|r| r.defs.iter().map(|d| d.0)).collect();
    objs.sort();
    objs.dedup();
    let queries: Vec<(u32, u16)> = objs.iter().map(|n| (*n, *b.live_gen.get(n).unwrap_or(&0) as u16)).collect();
    let bytes = if damage > 0 { b.damaged(damage) } else { b.buf.clone() };
    let res = read_all(&bytes, &o, &queries);
    let js = json!({"revs": revs.iter().map(rev_json).collect::<Vec<_>>(), "opts": opts, "damage": damage,
                    "impl": res.iter().map(|r| match r { Res::Err(m) => format!("Err({m})"), o => res_coq(o) }).collect::<Vec<_>>()});
    let nt = objs.iter().any(|n| revs.iter().filter(|r| r.defs.iter().any(|d| d.0 == *n)).count() >= 2);
    out.push(case_coq(mode, &b, &queries, &res), js, class, nt);
}

/// every assignment of {absent, Direct, InStm (stream form only), Free} to `objs`, in both forms
fn rev_options(objs: &[u32], allow_empty: bool, recovery: bool) -> Vec<RevSpec> {
    let mut v = vec![];
    for form_i in 0..2 {
        let kinds: Vec<Option<Kind>> = if recovery {
            vec![None, Some(Kind::Direct)]
        } else if form_i == 0 {
            vec![None, Some(Kind::Direct), Some(Kind::Free)]
        } else {
            vec![None, Some(Kind::Direct), Some(Kind::InStm), Some(Kind::Free)]
        };
        let total = kinds.len().pow(objs.len() as u32);
        for code in 0..total {
            let mut c = code;
            let mut defs = vec![];
            for n in objs {
                if let Some(k) = kinds[c % kinds.len()] {
                    defs.push((*n, k));
                }
                c /= kinds.len();
            }
            if defs.is_empty() && !allow_empty {
                continue;
            }
            let salt = (code * 7 + v.len()) as u64;
            let form = if form_i == 0 { Form::Classic } else { Form::Stream { flate: salt % 3 == 0, w0zero: salt % 2 == 0 } };
            v.push(RevSpec { form, defs });
        }
    }
    v
}

fn product(opts0: &[RevSpec], optsn: &[RevSpec], k: usize, cur: &mut Vec<RevSpec>, f: &mut dyn FnMut(&[RevSpec])) {
    if cur.len() == k {
        f(cur);
        return;
    }
    let src = if cur.is_empty() { opts0 } else { optsn };
    for r in src {
        cur.push(r.clone());
        product(opts0, optsn, k, cur, f);
        cur.pop();
    }
}

pub fn random_history(r: &mut Rng, nobj: u32, k: usize, recovery: bool) -> Vec<RevSpec> {
    (0..k)
        .map(|i| {
            let stream = r.chance(1, 2);
            let form = if stream { Form::Stream { flate: r.chance(1, 2), w0zero: r.chance(1, 2) } } else { Form::Classic };
            let mut defs = vec![];
            for j in 0..nobj {
                let p = r.below(10);
                let k = if recovery {
                    if p < 5 { Some(Kind::Direct) } else { None }
                } else {
                    match p {
                        0..=2 => Some(Kind::Direct),
                        3..=4 if stream => Some(Kind::InStm),
                        5..=6 => Some(Kind::Free),
                        _ => None,
                    }
                };
                if let Some(k) = k {
                    defs.push((OBJ0 + j, k));
                }
            }
            if defs.is_empty() && i > 0 {
                defs.push((OBJ0 + r.below(nobj as u64) as u32, Kind::Direct));
            }
            RevSpec { form, defs }
        })
        .collect()
}

/// every hybrid update over `objs`: each object absent / Direct / Free (classic section) / InStm /
/// HidDirect (hidden: listed only in the /XRefStm stream)
fn hybrid_options(objs: &[u32]) -> Vec<RevSpec> {
    let kinds = [None, Some(Kind::Direct), Some(Kind::Free), Some(Kind::InStm), Some(Kind::HidDirect)];
    let total = kinds.len().pow(objs.len() as u32);
    let mut v = vec![];
    for code in 1..total {
        let mut c = code;
        let mut defs = vec![];
        for n in objs {
            if let Some(k) = kinds[c % kinds.len()] {
                defs.push((*n, k));
            }
            c /= kinds.len();
        }
        v.push(RevSpec { form: Form::Hybrid { flate: code % 3 == 0 }, defs });
    }
    v
}

/// random history in which about every third revision is a hybrid update
pub fn random_history_hybrid(r: &mut Rng, nobj: u32, k: usize) -> Vec<RevSpec> {
    let mut revs = random_history(r, nobj, k, false);
    let mut any = false;
    for (i, rev) in revs.iter_mut().enumerate() {
        if r.chance(1, 3) || (i + 1 == k && !any) {
            any = true;
            let flate = r.chance(1, 2);
            rev.form = Form::Hybrid { flate };
            for d in rev.defs.iter_mut() {
                if d.1 == Kind::Direct && r.chance(1, 2) {
                    d.1 = Kind::HidDirect;
                }
            }
            if !rev.defs.iter().any(|d| matches!(d.1, Kind::InStm | Kind::HidDirect)) {
                let n = OBJ0 + r.below(nobj as u64) as u32;
                rev.defs.retain(|d| d.0 != n);
                rev.defs.push((n, if r.chance(1, 2) { Kind::InStm } else { Kind::HidDirect }));
            }
        }
    }
    revs
}

pub fn run(ctx: &Ctx) {
    // wide printing: the driver's result parser does not cope with a failure pair wrapped over two lines
    let header = "From OxVerif Require Import Base.Util C04.Model.\nSet Printing Width 1000000.";
    let mut out = Out::new(ctx, header, "case", "case_code");
    out.shard_size = 400;
    if let Some(cases) = ctx.replay_cases() {
        for c in cases {
            if c.get("revs").is_none() {
                continue;
            }
            let revs: Vec<RevSpec> = c["revs"].as_array().unwrap().iter().map(rev_from).collect();
            emit(&mut out, &revs, c["opts"].as_str().unwrap_or("default"), c["damage"].as_u64().unwrap_or(0), "replay");
        }
        out.finish("hist");
        return;
    }
    let thorough = ctx.thorough();
    let mut r = Rng::new(ctx.seed);
    let presets = ["strict", "tolerant", "default", "new", "skip"];
    let mut counter = 0usize;
    // ---- exhaustive small histories
    let plans: Vec<(usize, usize, u64)> = if thorough {
        // (objects, K, keep one in `den`)
        vec![(2, 1, 1), (2, 2, 1), (2, 3, 1), (3, 1, 1), (3, 2, 1), (4, 1, 1), (3, 3, 120), (4, 2, 24)]
    } else {
        vec![(2, 1, 1), (2, 2, 1), (2, 3, 10), (3, 1, 1), (3, 2, 10), (4, 1, 2), (3, 3, 1500), (4, 2, 250)]
    };
    for (nobj, k, den) in plans {
        let objs: Vec<u32> = (0..nobj as u32).map(|i| OBJ0 + i).collect();
        let o0 = rev_options(&objs, true, false);
        let on = rev_options(&objs, false, false);
        let mut cur = vec![];
        let class = format!("{}obj{}_k{}", if den == 1 { "exhaustive_" } else { "sampled_" }, nobj, k);
        let mut rr = r.fork();
        product(&o0, &on, k, &mut cur, &mut |revs| {
            if den > 1 && rr.below(den) != 0 {
                return;
            }
            counter += 1;
            // strict-side and lenient-side presets alternate; small histories get both
            if k == 1 || nobj * k <= 4 {
                emit(&mut out, revs, "strict", 0, &class);
                emit(&mut out, revs, "tolerant", 0, &class);
            } else {
                emit(&mut out, revs, presets[counter % presets.len()], 0, &class);
            }
        });
    }
    out.extra.insert("exhaustive".into(), json!("all histories: 2 objects K<=3 (thorough; quick K<=2), 3 objects K<=2 (thorough), x {absent,Direct,InStm,Free} x {classic, xref stream}"));
    // ---- random longer histories
    let nrand = if thorough { 1500 } else { 250 };
    for i in 0..nrand {
        let nobj = r.range(2, 5) as u32;
        let k = r.range(3, 7) as usize;
        let revs = random_history(&mut r, nobj, k, false);
        emit(&mut out, &revs, presets[i % presets.len()], 0, "random_long");
    }
    // ---- hybrid-reference files (ISO 32000-1 7.5.8.4): base x hybrid update, hybrid on hybrid,
    //      hybrid base, ordinary update on a hybrid one; then random histories with hybrid updates
    {
        let objs: Vec<u32> = (0..2u32).map(|i| OBJ0 + i).collect();
        let base = rev_options(&objs, true, false);
        let hyb = hybrid_options(&objs);
        let mut rr = r.fork();
        let den2 = if thorough { 1 } else { 3 };
        for b in &base {
            for h in &hyb {
                if rr.below(den2) != 0 {
                    continue;
                }
                counter += 1;
                emit(&mut out, &[b.clone(), h.clone()], presets[counter % presets.len()], 0, "hybrid_k2");
            }
        }
        for h in &hyb {
            counter += 1;
            emit(&mut out, &[h.clone()], presets[counter % presets.len()], 0, "hybrid_base");
        }
        let den3 = if thorough { 12 } else { 120 };
        for b in &base {
            for h1 in &hyb {
                for h2 in &hyb {
                    if rr.below(den3) != 0 {
                        continue;
                    }
                    counter += 1;
                    emit(&mut out, &[b.clone(), h1.clone(), h2.clone()], presets[counter % presets.len()], 0, "hybrid_on_hybrid");
                }
            }
        }
        let on = rev_options(&objs, false, false);
        for h in &hyb {
            for n in &on {
                if rr.below(den2 * 4) != 0 {
                    continue;
                }
                counter += 1;
                emit(&mut out, &[h.clone(), n.clone()], presets[counter % presets.len()], 0, "update_on_hybrid");
            }
        }
        for i in 0..(if thorough { 600 } else { 120 }) {
            let nobj = r.range(2, 5) as u32;
            let k = r.range(2, 6) as usize;
            let revs = random_history_hybrid(&mut r, nobj, k);
            emit(&mut out, &revs, presets[i % presets.len()], 0, "hybrid_random");
        }
    }
    // ---- recovery: cross-reference data damaged, direct redefinitions only
    {
        let objs: Vec<u32> = (0..2u32).map(|i| OBJ0 + i).collect();
        let o0 = rev_options(&objs, true, true);
        let on = rev_options(&objs, false, true);
        for k in 1..=3usize {
            let mut cur = vec![];
            product(&o0, &on, k, &mut cur, &mut |revs| {
                counter += 1;
                if !thorough && k == 3 && counter % 4 != 0 {
                    return;
                }
                let dmg = 1 + (counter % 2) as u64;
                emit(&mut out, revs, if counter % 3 == 0 { "tolerant" } else { "default" }, dmg, &format!("recovery_k{k}"));
            });
        }
        for i in 0..(if thorough { 400 } else { 60 }) {
            let nobj = r.range(2, 4) as u32;
            let k = r.range(2, 6) as usize;
            let revs = random_history(&mut r, nobj, k, true);
            emit(&mut out, &revs, if i % 2 == 0 { "default" } else { "tolerant" }, 1 + (i % 2) as u64, "recovery_random");
        }
    }
    out.finish("hist");
}
