//! C05 — encryption round trip library -> library.  Generated documents x strengths x writer
//! configurations x password pairs x permission bits are written by the real writer (plaintext objects
//! recorded through the `verif_c05_*` hook), re-opened by the real reader and unlocked with the user
//! and the owner password.  Channels:
//!   key : /Encrypt fields + password -> file key / refusal (Coq: C23 algorithms)          [per document x password]
//!   obj : plaintext object, raw object of the file (independent scanner), reader's result   [per object]
//!   doc : document-level observations (flagged encrypted, locked before unlock, permissions, text, metadata)
#[path = "c05_tree.rs"]
pub mod tree;
use crate::util::*;
use oxidize_pdf::document::{DocumentEncryption, EncryptionStrength};
use oxidize_pdf::encryption::Permissions;
use oxidize_pdf::forms::{ComboBox, FormManager, TextField, Widget, WidgetAppearance};
use oxidize_pdf::geometry::{Point, Rectangle};
use oxidize_pdf::parser::PdfReader;
use oxidize_pdf::writer::WriterConfig;
use oxidize_pdf::{Document, Font, Page};
use serde_json::{json, Value};
use std::io::Cursor;
use tree::*;

pub const HEADER: &str = "From OxVerif Require Import Base.Util C05.EncryptLayer C05.Check.\nRequire Import List NArith String. Import ListNotations.\nOpen Scope string_scope.";

// ------------------------------------------------------------------ specs
#[derive(Clone, Debug)]
pub struct Spec {
    pub doc: Value,     // {"title":..,"author":..,"subject":..,"keywords":..,"pages":[{"text":[..],"annots":[[contents,subject]..],"fields":[..]}]}
    pub strength: u64,  // 0 RC4-40, 1 RC4-128, 2 AES-128, 3 AES-256
    pub cfg: u64,       // bit0: compress off; bits 1..: 0 classic, 1 xref stream, 2 xref+object streams
    pub user: String,
    pub owner: String,
    pub perm: u32,
}
impl Spec {
    pub fn json(&self) -> Value {
        json!({"doc": self.doc, "strength": self.strength, "cfg": self.cfg, "user": self.user, "owner": self.owner, "perm": self.perm})
    }
    pub fn from(v: &Value) -> Spec {
        Spec {
            doc: v["doc"].clone(),
            strength: v["strength"].as_u64().unwrap_or(1),
            cfg: v["cfg"].as_u64().unwrap_or(0),
            user: v["user"].as_str().unwrap_or("").to_string(),
            owner: v["owner"].as_str().unwrap_or("").to_string(),
            perm: v["perm"].as_u64().unwrap_or(0xFFFF_FFFC) as u32,
        }
    }
    pub fn config(&self) -> WriterConfig {
        let mode = self.cfg >> 1;
        WriterConfig {
            use_xref_streams: mode >= 1,
            use_object_streams: mode >= 2,
            pdf_version: if mode >= 1 { "1.5" } else { "1.7" }.to_string(),
            compress_streams: self.cfg & 1 == 0,
            incremental_update: false,
        }
    }
    pub fn strength(&self) -> EncryptionStrength {
        match self.strength {
            0 => EncryptionStrength::Rc4_40bit,
            1 => EncryptionStrength::Rc4_128bit,
            2 => EncryptionStrength::Aes128,
            _ => EncryptionStrength::Aes256,
        }
    }
}

fn strs(v: &Value) -> Vec<String> {
    v.as_array().map(|a| a.iter().map(|x| x.as_str().unwrap_or("").to_string()).collect()).unwrap_or_default()
}

pub fn build_doc(spec: &Spec, encrypt: bool) -> Option<Document> {
    let d = &spec.doc;
    let mut doc = Document::new();
    if let Some(s) = d["title"].as_str() {
        doc.set_title(s);
    }
    if let Some(s) = d["author"].as_str() {
        doc.set_author(s);
    }
    if let Some(s) = d["subject"].as_str() {
        doc.set_subject(s);
    }
    if let Some(s) = d["keywords"].as_str() {
        doc.set_keywords(s);
    }
    let mut fm = FormManager::new();
    let mut any_field = false;
    for p in d["pages"].as_array().cloned().unwrap_or_default() {
        let mut page = Page::a4();
        let mut y = 760.0;
        for line in strs(&p["text"]) {
            page.text().set_font(Font::Helvetica, 12.0).at(50.0, y).write(&line).ok()?;
            y -= 16.0;
        }
        for a in p["annots"].as_array().cloned().unwrap_or_default() {
            let a = strs(&a);
            let rect = Rectangle::new(Point::new(300.0, y), Point::new(320.0, y + 20.0));
            let mut an = oxidize_pdf::annotations::Annotation::new(oxidize_pdf::annotations::AnnotationType::Text, rect);
            if let Some(c) = a.first() {
                an = an.with_contents(c.clone());
            }
            if let Some(s) = a.get(1) {
                an = an.with_subject(s.clone());
            }
            page.add_annotation(an);
            y -= 24.0;
        }
        for name in strs(&p["fields"]) {
            let rect = Rectangle::new(Point::new(100.0, y), Point::new(300.0, y + 20.0));
            let widget = Widget::new(rect).with_appearance(WidgetAppearance::default());
            let fr = fm.add_text_field(TextField::new(name.as_str()).with_value(format!("v-{}", name)), widget.clone(), None).ok()?;
            page.add_form_widget_with_ref(widget, fr).ok()?;
            any_field = true;
            y -= 30.0;
        }
        let opts = strs(&p["combo"]);
        if !opts.is_empty() {
            let rect = Rectangle::new(Point::new(100.0, y), Point::new(300.0, y + 20.0));
            let widget = Widget::new(rect).with_appearance(WidgetAppearance::default());
            let mut cb = ComboBox::new("combo");
            for (i, o) in opts.iter().enumerate() {
                cb = cb.add_option(format!("e{}", i), o.clone());
            }
            let fr = fm.add_combo_box(cb, widget.clone(), None).ok()?;
            page.add_form_widget_with_ref(widget, fr).ok()?;
            any_field = true;
        }
        doc.add_page(page);
    }
    if any_field {
        doc.set_form_manager(fm);
    }
    if let Some(prefix) = d["label"].as_str() {
        let n = d["pages"].as_array().map(|a| a.len()).unwrap_or(1) as u32;
        doc.set_page_labels(oxidize_pdf::page_labels::PageLabelBuilder::new().prefix_pages(n, prefix).build());
    }
    if encrypt {
        doc.set_encryption(DocumentEncryption::new(spec.user.clone(), spec.owner.clone(), Permissions::from_bits(spec.perm), spec.strength()));
    }
    Some(doc)
}

pub struct Written {
    pub bytes: Vec<u8>,
    pub plain: Vec<(u32, u16, T, bool)>, // objects handed to write_object, before encryption
}
pub fn write(spec: &Spec, encrypt: bool) -> Result<Written, String> {
    let spec = spec.clone();
    catch(std::panic::AssertUnwindSafe(move || {
        let mut doc = build_doc(&spec, encrypt).ok_or("build")?;
        oxidize_pdf::writer::verif_c05_start();
        let r = doc.to_bytes_with_config(spec.config());
        let log = oxidize_pdf::writer::verif_c05_take();
        let bytes = r.map_err(|e| format!("write: {e:?}"))?;
        Ok(Written { bytes, plain: log.iter().map(|(id, o, e)| (id.number(), id.generation(), T::from_object(o), *e)).collect() })
    }))
    .unwrap_or_else(|p| Err(format!("panic: {p}")))
}

/// what the reader gives for one password
pub struct ReadBack {
    pub opened: Result<(), String>,
    pub is_encrypted: bool,
    pub locked_before: bool,
    pub unlock: Option<bool>, // unlock_with_password result (None = error)
    pub key: Option<Vec<u8>>,
    pub perms: Option<u32>,
    pub objects: Vec<(u32, u16, Result<T, String>)>,
    pub title: Option<String>,
    pub text: Result<String, String>,
}
pub fn read_back(bytes: &[u8], pw: &str, ids: &[(u32, u16)], want_text: bool) -> ReadBack {
    let b = bytes.to_vec();
    let pw = pw.to_string();
    let ids = ids.to_vec();
    let r = catch(std::panic::AssertUnwindSafe(move || {
        let mut rb = ReadBack {
            opened: Ok(()),
            is_encrypted: false,
            locked_before: false,
            unlock: None,
            key: None,
            perms: None,
            objects: vec![],
            title: None,
            text: Err("not read".into()),
        };
        let mut rd = match PdfReader::new(Cursor::new(b)) {
            Ok(r) => r,
            Err(e) => {
                rb.opened = Err(format!("{e:?}"));
                return rb;
            }
        };
        rb.is_encrypted = rd.is_encrypted();
        rb.locked_before = !rd.is_unlocked();
        rb.unlock = rd.unlock_with_password(&pw).ok();
        rb.key = rd.encryption_handler().and_then(|h| h.encryption_key()).map(|k| k.as_bytes().to_vec());
        rb.perms = rd.encryption_handler().map(|h| h.permissions().bits());
        for (n, g) in ids {
            let o = rd.get_object(n, g).map(T::from_pdf).map_err(|e| format!("{e:?}"));
            rb.objects.push((n, g, o));
        }
        rb.title = rd.metadata().ok().and_then(|m| m.title);
        if want_text {
            let doc = rd.into_document();
            rb.text = doc.extract_text().map(|v| v.iter().map(|t| t.text.clone()).collect::<Vec<_>>().join("\u{c}")).map_err(|e| format!("{e:?}"));
        }
        rb
    }));
    r.unwrap_or_else(|p| ReadBack {
        opened: Err(format!("panic: {p}")),
        is_encrypted: false,
        locked_before: false,
        unlock: None,
        key: None,
        perms: None,
        objects: vec![],
        title: None,
        text: Err("panic".into()),
    })
}

fn sample_doc(rng: &mut Rng, small: bool) -> Value {
    let pool = [
        "Quarterly report", "Año Ñandú", "(paren) \\ back", "", "x", "line with ) only", "日本語テキスト", "A longer title that exceeds sixteen bytes so that AES needs two blocks",
        "tab\there", "sixteen bytes!!!",
    ];
    let mut pick = |rng: &mut Rng| pool[rng.below(pool.len() as u64) as usize].to_string();
    let npages = if small { 1 } else { rng.range(1, 2) };
    let mut pages = vec![];
    for _ in 0..npages {
        let nt = rng.range(0, 3);
        let text: Vec<String> = (0..nt).map(|i| format!("Hello {} {}", i, ["world", "(x)", "PDF", "back\\slash"][rng.below(4) as usize])).collect();
        let na = rng.range(0, 2);
        let annots: Vec<Vec<String>> = (0..na).map(|_| vec![pick(rng), pick(rng)]).collect();
        let nf = if rng.chance(1, 2) { rng.range(1, 2) } else { 0 };
        let fields: Vec<String> = (0..nf).map(|i| format!("f{}", i)).collect();
        let combo: Vec<String> = if rng.chance(1, 2) { vec![pick(rng), "second option".to_string()] } else { vec![] };
        pages.push(json!({"text": text, "annots": annots, "fields": fields, "combo": combo}));
    }
    json!({"title": pick(rng), "author": pick(rng), "subject": if rng.chance(1,2) { json!(pick(rng)) } else { Value::Null }, "keywords": Value::Null, "pages": pages})
}

pub fn passwords(rng: &mut Rng) -> (String, String) {
    let pool: Vec<String> = vec![
        "".into(),
        "user".into(),
        "owner".into(),
        "p(a)ss".into(),
        "pässwörd".into(),
        "пароль".into(),
        "0123456789012345678901234567890123456789".into(), // 40 bytes > 32
        "Z".repeat(127),
        "é".repeat(70), // 140 bytes
        "(".into(),
    ];
    let u = pool[rng.below(pool.len() as u64) as usize].clone();
    let mut o = pool[rng.below(pool.len() as u64) as usize].clone();
    if o == u && rng.chance(2, 3) {
        o = format!("{}-o", o);
    }
    (u, o)
}

/// A password whose UTF-8 encoding has a `size`-byte character beginning `k` bytes before byte
/// offset `limit` (32 = the padding/truncation point of Algorithms 2/3 for R2-R4, 127 = the R5/R6
/// limit): k = 0 the character starts exactly at the limit, k = size it ends exactly there,
/// 0 < k < size it lies ACROSS the limit.  Always longer than `limit` bytes (k = size: by its tail).
pub fn boundary_password(limit: usize, size: usize, k: usize, fill: char) -> String {
    let ch = match size {
        2 => '\u{e9}',
        3 => '\u{20ac}',
        _ => '\u{1f600}',
    };
    let mut s: String = std::iter::repeat(fill).take(limit - k).collect();
    s.push(ch);
    s.push_str("Zz");
    s
}

/// documents dedicated to the truncation points: both passwords are boundary passwords, and every
/// document is unlocked with the user AND the owner password (doc_cases does that for every spec)
pub fn boundary_specs(ctx: &Ctx, rng: &mut Rng, out: &mut Vec<Spec>) {
    let perms = [0xFFFF_FFFCu32, 0xFFFF_F0C4];
    for strength in 0..4u64 {
        let limit = if strength == 3 { 127 } else { 32 };
        // (user (size, k), owner (size, k))
        let mut pairs: Vec<((usize, usize), (usize, usize))> = vec![];
        if ctx.thorough() {
            // every position of every character size, in both roles
            let all: Vec<(usize, usize)> = (2..=4usize).flat_map(|sz| (0..=sz).map(move |k| (sz, k))).collect();
            for (i, a) in all.iter().enumerate() {
                pairs.push((*a, all[(i + 5) % all.len()]));
            }
        } else if strength < 3 {
            // a 2-, 3- and 4-byte character across byte 32 in each role, plus the neighbours
            let k4 = if rng.chance(1, 2) { 1 } else { 3 };
            pairs.push(((2, 1), (3, 1)));
            pairs.push(((3, 2), (4, 2)));
            pairs.push(((4, k4), (2, 1)));
            let (a, b) = (rng.range(2, 4) as usize, rng.range(2, 4) as usize);
            if (ctx.seed + strength) % 2 == 0 {
                pairs.push(((a, a), (b, 0)));
            } else {
                pairs.push(((a, 0), (b, b)));
            }
        } else {
            // R5: the library hashes all bytes on both sides (C06-long-password-r5); still exercised
            let a = rng.range(2, 4) as usize;
            let b = rng.range(2, 4) as usize;
            pairs.push(((a, rng.range(1, a as u64 - 1) as usize), (b, rng.range(1, b as u64 - 1) as usize)));
            pairs.push(((b, b), (a, 0)));
        }
        for (u, o) in pairs {
            let doc = sample_doc(rng, true);
            let cfg = *rng.pick(&[0u64, 0, 2]);
            out.push(Spec {
                doc,
                strength,
                cfg,
                user: boundary_password(limit, u.0, u.1, 'u'),
                owner: boundary_password(limit, o.0, o.1, 'o'),
                perm: *rng.pick(&perms),
            });
        }
    }
}

fn explore(ctx: &Ctx) {
    let mut rng = Rng::new(ctx.seed);
    for strength in 0..4u64 {
        for cfg in [0u64, 1, 2, 3, 4, 5] {
            let doc = sample_doc(&mut rng, true);
            for (user, owner) in [("", "own"), ("usr", "own"), ("usr", ""), ("p(w", "q")] {
                let spec = Spec { doc: doc.clone(), strength, cfg, user: user.into(), owner: owner.into(), perm: 0xFFFF_F0C4 };
                let w = match write(&spec, true) {
                    Ok(w) => w,
                    Err(e) => {
                        println!("s{} c{} u={:?} o={:?}: WRITE {}", strength, cfg, user, owner, e);
                        continue;
                    }
                };
                let ids: Vec<(u32, u16)> = w.plain.iter().map(|(n, g, _, _)| (*n, *g)).collect();
                let raws = scan_objects(&w.bytes);
                for pw in [user, owner, "wrong"] {
                    let rb = read_back(&w.bytes, pw, &ids, true);
                    let mut ok = 0;
                    let mut bad = vec![];
                    for ((n, _g, o), (_, _, p, _)) in rb.objects.iter().zip(w.plain.iter()) {
                        let (mut a, mut b) = (vec![], vec![]);
                        p.payload(&mut b);
                        match o {
                            Ok(t) => {
                                t.payload(&mut a);
                                if a == b {
                                    ok += 1
                                } else {
                                    bad.push(format!("{}:differs", n))
                                }
                            }
                            Err(e) => bad.push(format!("{}:{}", n, &e[..e.len().min(60)])),
                        }
                    }
                    println!(
                        "s{} c{} u={:?} o={:?} pw={:?}: open={:?} enc={} locked={} unlock={:?} key={:?} perms={:?} raw={} objs ok={} bad={:?} title={:?} text={:?}",
                        strength, cfg, user, owner, pw, rb.opened, rb.is_encrypted, rb.locked_before, rb.unlock, rb.key.as_ref().map(|k| k.len()), rb.perms, raws.len(), ok,
                        &bad[..bad.len().min(4)], rb.title, rb.text.as_ref().map(|t| t.len()).map_err(|e| e[..e.len().min(50)].to_string())
                    );
                }
            }
        }
    }
}


// ------------------------------------------------------------------ /Encrypt parameters
#[derive(Clone, Debug, Default)]
pub struct EncParams {
    pub r: u64,
    pub n: u64, // key length in bytes
    pub o: Vec<u8>,
    pub u: Vec<u8>,
    pub oe: Vec<u8>,
    pub ue: Vec<u8>,
    pub perms: Vec<u8>,
    pub p: u32,
    pub id: Vec<u8>,
    pub encmeta: bool,
    pub meth: u64, // 0 V2 (RC4), 1 AESV2, 2 AESV3
}
fn tstr(t: Option<&T>) -> Vec<u8> {
    match t {
        Some(T::Str(b)) => b.clone(),
        _ => vec![],
    }
}
fn tnum(t: Option<&T>) -> Option<i64> {
    match t {
        Some(T::Num(s)) => s.parse::<i64>().ok(),
        _ => None,
    }
}
pub fn enc_params(enc: &T, trailer: Option<&T>) -> EncParams {
    let r = tnum(enc.get("R")).unwrap_or(0) as u64;
    let v = tnum(enc.get("V")).unwrap_or(0);
    let bits = tnum(enc.get("Length")).unwrap_or(if r >= 5 { 256 } else { 40 });
    let mut meth = 0;
    if v >= 4 {
        let stmf = match enc.get("StmF") {
            Some(T::Name(n)) => n.clone(),
            _ => b"Identity".to_vec(),
        };
        let cfm = enc.get("CF").and_then(|cf| cf.get(&String::from_utf8_lossy(&stmf))).and_then(|f| f.get("CFM"));
        meth = match cfm {
            Some(T::Name(n)) if n == b"AESV2" => 1,
            Some(T::Name(n)) if n == b"AESV3" => 2,
            _ => 0,
        };
    }
    let id = match trailer.and_then(|t| t.get("ID")) {
        Some(T::Arr(a)) => tstr(a.first()),
        _ => vec![],
    };
    EncParams {
        r,
        n: if r >= 5 { 32 } else if r == 2 { 5 } else { (bits / 8) as u64 },
        o: tstr(enc.get("O")),
        u: tstr(enc.get("U")),
        oe: tstr(enc.get("OE")),
        ue: tstr(enc.get("UE")),
        perms: tstr(enc.get("Perms")),
        p: tnum(enc.get("P")).unwrap_or(0) as i32 as u32,
        id,
        encmeta: !matches!(enc.get("EncryptMetadata"), Some(T::Bool(false))),
        meth,
    }
}
pub fn coq_obool(o: Option<bool>) -> String {
    coq_opt(o.map(coq_bool))
}
pub fn coq_obytes(o: Option<&Vec<u8>>) -> String {
    coq_opt(o.map(|b| coq_bytes(b)))
}
pub fn key_case_coq(e: &EncParams, pw: &[u8], kind: u64, ok: Option<bool>, key: Option<&Vec<u8>>) -> String {
    format!(
        "({}, {}, {}, {}, {}, {}, {}, {}, {}, {}, {}, {}, {})",
        e.r, e.n, coq_bytes(&e.o), coq_bytes(&e.u), coq_bytes(&e.oe), coq_bytes(&e.ue), e.p, coq_bytes(&e.id), coq_bool(e.encmeta), coq_bytes(pw), kind,
        coq_obool(ok), coq_obytes(key)
    )
}

/// the trailer dictionary as the reader will see it: classic trailer or the xref-stream dictionary
pub fn find_trailer(bytes: &[u8], raws: &[(u32, u16, T)]) -> Option<T> {
    if let Some((_, _, t)) = raws.iter().rev().find(|(_, _, t)| matches!(t.get("Type"), Some(T::Name(n)) if n == b"XRef")) {
        // only the dictionary matters for the trailer flags; the table data of a "modern" file is
        // 6 MB (ids near 1 000 000) and must not travel into the case file
        return Some(match t {
            T::Stream(d, _) => T::Dict(d.clone()),
            other => other.clone(),
        });
    }
    scan_trailer(bytes)
}

const SKIP: [&str; 9] = ["Length", "Filter", "DecodeParms", "Encrypt", "ID", "O", "U", "P", "Perms"];
/// does the object hold a string below one of the dictionary keys the writer skips?
pub fn has_skipped_string(t: &T) -> bool {
    match t {
        T::Arr(a) => a.iter().any(has_skipped_string),
        T::Dict(d) => d.iter().any(|(k, v)| if SKIP.iter().any(|s| s.as_bytes() == &k[..]) { v.has_payload() } else { has_skipped_string(v) }),
        _ => false,
    }
}

pub struct Outs {
    pub key: Out,
    pub obj: Out,
    pub doc: Out,
}

/// all cases of one document specification
pub fn doc_cases(spec: &Spec, o: &mut Outs) {
    let js = |ch: &str, extra: Value| {
        let mut v = spec.json();
        v["ch"] = json!(ch);
        if let Value::Object(m) = extra {
            for (k, x) in m {
                v[k] = x;
            }
        }
        v
    };
    let cls = format!("s{}-c{}", spec.strength, spec.cfg);
    // plaintext build
    let w0 = match write(spec, false) {
        Ok(w) => w,
        Err(_) => {
            o.doc.count("plain-write-failed");
            return;
        }
    };
    let rb0 = read_back(&w0.bytes, "", &[], true);
    let (text0, title0) = match (&rb0.opened, &rb0.text) {
        (Ok(()), Ok(t)) => (t.clone(), rb0.title.clone().unwrap_or_else(|| "<none>".into())),
        _ => {
            // the writer configuration does not read back even without encryption: not C05's subject
            o.doc.count("plain-unreadable");
            return;
        }
    };
    let w1 = match write(spec, true) {
        Ok(w) => w,
        Err(e) => {
            o.doc.impl_failures.push(json!({"case": js("doc", json!({})), "what": format!("encrypted write failed: {e}")}));
            return;
        }
    };
    let raws = scan_objects(&w1.bytes);
    let trailer = find_trailer(&w1.bytes, &raws);
    let encd = match w1.plain.iter().find(|(_, _, t, active)| !*active && t.get("O").is_some() && t.get("U").is_some()) {
        Some(e) => e.clone(),
        None => {
            o.doc.impl_failures.push(json!({"case": js("doc", json!({})), "what": "no /Encrypt dictionary was written"}));
            return;
        }
    };
    let ep = enc_params(&encd.2, trailer.as_ref());
    // plaintext object streams (hook) -> members as they stand in the stream
    let mut members: std::collections::BTreeMap<u32, T> = Default::default();
    for (_, _, t, _) in w1.plain.iter() {
        if let T::Stream(d, data) = t {
            if matches!(t.get("Type"), Some(T::Name(n)) if n == b"ObjStm") {
                if let Some(dec) = inflate(data) {
                    for (n, m) in objstm_members(d, &dec) {
                        members.insert(n, m);
                    }
                }
            }
        }
    }
    let ids: Vec<(u32, u16)> = w1.plain.iter().filter(|(_, _, _, a)| *a).map(|(n, g, _, _)| (*n, *g)).collect();
    let preq = Permissions::from_bits(spec.perm).bits();
    let mut wrong = format!("x{}", spec.user);
    if wrong == spec.owner {
        wrong.push('y');
    }
    let mut user_objs: Vec<Result<T, String>> = vec![];
    for (kind, pw) in [(0u64, spec.user.clone()), (1, spec.owner.clone()), (2, wrong)] {
        let rb = read_back(&w1.bytes, &pw, &ids, kind != 2);
        if let Err(e) = &rb.opened {
            o.doc.impl_failures.push(json!({"case": js("doc", json!({"kind": kind})), "what": format!("encrypted file does not open: {e}")}));
            return;
        }
        // a password that happens to equal the other one counts as that one
        let kind_eff = if kind == 2 && (pw == spec.user || pw == spec.owner) { 0 } else { kind };
        o.key.push(
            key_case_coq(&ep, pw.as_bytes(), kind_eff, rb.unlock, rb.key.as_ref()),
            js("key", json!({"kind": kind, "lib_ok": rb.unlock})),
            &format!("{}-k{}", cls, kind),
            rb.unlock == Some(true),
        );
        if kind == 2 {
            continue;
        }
        // document level
        let (text1, text_err) = match &rb.text {
            Ok(t) => (t.clone().into_bytes(), Value::Null),
            Err(e) => (format!("ERR:{e}").into_bytes(), json!(e)),
        };
        let title1 = rb.title.clone().unwrap_or_else(|| "<none>".into());
        o.doc.push(
            format!(
                "({}, {}, {}, {}, {}, {}, {}, {}, {}, {})",
                trailer.as_ref().map(|t| t.coq()).unwrap_or_else(|| "ONull".into()),
                coq_bool(rb.is_encrypted),
                coq_bool(!spec.user.is_empty()),
                coq_bool(rb.locked_before),
                preq,
                rb.perms.map(|p| p as u64).unwrap_or(0xFFFF_FFFF_FF),
                coq_bytes(text0.as_bytes()),
                coq_bytes(&text1),
                coq_bytes(title0.as_bytes()),
                coq_bytes(title1.as_bytes())
            ),
            js("doc", json!({"kind": kind, "text_err": text_err})),
            &cls,
            !text0.is_empty() || !title0.is_empty(),
        );
        // object level
        let key = match &rb.key {
            Some(k) => k.clone(),
            None => continue,
        };
        for (i, (n, g, plain, _)) in w1.plain.iter().filter(|(_, _, _, a)| *a).enumerate() {
            let lib = rb.objects.get(i).map(|(_, _, r)| r.clone()).unwrap_or(Err("missing".into()));
            if kind == 1 {
                // the owner's view is only written out where it differs from the user's
                if user_objs.get(i).map(|u| u.as_ref().ok() == lib.as_ref().ok()).unwrap_or(false) {
                    continue;
                }
            } else {
                user_objs.push(lib.clone());
            }
            let (flags, raw) = match raws.iter().find(|(rn, rg, _)| rn == n && rg == g) {
                Some((_, _, t)) => (0u64, t.clone()),
                None => match members.get(n) {
                    Some(m) => (1, m.clone()),
                    None => {
                        o.obj.impl_failures.push(json!({"case": js("obj", json!({"obj": n})), "what": "object handed to write_object not found in the file"}));
                        continue;
                    }
                },
            };
            if plain.size() + raw.size() > 3500 {
                o.obj.count("skipped-large");
                continue;
            }
            if !plain.has_payload() && (n + spec.cfg as u32) % 4 != 0 {
                continue; // objects without strings/streams: a sample is enough
            }
            o.obj.push(
                format!(
                    "({}, {}, {}, {}, {}, {}, {}, {})",
                    ep.meth, coq_bytes(&key), n, g, flags, plain.coq(), raw.coq(),
                    coq_opt(lib.as_ref().ok().map(|t| t.coq()))
                ),
                js("obj", json!({"kind": kind, "obj": n, "member": flags, "skipkey": has_skipped_string(plain), "lib_err": lib.as_ref().err()})),
                &format!("{}{}", cls, if flags == 1 { "-member" } else { "" }),
                plain.has_payload(),
            );
        }
    }
}

pub fn gen_specs(ctx: &Ctx) -> Vec<Spec> {
    let mut rng = Rng::new(ctx.seed ^ 0xC05);
    let mut out = vec![];
    let reps = if ctx.thorough() { 5 } else { 1 };
    let perms = [0xFFFF_FFFCu32, 0xFFFF_F0C0, 0xFFFF_F0C4, 0xFFFF_FFFC & !0x10, 0xFFFF_F2C4, 0xFFFF_F8C4];
    for _ in 0..reps {
        for strength in 0..4u64 {
            for cfg in 0..6u64 {
                let heavy = cfg >= 4; // object streams: /Size 1000001, seconds per open
                if heavy && !ctx.thorough() {
                    // quick: object streams for two strengths per run (alternating with the seed);
                    // the uncompressed variant (not readable even in plaintext today) for one
                    let pick = (strength + ctx.seed) % 2 == 0;
                    if (cfg == 4 && !pick) || (cfg == 5 && strength != ctx.seed % 4) {
                        continue;
                    }
                }
                let npw = if heavy { 1 } else { 2 };
                for _ in 0..npw {
                    let (user, owner) = passwords(&mut rng);
                    let mut doc = sample_doc(&mut rng, heavy);
                    if rng.chance(1, 6) {
                        doc["label"] = json!("A-");
                    }
                    out.push(Spec { doc, strength, cfg, user, owner, perm: *rng.pick(&perms) });
                }
            }
        }
    }
    boundary_specs(ctx, &mut rng, &mut out);
    out
}

pub fn new_outs(ctx: &Ctx) -> Outs {
    let mut o = Outs {
        key: Out::new(ctx, HEADER, "key_case", "key_code"),
        obj: Out::new(ctx, HEADER, "obj_case", "obj_code"),
        doc: Out::new(ctx, HEADER, "doc_case", "doc_code"),
    };
    o.key.shard_size = 12;
    o.obj.shard_size = 40;
    o.doc.shard_size = 40;
    o
}

pub fn run(ctx: &Ctx) {
    if ctx.flag("--explore") {
        explore(ctx);
        return;
    }
    let specs: Vec<Spec> = match ctx.replay_cases() {
        Some(cases) => {
            let mut seen = std::collections::HashSet::new();
            cases.iter().map(Spec::from).filter(|s| seen.insert(s.json().to_string())).collect()
        }
        None => gen_specs(ctx),
    };
    let mut o = new_outs(ctx);
    for s in &specs {
        doc_cases(s, &mut o);
    }
    o.key.finish("key");
    o.obj.finish("obj");
    o.doc.finish("doc");
}
