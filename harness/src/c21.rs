//! C21 — content streams: graphics/ops.rs `serialize_ops` (through the cfg(oxidizepdf_verif) mirror
//! `graphics::verif_ops`), the GraphicsContext / TextContext / Page APIs that produce operators, and
//! `ContentParser::parse`, against the Gallina models of coq/theories/C21.
//!
//! channels: `ops` (generated operator sequences through the hook), `api` (sequences produced by the
//! public APIs, read back through `verif_ops()`), `raw` (arbitrary bytes: termination + parser model).
//! Every case is regenerated from its own seed (`{"ch":..,"seed":..,"variant":..}`), raw cases may
//! also be given literally (`{"ch":"raw","hex":..}`).
use crate::util::*;
use oxidize_pdf::graphics::verif_ops::{self as vo, VOp, VTj};
use oxidize_pdf::graphics::{Color, GraphicsContext, LineCap, LineDashPattern, LineJoin, TransparencyGroup};
use oxidize_pdf::objects::Object;
use oxidize_pdf::parser::content::{ContentOperation, ContentParser, MarkedContentProps, MarkedContentValue, TextElement};
use oxidize_pdf::text::{Font, TextContext, TextEncoding, TextRenderingMode};
use oxidize_pdf::Page;
use serde_json::{json, Value};
use std::time::Instant;

// ---------------------------------------------------------------- model-side operator
#[derive(Clone, Debug)]
enum M {
    V(VOp),
    Bdc(String),
    BdcActual(String, String),
    Emc,
}

fn coq_f64(x: f64) -> String {
    if x.is_nan() {
        return "FNan".into();
    }
    let b = x.to_bits();
    let neg = coq_bool(b >> 63 == 1);
    if x.is_infinite() {
        return format!("(FInf {neg})");
    }
    let exp = ((b >> 52) & 0x7ff) as i64;
    let frac = b & ((1u64 << 52) - 1);
    let (m, e) = if exp == 0 { (frac, -1074) } else { (frac | (1u64 << 52), exp - 1075) };
    format!("(FFin {neg} {m} ({e})%Z)")
}
/// sign, mantissa, exponent of finite_or_zero(x) in the canonical form of `f64_of_dec`
fn coq_f64_witness(x: f64) -> String {
    let s = if x.is_finite() { x } else { 0.0 };
    let b = s.to_bits();
    let exp = ((b >> 52) & 0x7ff) as i64;
    let frac = b & ((1u64 << 52) - 1);
    let (m, e) = if exp == 0 { (frac, -1074) } else { (frac | (1u64 << 52), exp - 1075) };
    format!("({}, {m}, ({e})%Z)", coq_bool(b >> 63 == 1))
}
/// Display of finite_or_zero(x): sign, all digits as one integer, number of fraction digits
fn display_digits(x: f64) -> (bool, String, usize) {
    let s = if x.is_finite() { x } else { 0.0 };
    let t = format!("{}", s);
    let (neg, t) = match t.strip_prefix('-') {
        Some(r) => (true, r.to_string()),
        None => (false, t),
    };
    let (ip, fp) = match t.split_once('.') {
        Some((a, b)) => (a.to_string(), b.to_string()),
        None => (t.clone(), String::new()),
    };
    assert!(ip.bytes().chain(fp.bytes()).all(|c| c.is_ascii_digit()), "Display printed {t:?}");
    let all = format!("{ip}{fp}");
    let d = all.trim_start_matches('0');
    (neg, if d.is_empty() { "0".into() } else { d.into() }, fp.len())
}
fn coq_flist(a: &[f64]) -> String {
    coq_list(a.iter().map(|x| coq_f64(*x)))
}
fn coq_color(c: &Color) -> String {
    match c {
        Color::Rgb(r, g, b) => format!("(Rgb {} {} {})", coq_f64(*r), coq_f64(*g), coq_f64(*b)),
        Color::Gray(g) => format!("(Gray {})", coq_f64(*g)),
        Color::Cmyk(c, m, y, k) => format!("(Cmyk {} {} {} {})", coq_f64(*c), coq_f64(*m), coq_f64(*y), coq_f64(*k)),
    }
}
fn bs(s: &str) -> String {
    coq_bytes(s.as_bytes())
}

/// Coq term of one operator; `mcid` is the id the Page assigned (for marked content)
fn m_coq(m: &M, mcid: Option<u32>) -> String {
    match m {
        M::V(v) => match v {
            VOp::Nums(o, a) => format!("(ONums {} {})", bs(o), coq_flist(a)),
            VOp::Plain(o) => format!("(OPlain {})", bs(o)),
            VOp::ClipStroke => "OClipStroke".into(),
            VOp::Named(o, n) => format!("(ONamed {} {})", bs(o), bs(n)),
            VOp::Color(st, c) => format!("(OColor {} {})", coq_bool(*st), coq_color(c)),
            VOp::Comps(st, a) => format!("(OComps {} {})", coq_bool(*st), coq_flist(a)),
            VOp::Small(o, v) => format!("(OSmall {} {})", bs(o), v),
            VOp::Dash(a, ph) => format!("(ODash {} {})", coq_flist(a), coq_f64(*ph)),
            VOp::DashRaw(s) => format!("(ORaw {})", coq_bytes(format!("{s} d\n").as_bytes())),
            VOp::Font(n, size) => {
                let (neg, d, k) = display_digits(*size);
                format!("(OFont {} {} {} {})", bs(n), coq_bool(neg), d, k)
            }
            VOp::ShowText(b) => format!("(OShowText {})", coq_bytes(b)),
            VOp::ShowTextEscaped(b) => {
                let mut r = vec![b'('];
                r.extend_from_slice(b);
                r.extend_from_slice(b") Tj\n");
                format!("(ORaw {})", coq_bytes(&r))
            }
            VOp::ShowTextHex(b) => format!("(OShowHex {})", coq_bytes(b)),
            VOp::ShowTextArray(l) => format!(
                "(OTJ {})",
                coq_list(l.iter().map(|e| match e {
                    VTj::Glyphs(b) => format!("VGlyphs {}", coq_bytes(b)),
                    VTj::Adjust(x) => format!("VAdjust {}", coq_f64(*x as f64)),
                }))
            ),
            VOp::Comment(s) => format!("(OComment {})", bs(s)),
            VOp::Raw(b) => format!("(ORaw {})", coq_bytes(b)),
        },
        M::Bdc(tag) => format!("(OBdc {} {})", bs(tag), mcid.unwrap()),
        M::BdcActual(tag, text) => format!(
            "(OBdcActual {} {} {})",
            bs(tag),
            mcid.unwrap(),
            coq_list(text.encode_utf16().map(|u| u.to_string()))
        ),
        M::Emc => "OEmc".into(),
    }
}
fn font_witnesses(ms: &[M]) -> String {
    coq_list(ms.iter().filter_map(|m| match m {
        M::V(VOp::Font(_, size)) => Some(coq_f64_witness(*size)),
        _ => None,
    }))
}

// ---------------------------------------------------------------- parsed result → Coq
fn fb(x: f32) -> String {
    x.to_bits().to_string()
}
fn fl(a: &[f32]) -> String {
    coq_list(a.iter().map(|x| fb(*x)))
}
fn nums(o: &str, a: &[f32]) -> String {
    format!("CNums {} {}", bs(o), fl(a))
}
fn mcv_coq(v: &MarkedContentValue) -> String {
    match v {
        MarkedContentValue::String(b) => format!("(MStr {})", coq_bytes(b)),
        MarkedContentValue::Integer(i) => format!("(MInt {})", coq_z(*i as i128)),
        MarkedContentValue::Real(f) => format!("(MReal {})", fb(*f as f32)),
        MarkedContentValue::Name(n) => format!("(MName {})", bs(n)),
        MarkedContentValue::Array(l) => format!("(MArr {})", coq_list(l.iter().map(mcv_coq))),
        MarkedContentValue::Dict(d) => format!("(MDict {})", dict_coq(d)),
    }
}
fn dict_coq(d: &std::collections::HashMap<String, MarkedContentValue>) -> String {
    let mut ks: Vec<&String> = d.keys().collect();
    ks.sort_by(|a, b| a.as_bytes().cmp(b.as_bytes()));
    coq_list(ks.into_iter().map(|k| format!("({}, {})", bs(k), mcv_coq(&d[k]))))
}
fn props_coq(p: &MarkedContentProps) -> String {
    match p {
        MarkedContentProps::Inline(d) => format!("(PInline {})", dict_coq(d)),
        MarkedContentProps::ResourceRef(n) => format!("(PRef {})", bs(n)),
    }
}
fn cop_coq(op: &ContentOperation) -> String {
    use ContentOperation::*;
    let pl = |o: &str| format!("CPlain {}", bs(o));
    let nm = |o: &str, n: &String| format!("CName {} {}", bs(o), bs(n));
    match op {
        BeginText => pl("BT"),
        EndText => pl("ET"),
        SetCharSpacing(x) => nums("Tc", &[*x]),
        SetWordSpacing(x) => nums("Tw", &[*x]),
        SetHorizontalScaling(x) => nums("Tz", &[*x]),
        SetLeading(x) => nums("TL", &[*x]),
        SetFont(n, s) => format!("CFont {} {}", bs(n), fb(*s)),
        SetTextRenderMode(i) => format!("CInt {} {}", bs("Tr"), coq_z(*i as i128)),
        SetTextRise(x) => nums("Ts", &[*x]),
        MoveText(a, b) => nums("Td", &[*a, *b]),
        MoveTextSetLeading(a, b) => nums("TD", &[*a, *b]),
        SetTextMatrix(a, b, c, d, e, f) => nums("Tm", &[*a, *b, *c, *d, *e, *f]),
        NextLine => pl("T*"),
        ShowText(s) => format!("CStr {} {}", bs("Tj"), coq_bytes(s)),
        ShowTextArray(l) => format!(
            "CTJ {}",
            coq_list(l.iter().map(|e| match e {
                TextElement::Text(s) => format!("JText {}", coq_bytes(s)),
                TextElement::Spacing(x) => format!("JSpace {}", fb(*x)),
            }))
        ),
        NextLineShowText(s) => format!("CStr {} {}", bs("'"), coq_bytes(s)),
        SetSpacingNextLineShowText(aw, ac, s) => format!("CQuote {} {} {}", fb(*aw), fb(*ac), coq_bytes(s)),
        SaveGraphicsState => pl("q"),
        RestoreGraphicsState => pl("Q"),
        SetTransformMatrix(a, b, c, d, e, f) => nums("cm", &[*a, *b, *c, *d, *e, *f]),
        SetLineWidth(x) => nums("w", &[*x]),
        SetLineCap(i) => format!("CInt {} {}", bs("J"), coq_z(*i as i128)),
        SetLineJoin(i) => format!("CInt {} {}", bs("j"), coq_z(*i as i128)),
        SetMiterLimit(x) => nums("M", &[*x]),
        SetDashPattern(a, p) => format!("CDash {} {}", fl(a), fb(*p)),
        SetIntent(n) => nm("ri", n),
        SetFlatness(x) => nums("i", &[*x]),
        SetGraphicsStateParams(n) => nm("gs", n),
        MoveTo(a, b) => nums("m", &[*a, *b]),
        LineTo(a, b) => nums("l", &[*a, *b]),
        CurveTo(a, b, c, d, e, f) => nums("c", &[*a, *b, *c, *d, *e, *f]),
        CurveToV(a, b, c, d) => nums("v", &[*a, *b, *c, *d]),
        CurveToY(a, b, c, d) => nums("y", &[*a, *b, *c, *d]),
        ClosePath => pl("h"),
        Rectangle(a, b, c, d) => nums("re", &[*a, *b, *c, *d]),
        Stroke => pl("S"),
        CloseStroke => pl("s"),
        Fill => pl("f"),
        FillEvenOdd => pl("f*"),
        FillStroke => pl("B"),
        FillStrokeEvenOdd => pl("B*"),
        CloseFillStroke => pl("b"),
        CloseFillStrokeEvenOdd => pl("b*"),
        EndPath => pl("n"),
        Clip => pl("W"),
        ClipEvenOdd => pl("W*"),
        SetStrokingColorSpace(n) => nm("CS", n),
        SetNonStrokingColorSpace(n) => nm("cs", n),
        SetStrokingColor(a) => format!("CComps {} {}", bs("SC"), fl(a)),
        SetNonStrokingColor(a) => format!("CComps {} {}", bs("sc"), fl(a)),
        SetStrokingGray(x) => nums("G", &[*x]),
        SetNonStrokingGray(x) => nums("g", &[*x]),
        SetStrokingRGB(a, b, c) => nums("RG", &[*a, *b, *c]),
        SetNonStrokingRGB(a, b, c) => nums("rg", &[*a, *b, *c]),
        SetStrokingCMYK(a, b, c, d) => nums("K", &[*a, *b, *c, *d]),
        SetNonStrokingCMYK(a, b, c, d) => nums("k", &[*a, *b, *c, *d]),
        ShadingFill(n) => nm("sh", n),
        BeginInlineImage => pl("BI"),
        InlineImage { params, data } => {
            let mut ks: Vec<&String> = params.keys().collect();
            ks.sort_by(|a, b| a.as_bytes().cmp(b.as_bytes()));
            let ps = coq_list(ks.into_iter().map(|k| {
                let v = match &params[k] {
                    Object::Integer(i) => format!("IVInt {}", coq_z(*i as i128)),
                    Object::Real(f) => format!("IVReal {}", fb(*f as f32)),
                    Object::Name(n) => format!("IVName {}", bs(n)),
                    Object::String(_) => "IVStr".into(),
                    _ => "IVNull".into(),
                };
                format!("({}, {})", bs(k), v)
            }));
            format!("CInline {} {}", ps, coq_bytes(data))
        }
        PaintXObject(n) => nm("Do", n),
        BeginMarkedContent(n) => nm("BMC", n),
        BeginMarkedContentWithProps(t, p) => format!("CMC {} {} {}", bs("BDC"), bs(t), props_coq(p)),
        EndMarkedContent => pl("EMC"),
        DefineMarkedContentPoint(n) => nm("MP", n),
        DefineMarkedContentPointWithProps(t, p) => format!("CMC {} {} {}", bs("DP"), bs(t), props_coq(p)),
        BeginCompatibility => pl("BX"),
        EndCompatibility => pl("EX"),
    }
}
fn cops_coq(ops: &[ContentOperation]) -> String {
    if ops.is_empty() {
        return "[]".into();
    }
    let mut s = String::from("(");
    for o in ops {
        s.push_str(&cop_coq(o));
        s.push_str(" :: ");
    }
    s.push_str("nil)");
    s
}

// ---------------------------------------------------------------- generators
fn gen_f64(r: &mut Rng) -> f64 {
    match r.below(100) {
        0..=29 => (r.below(2_000_001) as f64 - 1_000_000.0) / 100.0,
        30..=44 => (r.below(2_000_001) as f64 - 1_000_000.0) / 1000.0,
        45..=54 => (r.below(20_001) as f64 - 10_000.0) / 7.0,
        55..=62 => r.below(2001) as f64 - 1000.0,
        63..=66 => *r.pick(&[0.0, -0.0, 1.0, -1.0, 0.5, 0.005, 0.015, 0.025, -0.005, 0.125, 0.00049, 0.0005, 0.00005, 0.99999, 0.995]),
        67..=70 => *r.pick(&[f64::NAN, f64::INFINITY, f64::NEG_INFINITY]),
        71..=74 => *r.pick(&[5e-324, 2.2e-308, -1e-300, 1e-7, 1e-45, 1.4e-45, 1e-39]),
        75..=80 => *r.pick(&[1e9, 2147483647.0, 2147483648.0, -2147483649.0, 1e15, 9007199254740993.0, 16777217.0, 1e20, 3.4e38, 3.4028234e38, 1e30, -1e37,
                           9.3e16, 1e17, -3e17, 2e18, 9.2e18, -9.3e18, 92233720368547758.0, 9223372036854775807.0, 1e19, 4.6e18]),
        81 => *r.pick(&[3.4028235677973366e38, 3.5e38, 1e39, f64::MAX, -f64::MAX, 1e300, -4e38]),
        82..=83 => *r.pick(&[3.4028235677973365e38, 3.402823e38, -3.4028234663852886e38, 1.7014118346046923e38]),
        84..=91 => {
            // random sign/mantissa, exponent mostly inside the f32 range
            let e = if r.chance(1, 25) { r.below(2047) } else { r.range(1023 - 160, 1023 + 126) };
            f64::from_bits((r.next() & 0x800f_ffff_ffff_ffff) | (e << 52))
        }
        _ => {
            let e = r.range(0, 40) as i32 - 10;
            (r.below(1 << 53) as f64) * 2f64.powi(e - 53) * if r.chance(1, 2) { -1.0 } else { 1.0 }
        }
    }
}
fn gen_size(r: &mut Rng) -> f64 {
    match r.below(100) {
        0..=39 => r.range(1, 96) as f64,
        40..=59 => r.range(1, 960) as f64 / 10.0,
        60..=69 => *r.pick(&[0.0, -0.0, 12.5, 0.1, 1e-7, 1e-10, 5e-324, 123456.789, 16777217.0, 2147483647.0, -2147483648.0, 1e9]),
        70..=74 => *r.pick(&[2147483648.0, 1e10, -2147483649.0, 1e21, 4294967296.0]),
        75..=79 => *r.pick(&[f64::NAN, f64::INFINITY, f64::NEG_INFINITY]),
        _ => gen_f64(r),
    }
}
/// names over the whole alphabet: since fix_name_escape white space, delimiters and '#' are #XX-escaped at emission
fn gen_name(r: &mut Rng) -> String {
    let mut s = gen_word(r);
    if r.chance(1, 3) {
        const BAD: &[&str] = &[" ", "\t", "\n", "\r", "\u{c}", "/", "(", ")", "<", ">", "[", "]", "{", "}", "%", "#", "#20", "#4", "#zz", "#+5", "<<", ">>", " Do"];
        for _ in 0..r.range(1, 3) {
            let chars: Vec<char> = s.chars().collect();
            let pos = r.below(chars.len() as u64 + 1) as usize;
            let mut o: String = chars[..pos].iter().collect();
            o.push_str(*r.pick(BAD));
            o.extend(chars[pos..].iter());
            s = o;
        }
    }
    s
}
/// regular characters only (comments, which end at a line feed)
fn gen_word(r: &mut Rng) -> String {
    const ALPHA: &[&str] = &["A", "b", "Z", "q", "0", "7", "F", "Im", "GS", "-", "_", ".", "+", "*", "@", "!", "'", "\"", ":", ",", ";", "=", "~", "^", "é", "中", "\u{0}", "\u{7f}", "\u{1F600}", "&", "$", "|", "\\", "?"];
    let n = match r.below(10) {
        0 => 0,
        1..=7 => r.range(1, 6),
        _ => r.range(7, 24),
    };
    let mut s = String::new();
    for _ in 0..n {
        s.push_str(*r.pick(ALPHA));
    }
    s
}
fn gen_bytes(r: &mut Rng) -> Vec<u8> {
    let n = match r.below(10) {
        0 => 0,
        1..=6 => r.range(1, 12),
        _ => r.range(13, 60),
    } as usize;
    let special: &[u8] = b"()\\\n\r\t\x08\x0c01789 \x00\x01\x1f\x7f\x80\xff nrtbf";
    (0..n)
        .map(|_| if r.chance(1, 2) { *r.pick(special) } else { r.next() as u8 })
        .collect()
}
fn gen_hex(r: &mut Rng) -> Vec<u8> {
    let n = match r.below(8) {
        0 => 0,
        7 => 2 * r.range(0, 10) + 1,
        _ => 4 * r.range(1, 8),
    } as usize;
    (0..n).map(|_| *r.pick(b"0123456789ABCDEF")).collect()
}
fn gen_color(r: &mut Rng) -> Color {
    let mut c = |r: &mut Rng| if r.chance(4, 5) { r.below(1001) as f64 / 1000.0 } else { gen_f64(r) };
    match r.below(3) {
        0 => Color::Rgb(c(r), c(r), c(r)),
        1 => Color::Gray(c(r)),
        _ => Color::Cmyk(c(r), c(r), c(r), c(r)),
    }
}
const NUM_OPS: &[(&str, usize)] = &[("m", 2), ("l", 2), ("c", 6), ("re", 4), ("w", 1), ("M", 1), ("i", 1), ("cm", 6), ("Td", 2), ("Tw", 1), ("Tc", 1), ("Tz", 1), ("TL", 1), ("Ts", 1)];
const PLAIN_OPS: &[&str] = &["h", "S", "f", "B", "q", "Q", "BT", "ET", "n", "W", "W*"];
const NAMED_OPS: &[&str] = &["cs", "CS", "gs", "ri", "Do", "sh"];

fn gen_op(r: &mut Rng, open_mc: &mut u32, tame: bool) -> M {
    let mut num = |r: &mut Rng| if tame { (r.below(200_001) as f64 - 100_000.0) / 100.0 } else { gen_f64(r) };
    M::V(match r.below(100) {
        0..=29 => {
            let (o, n) = *r.pick(NUM_OPS);
            VOp::Nums(o, (0..n).map(|_| num(r)).collect())
        }
        30..=39 => VOp::Plain(*r.pick(PLAIN_OPS)),
        40..=41 => VOp::ClipStroke,
        42..=49 => VOp::Named(*r.pick(NAMED_OPS), gen_name(r)),
        50..=54 => VOp::Color(r.chance(1, 2), gen_color(r)),
        55..=58 => {
            let n = r.range(0, 5);
            VOp::Comps(r.chance(1, 2), (0..n).map(|_| num(r)).collect())
        }
        59..=62 => VOp::Small(*r.pick(&["J", "j", "Tr"]), if r.chance(4, 5) { r.below(8) as u8 } else { r.next() as u8 }),
        63..=66 => {
            let n = r.range(0, 4);
            VOp::Dash((0..n).map(|_| num(r)).collect(), num(r))
        }
        67..=73 => VOp::Font(gen_name(r), if tame { r.range(1, 960) as f64 / 10.0 } else { gen_size(r) }),
        74..=83 => VOp::ShowText(gen_bytes(r)),
        84..=86 => VOp::ShowTextHex(gen_hex(r)),
        87..=90 => {
            let n = r.range(0, 6);
            VOp::ShowTextArray(
                (0..n)
                    .map(|_| if r.chance(1, 2) { VTj::Glyphs(gen_hex(r)) } else { VTj::Adjust(num(r) as f32) })
                    .collect(),
            )
        }
        91..=92 => VOp::Comment(gen_word(r) + " x"),
        93..=95 => {
            *open_mc += 1;
            return M::Bdc(gen_name(r));
        }
        96..=97 => {
            *open_mc += 1;
            let t: String = (0..r.range(0, 6)).map(|_| *r.pick(&['f', 'i', 'é', '€', '\u{1F600}', '(', '>', ' ', '中'])).collect();
            return M::BdcActual(gen_name(r), t);
        }
        _ => {
            if *open_mc > 0 {
                *open_mc -= 1;
                return M::Emc;
            }
            VOp::Plain("q")
        }
    })
}

/// mirror sequence + the mcids the Page assigned; marked-content operators are produced by a real Page
fn realize(ms: &[M]) -> (Vec<VOp>, Vec<Option<u32>>) {
    let mut page = Page::a4();
    let mut vops = vec![];
    let mut ids = vec![];
    for m in ms {
        let before = page.text().verif_ops().len();
        let id = match m {
            M::V(v) => {
                vops.push(v.clone());
                ids.push(None);
                continue;
            }
            M::Bdc(tag) => Some(page.begin_marked_content(tag).expect("begin_marked_content")),
            M::BdcActual(tag, text) => Some(page.begin_marked_content_with_actual_text(tag, text).expect("bdc actual")),
            M::Emc => {
                page.end_marked_content().expect("end_marked_content");
                None
            }
        };
        let all = page.text().verif_ops();
        assert_eq!(all.len(), before + 1, "marked-content call appended one operator");
        vops.push(all[before].clone());
        ids.push(id);
    }
    (vops, ids)
}

fn parse_guarded(bytes: &[u8]) -> (bool, Vec<ContentOperation>, f64) {
    let t = Instant::now();
    let b = bytes.to_vec();
    let res = catch(std::panic::AssertUnwindSafe(move || ContentParser::parse(&b)));
    let el = t.elapsed().as_secs_f64();
    match res {
        Ok(Ok(ops)) => (el < 10.0, ops, el),
        _ => (false, vec![], el),
    }
}

fn emit_ops(out: &mut Out, ch: &str, js: Value, ms: &[M], ids: &[Option<u32>], emitted: &[u8], class: &str) {
    let (fin, parsed, _) = parse_guarded(emitted);
    if !fin {
        out.impl_failures.push(json!({"what":"ContentParser::parse failed, panicked or timed out on an emitted stream","case":js}));
        return;
    }
    if emitted.len() > 4000 {
        return;
    }
    let coq = format!(
        "({}, {}, {}, {})",
        coq_list(ms.iter().zip(ids).map(|(m, id)| m_coq(m, *id))),
        font_witnesses(ms),
        coq_bytes(emitted),
        cops_coq(&parsed)
    );
    let mut js = js;
    js["debug_stream"] = json!(String::from_utf8_lossy(emitted));
    js["ch"] = json!(ch);
    out.push(coq, js, class, ms.len() >= 3);
}

fn flaws(ms: &[M]) -> Vec<&'static str> {
    let mut f = vec![];
    let big = |x: f64, k: i32| x.is_finite() && (x.abs() * 10f64.powi(k)).round() / 10f64.powi(k) >= 3.4028235677973366e38;
    for m in ms {
        if let M::V(v) = m {
            match v {
                VOp::Font(_, s) => {
                    let s = if s.is_finite() { *s } else { 0.0 };
                    if big(s, 0) {
                        f.push("f32-overflow");
                    }
                }
                VOp::Nums(_, a) | VOp::Dash(a, _) if a.iter().any(|x| big(*x, 2)) => f.push("f32-overflow"),
                VOp::Comps(_, a) if a.iter().any(|x| big(*x, 4)) => f.push("f32-overflow"),
                VOp::Color(_, c) => {
                    let a = match c {
                        Color::Rgb(a, b, c) => vec![*a, *b, *c],
                        Color::Gray(g) => vec![*g],
                        Color::Cmyk(a, b, c, d) => vec![*a, *b, *c, *d],
                    };
                    if a.iter().any(|x| big(*x, 3)) {
                        f.push("f32-overflow");
                    }
                }
                VOp::ShowTextArray(l) if l.iter().any(|e| matches!(e, VTj::Adjust(x) if big(*x as f64, 2))) => f.push("f32-overflow"),
                _ => {}
            }
            if let VOp::Dash(a, ph) = v {
                if !a.is_empty() && big(*ph, 2) {
                    f.push("f32-overflow");
                }
            }
        }
    }
    f.sort();
    f.dedup();
    f
}

fn ops_case(out: &mut Out, seed: u64, variant: &str) {
    let mut r = Rng::new(seed);
    let mut open = 0u32;
    let ms: Vec<M> = match variant {
        "tf-i32" => vec![
            M::V(VOp::Plain("BT")),
            M::V(VOp::Font("F1".into(), *r.pick(&[2147483648.0, 1e10, -2147483649.0, 4294967296.0, 1e21]))),
            M::V(VOp::ShowText(b"x".to_vec())),
            M::V(VOp::Plain("ET")),
        ],
        "f32-over" => vec![
            M::V(VOp::Nums("m", vec![*r.pick(&[3.4028235677973366e38, 1e39, f64::MAX, -1e300]), 1.0])),
            M::V(VOp::Plain("S")),
        ],
        "strings" => (0..r.range(1, 4)).map(|_| M::V(VOp::ShowText(gen_bytes(&mut r)))).collect(),
        "allbytes" => {
            let k = (seed % 8) as u8;
            vec![M::V(VOp::ShowText((0..32u8).map(|i| k * 32 + i).collect())), M::V(VOp::ShowText((0..32u8).flat_map(|i| [k * 32 + i, b'7']).collect()))]
        }
        "tame" => (0..r.range(1, 25)).map(|_| gen_op(&mut r, &mut open, true)).collect(),
        _ => (0..r.range(1, 14)).map(|_| gen_op(&mut r, &mut open, false)).collect(),
    };
    let js = json!({"seed": seed, "variant": variant, "flaws": flaws(&ms), "debug_ops": format!("{:?}", ms)});
    let ms2 = ms.clone();
    let res = catch(std::panic::AssertUnwindSafe(move || {
        let (vops, ids) = realize(&ms2);
        (vo::serialize(&vops), ids)
    }));
    match res {
        Ok((emitted, ids)) => emit_ops(out, "ops", js, &ms, &ids, &emitted, variant),
        Err(m) => out.impl_failures.push(json!({"what":"panic while serializing","msg":m,"case":js})),
    }
}

// ---------------------------------------------------------------- channel api
fn api_case(out: &mut Out, seed: u64, variant: &str) {
    let mut r = Rng::new(seed);
    let js = json!({"seed": seed, "variant": variant});
    let res = catch(std::panic::AssertUnwindSafe(move || {
        let mut ms: Vec<M> = vec![];
        let mut ids: Vec<Option<u32>> = vec![];
        let emitted: Vec<u8>;
        let num = |r: &mut Rng| if r.chance(9, 10) { (r.below(200_001) as f64 - 100_000.0) / 100.0 } else { gen_f64(r) };
        if variant == "gc" {
            let mut g = GraphicsContext::new();
            for _ in 0..r.range(1, 20) {
                let before = g.verif_ops().len();
                let mut dash: Option<(Vec<f64>, f64)> = None;
                match r.below(26) {
                    0 => { g.move_to(num(&mut r), num(&mut r)); }
                    1 => { g.line_to(num(&mut r), num(&mut r)); }
                    2 => { g.curve_to(num(&mut r), num(&mut r), num(&mut r), num(&mut r), num(&mut r), num(&mut r)); }
                    3 => { g.rect(num(&mut r), num(&mut r), num(&mut r), num(&mut r)); }
                    4 => { g.close_path(); }
                    5 => { g.stroke(); }
                    6 => { g.fill(); }
                    7 => { g.fill_stroke(); }
                    8 => { g.set_line_width(num(&mut r)); }
                    9 => { g.set_line_cap(*r.pick(&[LineCap::Butt, LineCap::Round, LineCap::Square])); }
                    10 => { g.set_line_join(*r.pick(&[LineJoin::Miter, LineJoin::Round, LineJoin::Bevel])); }
                    11 => { g.set_miter_limit(num(&mut r)); }
                    12 => { g.set_flatness(num(&mut r)); }
                    13 => {
                        let a: Vec<f64> = (0..r.range(0, 4)).map(|_| num(&mut r)).collect();
                        let ph = num(&mut r);
                        dash = Some((a.clone(), ph));
                        g.set_line_dash_pattern(LineDashPattern::new(a, ph));
                    }
                    14 => { dash = Some((vec![], 0.0)); g.set_line_solid(); }
                    15 => { g.save_state(); }
                    16 => { g.restore_state(); }
                    17 => { g.transform(num(&mut r), num(&mut r), num(&mut r), num(&mut r), num(&mut r), num(&mut r)); }
                    18 => { g.clip(); }
                    19 => { g.clip_even_odd(); }
                    20 => { g.end_path(); }
                    21 => { g.clip_stroke(); }
                    22 => { g.set_fill_color(gen_color(&mut r)); }
                    23 => { g.set_stroke_color(gen_color(&mut r)); }
                    24 => { g.paint_shading(gen_name(&mut r)); }
                    _ => { g.begin_transparency_group(TransparencyGroup::new()); g.end_transparency_group(); }
                }
                for v in &g.verif_ops()[before..] {
                    ms.push(M::V(match (v, &dash) {
                        (VOp::DashRaw(_), Some((a, ph))) => VOp::Dash(a.clone(), *ph),
                        _ => v.clone(),
                    }));
                    ids.push(None);
                }
            }
            emitted = g.operations().into_bytes();
        } else {
            let mut page = Page::a4();
            let mut open = 0;
            for _ in 0..r.range(1, 8) {
                let before = page.text().verif_ops().len();
                let mut text: Option<Vec<u8>> = None;
                let mut mc: Option<(M, Option<u32>)> = None;
                match r.below(14) {
                    0 => { page.text().set_font(r.pick(&[Font::Helvetica, Font::TimesBold, Font::Courier, Font::Symbol]).clone(), gen_size(&mut r)); }
                    1 => { page.text().at(num(&mut r), num(&mut r)); }
                    2..=5 => {
                        let t: String = (0..r.range(0, 12)).map(|_| *r.pick(&['a', 'Z', '(', ')', '\\', '\n', '\r', '\t', '\u{8}', '\u{c}', 'é', '€', 'ÿ', '\u{1}', '7', ' ', '中', '\u{a0}', '\u{7f}'])).collect();
                        text = Some(TextEncoding::WinAnsiEncoding.encode(&t));
                        page.text().write(&t).expect("write");
                    }
                    6 => { page.text().set_character_spacing(num(&mut r)); }
                    7 => { page.text().set_word_spacing(num(&mut r)); }
                    8 => { page.text().set_horizontal_scaling(num(&mut r)); }
                    9 => { page.text().set_leading(num(&mut r)); }
                    10 => { page.text().set_text_rise(num(&mut r)); }
                    11 => { page.text().set_rendering_mode(*r.pick(&[TextRenderingMode::Fill, TextRenderingMode::Stroke, TextRenderingMode::Invisible])); }
                    12 => {
                        let tag = gen_name(&mut r);
                        let id = page.begin_marked_content(&tag).expect("bdc");
                        open += 1;
                        mc = Some((M::Bdc(tag), Some(id)));
                    }
                    _ => {
                        if open > 0 {
                            open -= 1;
                            page.end_marked_content().expect("emc");
                            mc = Some((M::Emc, None));
                        }
                    }
                }
                for v in &page.text().verif_ops()[before..] {
                    match (v, &text, &mc) {
                        (VOp::ShowTextEscaped(_), Some(raw), _) => { ms.push(M::V(VOp::ShowText(raw.clone()))); ids.push(None); }
                        (VOp::Raw(_), _, Some((m, id))) => { ms.push(m.clone()); ids.push(*id); }
                        _ => { ms.push(M::V(v.clone())); ids.push(None); }
                    }
                }
            }
            emitted = page.text().operations().into_bytes();
        }
        (ms, ids, emitted)
    }));
    match res {
        Ok((ms, ids, emitted)) => {
            let mut js = js;
            js["flaws"] = json!(flaws(&ms));
            js["debug_ops"] = json!(format!("{:?}", ms));
            emit_ops(out, "api", js, &ms, &ids, &emitted, variant)
        }
        Err(m) => out.impl_failures.push(json!({"what":"panic in the API script","msg":m,"case":js})),
    }
}

// ---------------------------------------------------------------- channel raw
fn gen_raw(r: &mut Rng, variant: &str) -> Vec<u8> {
    let frag: &[&[u8]] = &[
        b"q ", b"Q ", b"BT ", b"ET ", b"1 0 0 1 50 50 cm ", b"10 20 m ", b"1.5 -2.25 l ", b"0 0 10 10 re ", b"f ", b"S ", b"W* n ",
        b"/F1 12 Tf ", b"(Hello) Tj ", b"[(A) -50 <0041> 2.5] TJ ", b"(a\\(b\\)\\\\\\053\\7\\18\\400x) ' ", b"1 2 (s) \" ", b"<48 65 6C6c6F7> Tj ",
        b"/Im#201 Do ", b"/A#4 Do ", b"/#+5x gs ", b"/P <</MCID 0>> BDC ", b"/Span <</ActualText <FEFF0066> /MCID 3 /K [1 2 [/N (s)] <</X 1.5>>]>> BDC ",
        b"EMC ", b"/T /Props DP ", b"/T MP ", b"/T BMC ", b"[1 2] 0 d ", b"[] 0 d ", b"0.5 g ", b"1 0 0 RG ", b"0 0 0 1 k ", b"/CS0 cs 0.1 0.2 0.3 sc ", b"/P0 scn ",
        b"BI /W 2 /H 2 /CS /G /BPC 8 /F /AHx ID \x00\xff EI ", b"BI /W 1 ID EI ", b"BI /IM true /D [1 0] ID ab\nEI\n", b"ID x", b"BI ", b"EI ",
        b"% comment\n", b"%", b";", b")", b"{", b"}", b"(", b"((", b"<", b"<<", b">", b">>", b"[", b"]", b"/", b"#", b"\\", b"+", b"-", b".", b"+.", b"1.", b".5", b"-.5e", b"1.2.3 ",
        b"2147483647 Tr ", b"2147483648 Tr ", b"-2147483648 J ", b"99999999999999999999999999999999999999999.5 w ", b"0.0000000000000000000000000000000000000000000001 w ", b"00012 j ",
        b"T* ", b"B* ", b"b* ", b"f* ", b"F ", b"BX EX ", b"v ", b"1 2 3 4 y ", b"1 2 TD ", b"1 0 0 1 0 0 Tm ", b"/Perceptual ri ", b"1 i ", b"2 M ", b"/Sh sh ",
        b"\xc3\xa9 ", b"/\xc3 ", b"\xff\xfe ", b"\x00", b"\x0c", b"\r\n", b"\t", b" ", b"\n",
    ];
    match variant {
        "random" => {
            let n = r.range(0, 200) as usize;
            r.bytes(n)
        }
        "delims" => {
            let n = r.range(1, 1500) as usize;
            let a = *r.pick(&[&b");{}"[..], b")", b";", b"{}", b");{}(", b"]>[<", b"%\n;"]);
            (0..n).map(|_| *r.pick(a)).collect()
        }
        "nested" => {
            let n = r.range(1, 150) as usize;
            let mut v = b"/T <</K ".to_vec();
            let (o, c): (&[u8], &[u8]) = if r.chance(1, 2) { (b"[", b"]") } else { (b"<</a ", b">>") };
            for _ in 0..n { v.extend_from_slice(o); }
            v.extend_from_slice(b"1 ");
            let m = if r.chance(1, 3) { r.range(0, n as u64) as usize } else { n };
            for _ in 0..m { v.extend_from_slice(c); }
            v.extend_from_slice(b" >> BDC q");
            v
        }
        "trunc" => {
            let mut v = vec![];
            for _ in 0..r.range(1, 6) { v.extend_from_slice(*r.pick(frag)); }
            let k = r.below(v.len() as u64 + 1) as usize;
            v.truncate(k);
            v
        }
        _ => {
            let mut v = vec![];
            for _ in 0..r.range(1, 14) {
                if r.chance(1, 12) {
                    let n = r.range(1, 6) as usize;
                    v.extend(r.bytes(n));
                } else {
                    v.extend_from_slice(*r.pick(frag));
                }
            }
            v
        }
    }
}
fn raw_case(out: &mut Out, js: Value, bytes: &[u8], class: &str) {
    let (fin, parsed, el) = parse_guarded(bytes);
    let coq = format!("({}, {}, {})", coq_bytes(bytes), coq_bool(fin), cops_coq(&parsed));
    let mut js = js;
    js["ch"] = json!("raw");
    js["hex"] = json!(hex(bytes));
    js["seconds"] = json!(el);
    out.push(coq, js, class, bytes.len() > 6);
}

/// Adversarial inputs too large for a Coq literal.  They are parsed in a CHILD process, each on a
/// thread with a small stack (a stack overflow aborts the process and cannot be caught), so that any
/// recursion per input byte / per nesting level shows up as an abort; only "terminated with a result
/// or an error, no crash, within the time limit" is judged here (the totality theorem covers the
/// model; the Coq side receives a digest and the outcome only).
const BIG_STACK: usize = 512 * 1024;
/// every byte value the tokenizer treats specially or skips, plus representatives of the rest
const SPECIAL: &[u8] = b"()<>[]{}/%;#\\+-.079aEI'\" \t\r\n\x0c\x00\x7f\x80\xc3\xff";
const PAIRS: &[&[u8]] = &[
    b"<>", b"><", b"<<", b">>", b"[]", b"][", b"()", b")(", b"{}", b"}{", b"%\n", b"%\r", b"\\(", b"\\)", b"(\\", b"/#", b"#/", b"<a", b"a>", b"<0", b"1.", b".1",
    b"+-", b"-.", b"EI", b"ID", b"BI", b"/<", b"/>", b">/", b"<(", b">(", b"[(", b"]>", b">]", b";>", b">;", b"\x00>", b">\x00",
];
const TRIPLES: &[&[u8]] = &[b">>>", b"<<>", b"<<<", b"> >", b">\n>", b">%\n", b"ID\n", b"BI\n", b" EI", b"(\\)", b"<a>", b"/a>", b"1 >", b">Tj", b"q >"];

fn fmt_bytes(b: &[u8]) -> String {
    b.iter().map(|c| if c.is_ascii_graphic() { (*c as char).to_string() } else { format!("\\x{c:02x}") }).collect()
}
fn nest(prefix: &[u8], open: &[u8], mid: &[u8], close: &[u8], suffix: &[u8], n: usize) -> Vec<u8> {
    let mut v = prefix.to_vec();
    for _ in 0..n { v.extend_from_slice(open); }
    v.extend_from_slice(mid);
    for _ in 0..n { v.extend_from_slice(close); }
    v.extend_from_slice(suffix);
    v
}
/// (name, bytes) — names are stable and are the replay key (`{"ch":"big","name":..}`)
fn big_inputs(th: bool) -> Vec<(String, Box<dyn Fn() -> Vec<u8>>)> {
    let n_run: usize = if th { 2_000_000 } else { 300_000 };
    let n_nest: usize = if th { 300_000 } else { 100_000 };
    let mut v: Vec<(String, Box<dyn Fn() -> Vec<u8>>)> = vec![];
    let rep = |pat: Vec<u8>, total: usize| -> Box<dyn Fn() -> Vec<u8>> { Box::new(move || pat.iter().cycle().take(total).copied().collect()) };
    // the original eight (1–2 MB)
    v.push(("2e6 x ')'".into(), rep(b")".to_vec(), 2_000_000)));
    v.push(("2e6 x ';{})'".into(), rep(b";{})".to_vec(), 2_000_000)));
    v.push(("1e6 x '('".into(), rep(b"(".to_vec(), 1_000_000)));
    v.push(("2e6 x '1 '".into(), rep(b"1 ".to_vec(), 2_000_000)));
    v.push(("1e6 x '<<'".into(), rep(b"<<".to_vec(), 1_000_000)));
    v.push(("1e6 random bytes".into(), Box::new(|| Rng::new(21).bytes(1_000_000))));
    v.push(("1e6 x '%\\n;'".into(), rep(b"%\n;".to_vec(), 1_000_000)));
    // runs of every special byte: alone, and separated by a blank / a line feed / a regular byte
    for &b in SPECIAL {
        v.push((format!("run {n_run} x '{}'", fmt_bytes(&[b])), rep(vec![b], n_run)));
        for sep in [b' ', b'\n', b'a'] {
            if sep != b {
                v.push((format!("run {n_run} x '{}'", fmt_bytes(&[b, sep])), rep(vec![b, sep], n_run)));
            }
        }
        // the same run inside a property dictionary and inside an array operand
        let inner: Vec<u8> = std::iter::repeat(b).take(n_run / 4).collect();
        let i2 = inner.clone();
        v.push((format!("BDC props with {} x '{}'", n_run / 4, fmt_bytes(&[b])), Box::new(move || [&b"/T <</K "[..], &inner, b" >> BDC q"].concat())));
        v.push((format!("TJ array with {} x '{}'", n_run / 4, fmt_bytes(&[b])), Box::new(move || [&b"[ "[..], &i2, b" ] TJ q"].concat())));
    }
    for p in PAIRS.iter().chain(TRIPLES.iter()) {
        v.push((format!("run {n_run} x '{}'", fmt_bytes(p)), rep(p.to_vec(), n_run)));
    }
    // random bytes over the special alphabet only
    v.push(("1e6 random special bytes".into(), Box::new(|| { let mut r = Rng::new(22); (0..1_000_000).map(|_| *r.pick(SPECIAL)).collect() })));
    // deep nesting of arrays / dictionaries / strings / mixed, bare and as operands
    let nests: &[(&str, &[u8], &[u8], &[u8], &[u8], &[u8])] = &[
        ("[..] in BDC props", b"/T <</K ", b"[", b"1", b"]", b" >> BDC q"),
        ("<<..>> in BDC props", b"/T <</K ", b"<</a ", b"1", b">>", b" >> BDC q"),
        ("[<<..>>] in DP props", b"/T <</K ", b"[<</a ", b"1", b">>]", b" >> DP q"),
        ("[..] TJ", b"", b"[", b"(a)", b"]", b" TJ q"),
        ("[..] d", b"", b"[", b"1", b"]", b" 0 d q"),
        ("<<..>> bare", b"", b"<<", b"/a 1", b">>", b" q"),
        ("(..) Tj", b"", b"(", b"a", b")", b" Tj q"),
        ("(\\(..\\)) Tj", b"", b"(\\(", b"a", b"\\))", b" Tj q"),
        ("[( .. )] TJ", b"", b"[(", b"a", b")]", b" TJ q"),
        ("BI nests", b"", b"BI /W 1 ", b"ID x", b" EI ", b" q"),
        ("q..Q", b"", b"q ", b"n", b" Q", b""),
        ("BT..ET", b"", b"BT ", b"()Tj", b" ET", b""),
        ("BMC..EMC", b"", b"/T BMC ", b"n", b" EMC", b""),
        ("BDC <<>> ..EMC", b"", b"/T <</MCID 1>> BDC ", b"n", b" EMC", b""),
        ("unclosed [", b"/T <</K ", b"[", b"1", b"", b" >> BDC q"),
        ("unclosed <<", b"/T ", b"<</a ", b"1", b"", b" BDC q"),
        ("unopened ]", b"/T <</K ", b"", b"1", b"]", b" >> BDC q"),
        ("unopened >>", b"/T ", b"", b"1", b">>", b" BDC q"),
    ];
    for (name, pre, open, mid, close, suf) in nests.iter().copied() {
        v.push((format!("nest {n_nest} x {name}"), Box::new(move || nest(pre, open, mid, close, suf, n_nest))));
    }
    // very long operand lists and very long single tokens
    for (name, item, tail) in [("numbers then sc", &b"1 "[..], &b"sc q"[..]), ("numbers then m", b"1.5 ", b"m q"), ("names then Do", b"/a ", b"Do q"), ("strings then Tj", b"(a) ", b"Tj q"),
                               ("] then TJ", b"] ", b"TJ q"), ("[ then TJ", b"[ ", b"] TJ q"), (">> then BDC", b">> ", b"/T BDC q"), ("<< then BDC", b"/T << ", b">> BDC q"),
                               ("key/value pairs in BDC", b"/a 1 ", b">> BDC q"), ("unknown operators", b"zz ", b"q")] {
        let item = item.to_vec();
        let tail = tail.to_vec();
        v.push((format!("{} x {name}", n_run / 4), Box::new(move || { let mut x: Vec<u8> = item.iter().cycle().take(item.len() * (n_run / 4)).copied().collect(); x.extend_from_slice(&tail); x })));
    }
    for (name, head, body, tail) in [("one long number", &b""[..], b'7', &b" w"[..]), ("one long fraction", b"0.", b'3', b" w"), ("one long name", b"/", b'a', b" Do"), ("one long #-name", b"/", b'#', b" Do"),
                                     ("one long operator", b"", b'x', b" q"), ("one long hex string", b"<", b'A', b"> Tj"), ("one long comment", b"%", b'>', b"\nq"), ("one long octal string", b"(", b'\\', b"7) Tj")] {
        let (head, tail) = (head.to_vec(), tail.to_vec());
        v.push((format!("{name} ({n_run} bytes)"), Box::new(move || { let mut x = head.clone(); x.extend(std::iter::repeat(body).take(n_run)); x.extend_from_slice(&tail); x })));
    }
    v
}

/// child side: parse inputs `from..`, each on a small-stack thread; print the index before each one
fn big_child(th: bool, from: usize, only: Option<&str>) -> ! {
    use std::io::Write as _;
    let inputs = big_inputs(th);
    for (i, (name, gen)) in inputs.iter().enumerate().skip(from) {
        if let Some(o) = only {
            if o != name {
                continue;
            }
        }
        let b = gen();
        let mut h: u64 = 0xcbf29ce484222325;
        for x in &b {
            h = (h ^ *x as u64).wrapping_mul(0x100000001b3);
        }
        println!("START {i} {} {h:016x}", b.len());
        std::io::stdout().flush().unwrap();
        let t = Instant::now();
        let r = std::thread::Builder::new()
            .stack_size(BIG_STACK)
            .spawn(move || ContentParser::parse(&b).map(|o| o.len()).map_err(|e| e.to_string()))
            .unwrap()
            .join();
        let res = match r {
            Ok(Ok(n)) => format!("ok {n}"),
            Ok(Err(_)) => "err".to_string(),
            Err(_) => "panic".to_string(),
        };
        println!("DONE {i} {} {res}", t.elapsed().as_millis());
        std::io::stdout().flush().unwrap();
    }
    std::process::exit(0)
}

/// parent side: run the child, restarting it after the input on which it died
fn run_big(out: &mut Out, th: bool, only: Option<&str>) {
    use std::io::{BufRead, BufReader};
    let inputs = big_inputs(th);
    let exe = std::env::current_exe().unwrap();
    let limit = if th { 600 } else { 240 };
    let mut from = 0usize;
    let mut digests: Vec<Value> = vec![];
    let mut slowest = (0u128, String::new());
    while from < inputs.len() {
        let mut args: Vec<String> = vec!["c21".into(), "--tier".into(), if th { "thorough" } else { "quick" }.into(), "--c21-big".into(), from.to_string()];
        if let Some(o) = only {
            args.push("--c21-big-only".into());
            args.push(o.to_string());
        }
        let mut child = std::process::Command::new(&exe)
            .args(&args)
            .stdout(std::process::Stdio::piped())
            .stderr(std::process::Stdio::null())
            .spawn()
            .expect("spawn child");
        let stdout = child.stdout.take().unwrap();
        let (tx, rx) = std::sync::mpsc::channel::<String>();
        std::thread::spawn(move || {
            for l in BufReader::new(stdout).lines().map_while(Result::ok) {
                if tx.send(l).is_err() {
                    break;
                }
            }
        });
        let mut current: Option<usize> = None;
        let mut timed_out = false;
        loop {
            match rx.recv_timeout(std::time::Duration::from_secs(limit)) {
                Ok(l) => {
                    let w: Vec<&str> = l.split(' ').collect();
                    if w[0] == "START" {
                        current = Some(w[1].parse().unwrap());
                        digests.push(json!({"name": inputs[current.unwrap()].0, "len": w[2], "fnv": w[3]}));
                    } else if w[0] == "DONE" {
                        let i: usize = w[1].parse().unwrap();
                        let ms: u128 = w[2].parse().unwrap();
                        out.count("big_inputs");
                        if ms > slowest.0 {
                            slowest = (ms, inputs[i].0.clone());
                        }
                        if w[3] == "panic" {
                            out.impl_failures.push(json!({"what": format!("ContentParser::parse panicked on {}", inputs[i].0), "case": {"ch":"big","name": inputs[i].0}}));
                        }
                        current = None;
                    }
                }
                Err(std::sync::mpsc::RecvTimeoutError::Timeout) => {
                    timed_out = true;
                    let _ = child.kill();
                    break;
                }
                Err(_) => break, // child closed stdout
            }
        }
        let status = child.wait().expect("wait child");
        match current {
            Some(i) => {
                out.count("big_inputs");
                let what = if timed_out {
                    format!("ContentParser::parse did not finish within {limit} s on {}", inputs[i].0)
                } else {
                    format!("ContentParser::parse crashed the process ({status}; stack {} KiB) on {}: neither a result nor an error", BIG_STACK / 1024, inputs[i].0)
                };
                out.impl_failures.push(json!({"what": what, "case": {"ch":"big","name": inputs[i].0, "tier": if th {"thorough"} else {"quick"}}}));
                from = i + 1;
            }
            None => {
                if !status.success() {
                    out.impl_failures.push(json!({"what": format!("large-input child ended with {status} outside an input"), "case": {"ch":"big","name": "?"}}));
                }
                break;
            }
        }
    }
    out.extra.insert("big_inputs_digests".into(), json!(digests));
    out.extra.insert("big_inputs_slowest_ms".into(), json!([slowest.0 as u64, slowest.1]));
}

fn case_seed(ctx: &Ctx, ch: u64, i: u64) -> u64 {
    Rng::new(ctx.seed.wrapping_mul(1_000_003) ^ (ch << 56) ^ i).next()
}

pub fn run(ctx: &Ctx) {
    if let Some(i) = ctx.opt("--c21-big") {
        big_child(ctx.thorough(), i.parse().unwrap(), ctx.opt("--c21-big-only").as_deref());
    }
    let header = "From OxVerif Require Import Base.Util C21.Num C21.Tok C21.Model.";
    let replay = ctx.replay_cases();
    let th = ctx.thorough();

    // ---------- ops
    let mut out = Out::new(ctx, header, "ops_case", "ops_code");
    out.shard_size = 150;
    if let Some(cases) = &replay {
        for c in cases.iter().filter(|c| c["ch"] == "ops") {
            ops_case(&mut out, c["seed"].as_u64().unwrap(), c["variant"].as_str().unwrap_or("mixed"));
        }
    } else {
        let plan: &[(&str, u64)] = if th {
            &[("mixed", 4000), ("tame", 1500), ("strings", 1500), ("allbytes", 8), ("tf-i32", 5), ("f32-over", 5)]
        } else {
            &[("mixed", 900), ("tame", 300), ("strings", 300), ("allbytes", 8), ("tf-i32", 3), ("f32-over", 3)]
        };
        for (k, (variant, n)) in plan.iter().enumerate() {
            for i in 0..*n {
                let seed = if *variant == "allbytes" { i } else { case_seed(ctx, 1 + k as u64, i) };
                ops_case(&mut out, seed, variant);
            }
        }
    }
    out.finish("ops");

    // ---------- api
    let mut out = Out::new(ctx, header, "ops_case", "ops_code");
    out.shard_size = 150;
    if let Some(cases) = &replay {
        for c in cases.iter().filter(|c| c["ch"] == "api") {
            api_case(&mut out, c["seed"].as_u64().unwrap(), c["variant"].as_str().unwrap_or("gc"));
        }
    } else {
        let n = if th { 2000 } else { 400 };
        for i in 0..n {
            api_case(&mut out, case_seed(ctx, 20, i), if i % 2 == 0 { "gc" } else { "text" });
        }
    }
    out.finish("api");

    // ---------- raw
    let mut out = Out::new(ctx, header, "raw_case", "raw_code");
    out.shard_size = 200;
    if let Some(cases) = &replay {
        for c in cases.iter().filter(|c| c["ch"] == "raw") {
            if let Some(h) = c.get("hex").and_then(|h| h.as_str()) {
                raw_case(&mut out, json!({"variant": "literal"}), &unhex(h), "replay");
            }
        }
        for c in cases.iter().filter(|c| c["ch"] == "big") {
            if let Some(n) = c.get("name").and_then(|n| n.as_str()) {
                run_big(&mut out, c.get("tier").and_then(|t| t.as_str()) == Some("thorough"), Some(n));
            }
        }
    } else {
        let fixed: &[&[u8]] = &[
            b"", b"+", b"-", b".", b"+.", b"-.", b"1.", b".5", b"+.5", b"-0", b"-0.0", b"+5", b"1.2.3", b"1..2", b"--1", b"+-1", b"1e5 w", b"0x10 w",
            b"2147483647", b"2147483648", b"-2147483648", b"-2147483649", b"340282346638528859811704183484516925440. w", b"340282356779733661637539395458142568448. w",
            b"340282356779733661637539395458142568447.9 w", b"0.000000000000000000000000000000000000000000001401298464324817 w", b"0.0000000000000000000000000000000000000000000007 w",
            b"16777217. w", b"16777219. w", b"0.1 w", b"(", b"(a", b"(a\\", b"(a\\1", b"(a\\12", b"(\\1234)", b"(\\777)Tj", b"(\\8)Tj", b"(a(b)c)Tj", b"(a\\\nb)Tj", b"<", b"<4", b"<4>Tj", b"<4g>Tj", b"<>Tj", b"< 4 1 >Tj",
            b">", b">>", b"<<", b"/", b"/#", b"/#4", b"/#41", b"/#41 Do", b"/A#41 Do", b"/A#4 Do", b"/A#G1 Do", b"/A#+1 Do", b"/A#-1 Do", b"/A#) Do", b"/A##41 Do", b"/\xc3\xa9 Do", b"/\xc3 Do", b"/#C3#A9 Do", b"/#FF Do",
            b"ID", b"ID ", b"ID EI", b"ID  EI", b"ID\r\nabc EI", b"ID a EI/x", b"ID aEI EI", b"ID a\x0cEI q", b"BI", b"BI /W", b"BI /W 1", b"BI /W ID x EI", b"BI /W 1 /W 2 ID x EI Q", b"BI 1 /H (s) /F /Fl /DP <</a 1>> ID \nEI", b"BI /W 1 q",
            b"]", b"[", b"[1 2", b"1 2] 0 d", b"[1 [2] 3] 0 d", b"[1 (a)] 0 d", b"[(a) 1 /N] TJ", b"]]] TJ", b"/T <<>> BDC", b"/T << /A >> BDC", b"/T <</A 1 /A 2>> BDC", b"/T <</A [1>> BDC", b"<</A 1>> BDC", b"/T /U /V BDC", b"/T <</A <</B [<</C 1>>]>>>> DP",
            b"1 2 3 sc", b"sc", b"/N 1 scn", b"1 (a) 2 SC", b"q%c\rQ\nQ", b"q;Q", b"q)Q", b"q{Q}", b"q\x00Q", b"\x00", b"abc", b"1 J", b"1.0 J", b"(a) Tr", b"1 2 Td 3 Td", b"Td", b"1 Td", b"(a) 1 Td",
        ];
        for f in fixed {
            raw_case(&mut out, json!({"variant": "fixed"}), f, "fixed");
        }
        let plan: &[(&str, u64)] = if th {
            &[("frags", 5000), ("trunc", 2500), ("random", 1500), ("delims", 300), ("nested", 300)]
        } else {
            &[("frags", 1200), ("trunc", 600), ("random", 400), ("delims", 80), ("nested", 80)]
        };
        for (k, (variant, n)) in plan.iter().enumerate() {
            for i in 0..*n {
                let seed = case_seed(ctx, 40 + k as u64, i);
                let b = gen_raw(&mut Rng::new(seed), variant);
                raw_case(&mut out, json!({"variant": variant, "seed": seed}), &b, variant);
            }
        }
        // large adversarial inputs in a child process (small stack, wall-clock limit)
        run_big(&mut out, th, None);
    }
    out.finish("raw");
}
