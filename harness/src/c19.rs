//! C19 — damaged cross-reference data is reconstructed faithfully.
//! Channels:
//!  * `scan`: file bytes + the implementation's header scan (several chunk sizes), recovered
//!    table, /Root and /Size (cfg hooks of xref.rs)  -> Coq evaluates the byte-level scan model,
//!    `add_headers_latest_wins`, the catalog search and the trailer synthesis (bit 1) and, for
//!    rendered documents, the spec `recovered table = true offsets`, `root = catalog` (bit 2).
//!  * `open`: valid files (library-written and reference-rendered) x damage operations x presets:
//!    every object of the intact file is fetched from the intact and from the damaged open and the
//!    canonical serialisations are compared inside Coq (bit 2); the fallback decision of
//!    `parse_with_options` is compared with its model (bit 1).
use crate::util::*;
use oxidize_pdf::parser::xref::verif_c19 as hook;
use oxidize_pdf::parser::{ParseOptions, PdfDocument, PdfObject, PdfReader};
use oxidize_pdf::writer::WriterConfig;
use oxidize_pdf::{Document, Page};
use serde_json::{json, Value};
use std::io::Cursor;

#[path = "c19_raw.rs"]
pub mod raw;
use raw::*;

pub fn options(name: &str) -> ParseOptions {
    match name {
        "strict" => ParseOptions::strict(),
        "tolerant" => ParseOptions::tolerant(),
        "skip" => ParseOptions::skip_errors(),
        "new" => {
            let mut o = ParseOptions::default();
            o.lenient_streams = true;
            o
        }
        _ => ParseOptions::default(),
    }
}
pub const RECOVERING: [&str; 4] = ["default", "new", "tolerant", "skip"];

/// canonical serialisation of a parsed value (dictionary keys sorted)
pub fn canon(o: &PdfObject, out: &mut String) {
    match o {
        PdfObject::Null => out.push_str("null"),
        PdfObject::Boolean(b) => out.push_str(if *b { "true" } else { "false" }),
        PdfObject::Integer(i) => out.push_str(&format!("i{}", i)),
        PdfObject::Real(r) => out.push_str(&format!("r{:?}", r)),
        PdfObject::String(s) => out.push_str(&format!("s<{}>", hex(&s.0))),
        PdfObject::Name(n) => out.push_str(&format!("/{:?}", n.0)),
        PdfObject::Array(a) => {
            out.push('[');
            for x in &a.0 {
                canon(x, out);
                out.push(' ');
            }
            out.push(']');
        }
        PdfObject::Dictionary(d) => canon_dict(d, out),
        PdfObject::Stream(s) => {
            out.push_str("stream");
            canon_dict(&s.dict, out);
            out.push_str(&format!("<{}>", hex(&s.data)));
        }
        PdfObject::Reference(n, g) => out.push_str(&format!("R{} {}", n, g)),
    }
}
fn canon_dict(d: &oxidize_pdf::parser::objects::PdfDictionary, out: &mut String) {
    let mut keys: Vec<_> = d.0.keys().collect();
    keys.sort_by(|a, b| a.0.cmp(&b.0));
    out.push_str("<<");
    for k in keys {
        out.push_str(&format!("/{:?} ", k.0));
        canon(&d.0[k], out);
        out.push(' ');
    }
    out.push_str(">>");
}
pub fn fnv64(s: &str) -> u64 {
    let mut h: u64 = 0xcbf29ce484222325;
    for b in s.bytes() {
        h ^= b as u64;
        h = h.wrapping_mul(0x100000001b3);
    }
    h
}

/// What one open of a file shows: catalog, page count, every queried object.
#[derive(Clone, Debug, PartialEq)]
pub struct View {
    pub open: Result<(), String>,
    pub catalog: Result<String, String>,
    pub pages: Result<u32, String>,
    pub objs: Vec<Result<String, String>>,
}

pub fn view(bytes: &[u8], opts: &ParseOptions, queries: &[(u32, u16)]) -> View {
    let b = bytes.to_vec();
    let o = opts.clone();
    let q = queries.to_vec();
    let r = catch(std::panic::AssertUnwindSafe(move || {
        let mut rd = match PdfReader::new_with_options(Cursor::new(b), o) {
            Ok(r) => r,
            Err(e) => {
                let m = format!("open: {e}");
                return View { open: Err(m.clone()), catalog: Err(m.clone()), pages: Err(m.clone()), objs: q.iter().map(|_| Err(m.clone())).collect() };
            }
        };
        let catalog = match rd.catalog() {
            Ok(d) => {
                let mut s = String::new();
                canon_dict(d, &mut s);
                Ok(s)
            }
            Err(e) => Err(format!("{e}")),
        };
        let objs = q
            .iter()
            .map(|(n, g)| match rd.get_object(*n, *g) {
                Ok(o) => {
                    let mut s = String::new();
                    canon(o, &mut s);
                    Ok(s)
                }
                Err(e) => Err(format!("{e}").chars().take(100).collect()),
            })
            .collect();
        let pages = PdfDocument::new(rd).page_count().map_err(|e| format!("{e}"));
        View { open: Ok(()), catalog, pages, objs }
    }));
    match r {
        Ok(v) => v,
        Err(m) => {
            let m = format!("panic: {m}");
            View { open: Err(m.clone()), catalog: Err(m.clone()), pages: Err(m.clone()), objs: queries.iter().map(|_| Err(m.clone())).collect() }
        }
    }
}

/// library-written file: `pages` pages with some text, classic xref, no object streams
pub fn library_file(pages: u32, compress: bool, variant: u64) -> Result<Vec<u8>, String> {
    let r = catch(std::panic::AssertUnwindSafe(move || {
        let mut doc = Document::new();
        if variant % 2 == 1 {
            doc.set_title(&format!("C19 file {}", variant));
            doc.set_author("verif");
        }
        for i in 0..pages {
            let mut p = if (variant / 2) % 2 == 0 { Page::a4() } else { Page::letter() };
            if (variant / 4) % 2 == 0 {
                let _ = p.text().set_font(oxidize_pdf::text::Font::Helvetica, 12.0).at(72.0, 700.0).write(&format!("page {} of {}", i + 1, pages));
            }
            if (variant / 8) % 2 == 1 {
                p.graphics().rectangle(10.0 + i as f64, 20.0, 100.0, 50.0).fill();
            }
            doc.add_page(p);
        }
        let config = WriterConfig { use_xref_streams: false, use_object_streams: false, compress_streams: compress, ..WriterConfig::default() };
        doc.to_bytes_with_config(config).map_err(|e| format!("write: {e:?}"))
    }));
    match r {
        Ok(x) => x,
        Err(m) => Err(format!("panic: {m}")),
    }
}

fn explore(ctx: &Ctx) {
    let mut r = Rng::new(ctx.seed);
    let d = gen_doc(&mut r, &GenOpts { pages: 2, extra: 3, base: 1, permute_numbers: false, permute_layout: false, gaps: false, multiline: false });
    let rawf = render(&d);
    let libf = library_file(2, false, 5).unwrap();
    if ctx.flag("--dump") {
        std::fs::write("/tmp/w_C19/raw.pdf", &rawf).unwrap();
        std::fs::write("/tmp/w_C19/lib.pdf", &libf).unwrap();
    }
    for (name, f) in [("raw", &rawf), ("lib", &libf)] {
        let (entries, root, size) = hook::primary(f, &options("default")).expect("intact primary");
        println!("== {name}: {} bytes, {} entries root {:?} size {:?}", f.len(), entries.len(), root, size);
        let q: Vec<(u32, u16)> = entries.iter().filter(|e| e.3).map(|e| (e.0, e.2)).collect();
        let scan = hook::scan(f, 65536).unwrap();
        let true_tbl: Vec<(u32, u16, u64)> = {
            let mut v: Vec<(u32, u16, u64)> = entries.iter().filter(|e| e.3).map(|e| (e.0, e.2, e.1)).collect();
            v.sort_by_key(|x| x.2);
            v
        };
        println!("   scan == table: {}", scan == true_tbl);
        if scan != true_tbl {
            println!("   scan {:?}\n   tbl  {:?}", scan, true_tbl);
        }
        for preset in ["strict", "default", "new", "tolerant", "skip"] {
            let o = options(preset);
            let intact = view(f, &o, &q);
            if intact.open.is_err() || intact.objs.iter().any(|x| x.is_err()) {
                println!("   intact under {preset}: {:?} {:?} {:?}", intact.open, intact.pages, intact.objs.iter().filter(|x| x.is_err()).collect::<Vec<_>>());
            }
            for dmg in catalogue() {
                let Some(df) = apply(f, &dmg) else {
                    println!("   {preset:9} {:28} not applicable", damage_name(&dmg));
                    continue;
                };
                let prim = hook::primary(&df, &o).is_ok();
                let v = view(&df, &o, &q);
                let same_objs = v.objs.iter().zip(&intact.objs).filter(|(a, b)| a == b).count();
                let verdict = if v == intact { "SAME".to_string() } else { format!("DIFF open={:?} cat={} pages={:?} objs {}/{}", v.open.as_ref().err(), v.catalog == intact.catalog, v.pages, same_objs, q.len()) };
                println!("   {preset:9} {:28} primary_ok={:5} {}", damage_name(&dmg), prim, verdict);
                if ctx.flag("--verbose") && v != intact {
                    for (i, (a, b)) in v.objs.iter().zip(&intact.objs).enumerate() {
                        if a != b {
                            println!("        obj {:?}: {:?}  (intact {:?})", q[i], a, b.as_ref().map(|s| s.chars().take(60).collect::<String>()));
                        }
                    }
                }
            }
        }
    }
}


// ---------------------------------------------------------------------------------------------
// channel scan

fn doc_coq(d: &Doc) -> String {
    let objs: Vec<String> = d.objs.iter().map(|(n, b)| format!("({}, {})", n, coq_bytes(b))).collect();
    format!("({}, {})", if objs.is_empty() { "nil".to_string() } else { format!("{} :: nil", objs.join(" :: ")) }, d.root)
}
fn doc_json(d: &Doc) -> Value {
    json!({"root": d.root, "objs": d.objs.iter().map(|(n, b)| json!([n, hex(b)])).collect::<Vec<_>>()})
}
fn doc_from(v: &Value) -> Doc {
    Doc {
        root: v["root"].as_u64().unwrap() as u32,
        objs: v["objs"].as_array().unwrap().iter().map(|o| (o[0].as_u64().unwrap() as u32, unhex(o[1].as_str().unwrap()))).collect(),
    }
}
fn cons_list(v: Vec<String>) -> String {
    if v.is_empty() {
        "nil".into()
    } else {
        format!("({} :: nil)", v.join(" :: "))
    }
}

/// run the implementation's scan + recovery on `file` and emit one scan case
fn emit_scan(out: &mut Out, file: &[u8], chunk: usize, doc: Option<(&Doc, bool)>, class: &str, adversarial: &str) {
    let iscan = hook::scan(file, chunk).unwrap_or_default();
    let irec = hook::recover(file, &options("default")).ok();
    let scan_coq = cons_list(iscan.iter().map(|(n, g, o)| format!("({}, {}, {})", n, g, o)).collect());
    let rec_coq = match &irec {
        None => "None".to_string(),
        Some((es, root, size)) => format!(
            "(Some ({}, {}, {}))",
            cons_list(es.iter().map(|(n, off, g, _)| format!("({}, ({}, {}))", n, off, g)).collect()),
            match root {
                Some((r, _)) => format!("Some {}", r),
                None => "None".into(),
            },
            size.unwrap_or(0).max(0)
        ),
    };
    let doc_c = match doc {
        Some((d, intact)) => format!("(Some ({}, {}))", doc_coq(d), coq_bool(intact)),
        None => "None".into(),
    };
    let coq = format!("({}, {}, {}, {}, {})", coq_bytes(file), chunk, scan_coq, rec_coq, doc_c);
    let js = json!({"ch": "scan", "file": hex(file), "chunk": chunk, "doc": doc.map(|(d, _)| doc_json(d)), "intact": doc.map(|x| x.1), "class": class, "adversarial": adversarial});
    // non-trivial: at least two headers found and (for documents) the file really is damaged or multi-object
    let nt = iscan.len() >= 2;
    out.push(coq, js, class, nt);
}

fn soup(r: &mut Rng) -> Vec<u8> {
    let toks: [&[u8]; 38] = [
        b"1", b"2", b"5", b"12", b"007", b"+3", b"-1", b"0", b"65535", b"65536", b"4294967295", b"4294967296", b"obj", b"obj", b"obj", b"endobj", b"objx", b"xobj",
        b" ", b" ", b" ", b"  ", b"\t", b"\n", b"\n", b"\r", b"\r\n", b"\x0c", b"\x0b", b"\xc2\xa0", b"\xc2\x85", b"\xe2\x80\x83", b"\xe3\x80\x80", b"\xe2\x80", b"\xff", b"<<>>", b"stream", b"%",
    ];
    let mut v = vec![];
    let n = r.range(1, 40);
    for _ in 0..n {
        if r.chance(1, 5) {
            // a plausible header
            v.extend_from_slice(format!("{} {} obj", r.below(8), r.below(3)).as_bytes());
        } else {
            v.extend_from_slice(toks[r.below(toks.len() as u64) as usize]);
        }
    }
    v
}

fn adversarial_doc(r: &mut Rng, kind: u64) -> (Doc, &'static str) {
    let pl = r.chance(1, 2);
    let mut d = gen_doc(r, &GenOpts { pages: 1, extra: 2, base: 1, permute_numbers: false, permute_layout: pl, gaps: false, multiline: false });
    let nums: Vec<u32> = d.objs.iter().map(|o| o.0).collect();
    let victim = *r.pick(&nums);
    let fresh = nums.iter().max().unwrap() + 1;
    match kind {
        0 => {
            // a stream payload with a line that looks like the header of an existing object
            let data = format!("q\n{} 0 obj\n<< /Hijacked true >>\nQ", victim);
            d.objs.push((fresh, stream_body("", data.as_bytes())));
            (d, "header_line")
        }
        1 => {
            // the same, the line naming an object number that does not exist
            let data = format!("q\n{} 0 obj\nQ", fresh + 5);
            d.objs.push((fresh, stream_body("", data.as_bytes())));
            (d, "header_line")
        }
        2 => {
            // header-like line inside a multi-line string
            d.objs.push((fresh, format!("(first line\n{} 0 obj\nlast line)", victim).into_bytes()));
            (d, "header_line")
        }
        3 => {
            // an object numbered below the catalog carrying the text /Type /Catalog in a string
            let cat = d.root;
            for o in d.objs.iter_mut() {
                o.0 += 1;
            }
            // renumber references is not needed for the scan channel; keep the catalog findable
            d.root = cat + 1;
            d.objs.push((1, b"<< /Note (/Type /Catalog) >>".to_vec()));
            (d, "catalog_text")
        }
        _ => {
            // the text "endobj" inside a string of the catalog, before /Type /Catalog
            let root = d.root;
            for o in d.objs.iter_mut() {
                if o.0 == root {
                    let mut b = b"<< /Note (endobj) ".to_vec();
                    b.extend_from_slice(&o.1[2..]);
                    o.1 = b;
                }
            }
            (d, "endobj_text")
        }
    }
}

fn gen_opts(r: &mut Rng, small: bool) -> GenOpts {
    GenOpts {
        pages: if small { r.range(0, 1) as u32 } else { r.range(1, 4) as u32 },
        extra: if small { r.range(0, 3) as u32 } else { r.range(0, 6) as u32 },
        base: if r.chance(1, 3) { 120 } else { 1 },
        permute_numbers: r.chance(1, 3),
        permute_layout: r.chance(1, 3),
        gaps: r.chance(1, 3),
        multiline: r.chance(1, 3),
    }
}

fn run_scan(ctx: &Ctx) {
    let header = "From OxVerif Require Import Base.Util C19.Model.";
    let mut out = Out::new(ctx, header, "scan_case", "scan_code");
    out.shard_size = 40;
    if let Some(cases) = ctx.replay_cases() {
        for c in cases {
            if c["ch"].as_str() != Some("scan") {
                continue;
            }
            let file = unhex(c["file"].as_str().unwrap());
            let d = if c["doc"].is_null() { None } else { Some(doc_from(&c["doc"])) };
            let intact = c["intact"].as_bool().unwrap_or(true);
            emit_scan(&mut out, &file, c["chunk"].as_u64().unwrap_or(65536) as usize, d.as_ref().map(|d| (d, intact)), "replay", c["adversarial"].as_str().unwrap_or(""));
        }
        out.finish("scan");
        return;
    }
    let mut r = Rng::new(ctx.seed ^ 0xC19);
    let k = if ctx.thorough() { 4 } else { 1 };
    let chunks = [65536usize, 65536, 1, 7, 64, 300, 1100];
    // rendered documents, intact
    for i in 0..(60 * k) {
        let go = gen_opts(&mut r.fork(), true);
        let d = gen_doc(&mut r, &go);
        let f = render(&d);
        emit_scan(&mut out, &f, chunks[i % chunks.len()], Some((&d, true)), "rendered_intact", "");
    }
    // rendered documents, damaged (the object part is untouched)
    let cat = catalogue();
    for i in 0..(60 * k) {
        let go = gen_opts(&mut r.fork(), true);
        let d = gen_doc(&mut r, &go);
        let f = render(&d);
        let d1 = r.pick(&cat).clone();
        let mut ds = vec![d1];
        if i % 3 == 0 {
            ds.push(r.pick(&cat).clone());
        }
        let df = apply_all(&f, &ds);
        emit_scan(&mut out, &df, chunks[i % chunks.len()], Some((&d, false)), "rendered_damaged", "");
    }
    // adversarial documents
    for i in 0..(25 * k) {
        let (d, adv) = adversarial_doc(&mut r, (i % 5) as u64);
        let f = render(&d);
        emit_scan(&mut out, &f, 65536, Some((&d, true)), &format!("adversarial_{adv}"), adv);
    }
    // byte soups (model vs implementation only)
    for i in 0..(150 * k) {
        let f = soup(&mut r);
        emit_scan(&mut out, &f, chunks[i % chunks.len()], None, "soup", "");
    }
    // long lines around the carry cap
    for i in 0..(6 * k) {
        let mut f = b"%PDF-1.4\n".to_vec();
        f.extend(std::iter::repeat(b'a').take(1000 + 10 * i as usize));
        f.extend_from_slice(b" 3 0 obj\n1 0 obj\n<<>>\nendobj\n");
        f.extend(std::iter::repeat(b' ').take(1020 + i as usize));
        f.extend_from_slice(b"2 0 obj 4 1 obj");
        emit_scan(&mut out, &f, [64usize, 1000, 1030, 2000, 65536, 500][i as usize % 6], None, "long_lines", "");
    }
    // styled files (compact objects, comments after headers, CR / CRLF): model vs implementation
    for i in 0..(9 * k) {
        let d = gen_styled(&mut r, 1, ["lf", "cr", "crlf"][i % 3], [1u64, 2, 0][(i / 3) % 3], i % 2 == 0);
        let f = render_styled(&d);
        emit_scan(&mut out, &f, chunks[i % chunks.len()], None, "styled", "");
    }
    // library-written files (model vs implementation only; kept small)
    for v in 0..(6 * k as u64) {
        if let Ok(f) = library_file(1, true, v * 4 + 4) {
            if f.len() < 4000 {
                emit_scan(&mut out, &f, if v % 2 == 0 { 65536 } else { 500 }, None, "library", "");
            }
        }
    }
    out.finish("scan");
}

// ---------------------------------------------------------------------------------------------
// channel open

#[derive(Clone, Debug)]
enum Src {
    Lib { pages: u32, compress: bool, variant: u64 },
    Doc(Doc, String),
    Styled(SDoc),
}
fn sdoc_json(d: &SDoc) -> Value {
    json!({"root": d.root, "eol": d.eol, "objs": d.objs.iter().map(|o| json!([o.n, hex(&o.body), hex(&o.sep), hex(&o.pre_end)])).collect::<Vec<_>>()})
}
fn sdoc_from(v: &Value) -> SDoc {
    SDoc {
        root: v["root"].as_u64().unwrap() as u32,
        eol: v["eol"].as_str().unwrap_or("lf").to_string(),
        objs: v["objs"].as_array().unwrap().iter().map(|o| SObj { n: o[0].as_u64().unwrap() as u32, body: unhex(o[1].as_str().unwrap()), sep: unhex(o[2].as_str().unwrap()), pre_end: unhex(o[3].as_str().unwrap()) }).collect(),
    }
}
fn src_json(s: &Src) -> Value {
    match s {
        Src::Lib { pages, compress, variant } => json!({"kind": "lib", "pages": pages, "compress": compress, "variant": variant}),
        Src::Doc(d, adv) => json!({"kind": "doc", "doc": doc_json(d), "adversarial": adv}),
        Src::Styled(d) => json!({"kind": "styled", "doc": sdoc_json(d)}),
    }
}
fn src_from(v: &Value) -> Src {
    if v["kind"].as_str() == Some("lib") {
        Src::Lib { pages: v["pages"].as_u64().unwrap() as u32, compress: v["compress"].as_bool().unwrap(), variant: v["variant"].as_u64().unwrap() }
    } else if v["kind"].as_str() == Some("styled") {
        Src::Styled(sdoc_from(&v["doc"]))
    } else {
        Src::Doc(doc_from(&v["doc"]), v["adversarial"].as_str().unwrap_or("").to_string())
    }
}
fn src_bytes(s: &Src) -> Result<Vec<u8>, String> {
    match s {
        Src::Lib { pages, compress, variant } => library_file(*pages, *compress, *variant),
        Src::Doc(d, _) => Ok(render(d)),
        Src::Styled(d) => Ok(render_styled(d)),
    }
}

fn view_coq(v: &View) -> String {
    let h = |x: &Result<String, String>| match x {
        Ok(s) => format!("Some {}", fnv64(s)),
        Err(_) => "None".into(),
    };
    let p = match &v.pages {
        Ok(n) => format!("Some {}", n),
        Err(_) => "None".into(),
    };
    format!("({}, {}, {})", h(&v.catalog), p, cons_list(v.objs.iter().map(|o| format!("({})", h(o))).collect()))
}

struct Intact {
    bytes: Vec<u8>,
    queries: Vec<(u32, u16)>,
    views: std::collections::BTreeMap<String, View>,
    table: Vec<(u32, u64, u16, bool)>,
}
fn intact_of(src: &Src) -> Option<Intact> {
    let bytes = src_bytes(src).ok()?;
    let (entries, _, _) = hook::primary(&bytes, &options("strict")).ok()?;
    let queries: Vec<(u32, u16)> = entries.iter().filter(|e| e.3).map(|e| (e.0, e.2)).collect();
    Some(Intact { bytes, queries, views: Default::default(), table: entries })
}

fn emit_open(out: &mut Out, src: &Src, it: &mut Intact, dmg: &[Damage], preset: &str, class: &str) {
    let o = options(preset);
    let vi = it.views.entry(preset.to_string()).or_insert_with(|| view(&it.bytes, &o, &it.queries)).clone();
    if vi.catalog.is_err() || vi.pages.is_err() || vi.objs.iter().any(|x| x.is_err()) {
        out.count(&format!("intact_view_incomplete|{}|{}", class, preset));
    }
    let df = apply_all(&it.bytes, dmg);
    if df == it.bytes {
        return; // not applicable
    }
    let prim = hook::primary(&df, &o);
    let full = hook::parse(&df, &o);
    let path = match (&prim, &full) {
        (_, Err(_)) => 2,
        (Ok(p), Ok(f)) if p == f => 0,
        _ => 1,
    };
    let vd = view(&df, &o, &it.queries);
    // does the section, where it still parses, report another table than the intact one?
    let table_differs = match (&prim, &it.table) {
        (Ok(p), t) => t.iter().filter(|e| e.3).any(|e| !p.0.contains(e)),
        _ => false,
    };
    let coq = format!("({}, {}, {}, {}, {})", o.max_recovery_attempts, coq_bool(prim.is_ok()), path, view_coq(&vi), view_coq(&vd));
    let fams: Vec<&str> = dmg.iter().map(family).collect();
    let js = json!({"ch": "open", "src": src_json(src), "damage": dmg.iter().map(damage_name).collect::<Vec<_>>(), "families": fams, "preset": preset,
        "primary_ok": prim.is_ok(), "primary_table_differs": table_differs, "path": path, "adversarial": match src { Src::Doc(_, a) => a.clone(), _ => String::new() },
        "damaged_view": {"open": vd.open.as_ref().err(), "pages": format!("{:?}", vd.pages), "bad_objects": vd.objs.iter().zip(&vi.objs).zip(&it.queries).filter(|((a, b), _)| a != b).map(|(_, q)| q.0).collect::<Vec<_>>() }});
    let label = format!("{}|{}|{}", class, if dmg.len() == 1 { fams[0] } else { "pair" }, if prim.is_ok() { "primary_ok" } else { "recovery" });
    // non-trivial: the damage makes the primary parse fail (recovery really runs) under a recovering preset
    out.push(coq, js, &label, prim.is_err() && o.max_recovery_attempts > 0);
}

fn run_open(ctx: &Ctx) {
    let header = "From OxVerif Require Import Base.Util C19.Model.";
    let mut out = Out::new(ctx, header, "open_case", "open_code");
    out.shard_size = 400;
    if let Some(cases) = ctx.replay_cases() {
        for c in cases {
            if c["ch"].as_str() != Some("open") {
                continue;
            }
            let src = src_from(&c["src"]);
            let Some(mut it) = intact_of(&src) else { continue };
            let dmg: Vec<Damage> = c["damage"].as_array().unwrap().iter().filter_map(|d| damage_from(d.as_str().unwrap())).collect();
            emit_open(&mut out, &src, &mut it, &dmg, c["preset"].as_str().unwrap_or("default"), "replay");
        }
        out.finish("open");
        return;
    }
    let mut r = Rng::new(ctx.seed ^ 0x19C);
    let k = if ctx.thorough() { 3 } else { 1 };
    let mut srcs: Vec<(Src, &str)> = vec![];
    for i in 0..(3 * k as u64) {
        srcs.push((Src::Lib { pages: 1 + (r.below(3) as u32), compress: i % 2 == 0, variant: r.below(16) }, "lib"));
    }
    for _ in 0..(4 * k) {
        let go = gen_opts(&mut r.fork(), false);
        let d = gen_doc(&mut r, &go);
        srcs.push((Src::Doc(d, String::new()), "doc"));
    }
    for i in 0..(5 * k) {
        let (d, adv) = adversarial_doc(&mut r, (i % 5) as u64);
        srcs.push((Src::Doc(d, adv.to_string()), "adversarial"));
    }
    // styled documents: compact objects of every value kind, comments after the header, CR / CRLF
    let eols = ["lf", "cr", "crlf"];
    for (i, mode) in [1u64, 2, 0, 0, 3].iter().enumerate() {
        let eol = eols[(i + ctx.seed as usize) % 3];
        let pages = 1 + r.below(2) as u32;
        let d = gen_styled(&mut r, pages, eol, *mode, i % 2 == 1);
        srcs.push((Src::Styled(d), "styled"));
    }
    for i in 0..(3 * (k - 1)) {
        let eol = eols[i % 3];
        let d = gen_styled(&mut r, 2, eol, (i % 3) as u64, true);
        srcs.push((Src::Styled(d), "styled"));
    }
    let cat = catalogue();
    for (src, class) in &srcs {
        let Some(mut it) = intact_of(src) else {
            out.count("source_not_writable");
            continue;
        };
        for preset in ["default", "new", "tolerant", "skip", "strict"] {
            for d in &cat {
                emit_open(&mut out, src, &mut it, &[d.clone()], preset, class);
            }
            let npairs = if preset == "strict" { 6 } else { 25 * k };
            for _ in 0..npairs {
                let a = r.pick(&cat).clone();
                let b = r.pick(&cat).clone();
                if family(&a) == family(&b) {
                    continue;
                }
                emit_open(&mut out, src, &mut it, &[a, b], preset, class);
            }
        }
    }
    out.finish("open");
}

pub fn run(ctx: &Ctx) {
    if ctx.flag("--explore") {
        explore(ctx);
        return;
    }
    run_scan(ctx);
    run_open(ctx);
}
