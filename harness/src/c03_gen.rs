//! Shared by C03 and C02: authoring programs over the public API, writer configurations,
//! JSON (replay) encoding, and building the real `Document`.
//! All coordinates are integers in thousandths of a unit (f64 = k / 1000.0), so the program
//! is exactly reproducible from JSON and its exact rational value is known to the judge.
use crate::util::*;
use oxidize_pdf::annotations::{Annotation, AnnotationType};
use oxidize_pdf::geometry::{Point, Rectangle};
use oxidize_pdf::graphics::{Color, ColorSpace, Image};
use oxidize_pdf::structure::{Destination, OutlineItem, OutlineTree, PageDestination};
use oxidize_pdf::text::Font;
use oxidize_pdf::writer::WriterConfig;
use oxidize_pdf::{Document, Page};
use serde_json::{json, Value};

#[derive(Clone, Debug)]
pub struct Cfg {
    pub xs: bool,
    pub os: bool,
    pub compress: bool,
    pub ver: String,
}
impl Cfg {
    pub fn to_json(&self) -> Value {
        json!({"xs": self.xs, "os": self.os, "compress": self.compress, "ver": self.ver})
    }
    pub fn from_json(v: &Value) -> Cfg {
        Cfg {
            xs: v["xs"].as_bool().unwrap_or(false),
            os: v["os"].as_bool().unwrap_or(false),
            compress: v["compress"].as_bool().unwrap_or(true),
            ver: v["ver"].as_str().unwrap_or("1.7").to_string(),
        }
    }
    pub fn writer(&self) -> WriterConfig {
        let mut c = WriterConfig::default();
        c.use_xref_streams = self.xs;
        c.use_object_streams = self.os;
        c.compress_streams = self.compress;
        c.pdf_version = self.ver.clone();
        c
    }
    pub fn classic(&self) -> bool {
        !self.xs && !self.os
    }
    pub fn label(&self) -> String {
        format!("{}{}{}", if self.xs { "xs" } else { "classic" }, if self.os { "+os" } else { "" }, if self.compress { "+z" } else { "" })
    }
}

/// colour: kind 1 = gray, 3 = rgb, 4 = cmyk; components in thousandths
#[derive(Clone, Debug, PartialEq)]
pub struct Col(pub Vec<i64>);
impl Col {
    pub fn color(&self) -> Color {
        let c: Vec<f64> = self.0.iter().map(|k| *k as f64 / 1000.0).collect();
        match c.len() {
            1 => Color::Gray(c[0]),
            3 => Color::Rgb(c[0], c[1], c[2]),
            _ => Color::Cmyk(c[0], c[1], c[2], c[3]),
        }
    }
}

#[derive(Clone, Debug)]
pub enum Call {
    M(i64, i64),
    L(i64, i64),
    C([i64; 6]),
    Re([i64; 4]),
    H,
    S,
    F,
    B,
    W(i64),
    Save,
    Restore,
    Cm([i64; 6]),
    Fill(Col),
    Stroke(Col),
    Text { font: usize, size: i64, x: i64, y: i64, s: String, col: Col },
    Img { name: String, w: u32, h: u32, data: Vec<u8>, pos: [i64; 4] },
}

#[derive(Clone, Debug)]
pub struct Annot {
    pub kind: u8, // 0 Text, 1 Square, 2 Highlight
    pub rect: [i64; 4],
    pub contents: String,
}

#[derive(Clone, Debug)]
pub struct PageP {
    pub w: i64,
    pub h: i64,
    pub rot: i32,
    pub calls: Vec<Call>,
    pub annots: Vec<Annot>,
}

#[derive(Clone, Debug)]
pub struct Prog {
    pub cfg: Cfg,
    pub title: Option<String>,
    pub author: Option<String>,
    pub subject: Option<String>,
    pub pages: Vec<PageP>,
    pub outline: Vec<(String, usize)>,
}

pub const FONTS: [Font; 14] = [
    Font::Helvetica,
    Font::HelveticaBold,
    Font::HelveticaOblique,
    Font::HelveticaBoldOblique,
    Font::TimesRoman,
    Font::TimesBold,
    Font::TimesItalic,
    Font::TimesBoldItalic,
    Font::Courier,
    Font::CourierBold,
    Font::CourierOblique,
    Font::CourierBoldOblique,
    Font::Symbol,
    Font::ZapfDingbats,
];

fn arr(v: &[i64]) -> Value {
    json!(v)
}
fn ints(v: &Value) -> Vec<i64> {
    v.as_array().map(|a| a.iter().map(|x| x.as_i64().unwrap_or(0)).collect()).unwrap_or_default()
}
fn fix<const N: usize>(v: &Value) -> [i64; N] {
    let mut o = [0i64; N];
    for (i, x) in ints(v).into_iter().take(N).enumerate() {
        o[i] = x;
    }
    o
}

impl Call {
    pub fn to_json(&self) -> Value {
        match self {
            Call::M(x, y) => json!(["m", x, y]),
            Call::L(x, y) => json!(["l", x, y]),
            Call::C(a) => json!(["c", arr(a)]),
            Call::Re(a) => json!(["re", arr(a)]),
            Call::H => json!(["h"]),
            Call::S => json!(["S"]),
            Call::F => json!(["f"]),
            Call::B => json!(["B"]),
            Call::W(w) => json!(["w", w]),
            Call::Save => json!(["q"]),
            Call::Restore => json!(["Q"]),
            Call::Cm(a) => json!(["cm", arr(a)]),
            Call::Fill(c) => json!(["fill", arr(&c.0)]),
            Call::Stroke(c) => json!(["stroke", arr(&c.0)]),
            Call::Text { font, size, x, y, s, col } => json!(["text", font, size, x, y, s, arr(&col.0)]),
            Call::Img { name, w, h, data, pos } => json!(["img", name, w, h, hex(data), arr(pos)]),
        }
    }
    pub fn from_json(v: &Value) -> Call {
        let a = v.as_array().unwrap();
        let i = |k: usize| a[k].as_i64().unwrap_or(0);
        match a[0].as_str().unwrap() {
            "m" => Call::M(i(1), i(2)),
            "l" => Call::L(i(1), i(2)),
            "c" => Call::C(fix(&a[1])),
            "re" => Call::Re(fix(&a[1])),
            "h" => Call::H,
            "S" => Call::S,
            "f" => Call::F,
            "B" => Call::B,
            "w" => Call::W(i(1)),
            "q" => Call::Save,
            "Q" => Call::Restore,
            "cm" => Call::Cm(fix(&a[1])),
            "fill" => Call::Fill(Col(ints(&a[1]))),
            "stroke" => Call::Stroke(Col(ints(&a[1]))),
            "text" => Call::Text { font: i(1) as usize % 14, size: i(2), x: i(3), y: i(4), s: a[5].as_str().unwrap_or("").to_string(), col: Col(ints(&a[6])) },
            _ => Call::Img { name: a[1].as_str().unwrap_or("Im1").to_string(), w: i(2) as u32, h: i(3) as u32, data: unhex(a[4].as_str().unwrap_or("")), pos: fix(&a[5]) },
        }
    }
}

impl Prog {
    pub fn to_json(&self) -> Value {
        json!({
            "cfg": self.cfg.to_json(), "title": self.title, "author": self.author, "subject": self.subject,
            "outline": self.outline.iter().map(|(t, p)| json!([t, p])).collect::<Vec<_>>(),
            "pages": self.pages.iter().map(|p| json!({
                "w": p.w, "h": p.h, "rot": p.rot,
                "calls": p.calls.iter().map(|c| c.to_json()).collect::<Vec<_>>(),
                "annots": p.annots.iter().map(|a| json!([a.kind, arr(&a.rect), a.contents])).collect::<Vec<_>>(),
            })).collect::<Vec<_>>(),
        })
    }
    pub fn from_json(v: &Value) -> Prog {
        let s = |k: &str| v[k].as_str().map(|x| x.to_string());
        Prog {
            cfg: Cfg::from_json(&v["cfg"]),
            title: s("title"),
            author: s("author"),
            subject: s("subject"),
            outline: v["outline"].as_array().map(|a| a.iter().map(|e| (e[0].as_str().unwrap_or("").to_string(), e[1].as_u64().unwrap_or(0) as usize)).collect()).unwrap_or_default(),
            pages: v["pages"]
                .as_array()
                .map(|a| {
                    a.iter()
                        .map(|p| PageP {
                            w: p["w"].as_i64().unwrap_or(595000),
                            h: p["h"].as_i64().unwrap_or(842000),
                            rot: p["rot"].as_i64().unwrap_or(0) as i32,
                            calls: p["calls"].as_array().map(|c| c.iter().map(Call::from_json).collect()).unwrap_or_default(),
                            annots: p["annots"].as_array().map(|c| c.iter().map(|a| Annot { kind: a[0].as_u64().unwrap_or(0) as u8, rect: fix(&a[1]), contents: a[2].as_str().unwrap_or("").to_string() }).collect()).unwrap_or_default(),
                        })
                        .collect()
                })
                .unwrap_or_default(),
        }
    }

    /// build the real document through the public authoring API and write it
    pub fn write(&self) -> Result<Vec<u8>, String> {
        let f = |k: i64| k as f64 / 1000.0;
        let mut doc = Document::new();
        if let Some(t) = &self.title {
            doc.set_title(t.clone());
        }
        if let Some(t) = &self.author {
            doc.set_author(t.clone());
        }
        if let Some(t) = &self.subject {
            doc.set_subject(t.clone());
        }
        for p in &self.pages {
            let mut page = Page::new(f(p.w), f(p.h));
            if p.rot != 0 {
                page.set_rotation(p.rot);
            }
            for c in &p.calls {
                match c {
                    Call::M(x, y) => {
                        page.graphics().move_to(f(*x), f(*y));
                    }
                    Call::L(x, y) => {
                        page.graphics().line_to(f(*x), f(*y));
                    }
                    Call::C(a) => {
                        page.graphics().curve_to(f(a[0]), f(a[1]), f(a[2]), f(a[3]), f(a[4]), f(a[5]));
                    }
                    Call::Re(a) => {
                        page.graphics().rect(f(a[0]), f(a[1]), f(a[2]), f(a[3]));
                    }
                    Call::H => {
                        page.graphics().close_path();
                    }
                    Call::S => {
                        page.graphics().stroke();
                    }
                    Call::F => {
                        page.graphics().fill();
                    }
                    Call::B => {
                        page.graphics().fill_stroke();
                    }
                    Call::W(w) => {
                        page.graphics().set_line_width(f(*w));
                    }
                    Call::Save => {
                        page.graphics().save_state();
                    }
                    Call::Restore => {
                        page.graphics().restore_state();
                    }
                    Call::Cm(a) => {
                        page.graphics().transform(f(a[0]), f(a[1]), f(a[2]), f(a[3]), f(a[4]), f(a[5]));
                    }
                    Call::Fill(col) => {
                        page.graphics().set_fill_color(col.color());
                    }
                    Call::Stroke(col) => {
                        page.graphics().set_stroke_color(col.color());
                    }
                    Call::Text { font, size, x, y, s, col } => {
                        page.text().set_fill_color(col.color()).set_font(FONTS[*font % 14].clone(), f(*size)).at(f(*x), f(*y)).write(s).map_err(|e| format!("{e:?}"))?;
                    }
                    Call::Img { name, w, h, data, pos } => {
                        let img = Image::from_raw_data(data.clone(), *w, *h, ColorSpace::DeviceRGB, 8);
                        page.add_image(name.clone(), img);
                        page.draw_image(name, f(pos[0]), f(pos[1]), f(pos[2]), f(pos[3])).map_err(|e| format!("{e:?}"))?;
                    }
                }
            }
            for a in &p.annots {
                let rect = Rectangle::new(Point::new(f(a.rect[0]), f(a.rect[1])), Point::new(f(a.rect[0] + a.rect[2]), f(a.rect[1] + a.rect[3])));
                let ty = match a.kind % 3 {
                    0 => AnnotationType::Text,
                    1 => AnnotationType::Square,
                    _ => AnnotationType::Highlight,
                };
                page.add_annotation(Annotation::new(ty, rect).with_contents(a.contents.clone()));
            }
            doc.add_page(page);
        }
        if !self.outline.is_empty() {
            let mut tree = OutlineTree::new();
            for (t, p) in &self.outline {
                tree.add_item(OutlineItem::new(t.clone()).with_destination(Destination::fit(PageDestination::PageNumber(*p as u32))));
            }
            doc.set_outline(tree);
        }
        doc.to_bytes_with_config(self.cfg.writer()).map_err(|e| format!("{e:?}"))
    }
}

// ------------------------------------------------------------------ generators
/// boundary catalogue (thousandths): values strictly between -1 and 0 (a formatter that splits
/// integer and fraction parts loses their sign), the rounding step of the 2-decimal operands
/// (±0.004/±0.005/±0.006, ±0.994…±0.996), ±1 exactly, bleed coordinates just below zero, large ones
pub const EDGE: [i64; 34] = [
    -500, -750, -250, -10, -990, -1, -4, -5, -6, -14, -15, -16, -994, -995, -996, -999, -1000, -1004, -1005, 4, 5, 6, 994, 995, 996, 999, 1000, 1005,
    -3175, -8500, 14_400_000, -14_400_000, 99_999_990, -99_999_990,
];
fn coord(r: &mut Rng) -> i64 {
    // thousandths; mostly 2-decimal values, sometimes 3 decimals (exercise the rounding), sometimes negative
    if r.chance(1, 5) {
        return *r.pick(&EDGE);
    }
    if r.chance(1, 10) {
        return -(r.range(1, 999) as i64); // strictly inside (-1, 0)
    }
    let base = r.range(0, 600_000) as i64;
    let v = match r.below(4) {
        0 => base / 1000 * 1000,
        1 => base / 10 * 10,
        _ => base,
    };
    if r.chance(1, 8) {
        -v
    } else {
        v
    }
}
/// a matrix: scalings, rotations by positive and NEGATIVE angles (sin/cos in thousandths, so the
/// off-diagonal entries lie in (-1, 0) and (0, 1)), skews, reflections
fn matrix(r: &mut Rng) -> [i64; 6] {
    match r.below(5) {
        0 => [r.range(0, 3000) as i64, 0, 0, r.range(0, 3000) as i64, coord(r), coord(r)],
        1 | 2 => {
            let deg = r.range(1, 359) as f64 * if r.chance(1, 2) { -1.0 } else { 1.0 };
            let (s, c) = ((deg.to_radians().sin() * 1000.0).round() as i64, (deg.to_radians().cos() * 1000.0).round() as i64);
            [c, s, -s, c, coord(r), coord(r)]
        }
        3 => [1000, -(r.range(1, 999) as i64), -(r.range(1, 999) as i64), 1000, coord(r), coord(r)], // skew by entries in (-1, 0)
        _ => [-(r.range(1, 999) as i64), 0, 0, -(r.range(1, 2000) as i64), coord(r), coord(r)],    // reflection / shrink
    }
}
fn unit(r: &mut Rng) -> i64 {
    match r.below(5) {
        0 => 0,
        1 => 1000,
        _ => r.range(0, 1000) as i64,
    }
}
pub fn col(r: &mut Rng) -> Col {
    match r.below(3) {
        0 => Col(vec![unit(r)]),
        1 => Col(vec![unit(r), unit(r), unit(r)]),
        _ => Col(vec![unit(r), unit(r), unit(r), unit(r)]),
    }
}
/// text without characters that need escaping is the common case; the awkward alphabet
/// (parentheses, backslash) is included: it is legal input and must come back unchanged
fn text(r: &mut Rng) -> String {
    let alpha: Vec<char> = "abcXYZ 019.,-()\\".chars().collect();
    let n = r.range(1, 10) as usize;
    (0..n).map(|_| *r.pick(&alpha)).collect()
}

pub fn gen_calls(r: &mut Rng, n: usize, allow_img: bool) -> Vec<Call> {
    let mut v = vec![Call::Fill(col(r)), Call::Stroke(col(r))];
    let mut depth = 0;
    let mut imgs = 0;
    for _ in 0..n {
        match r.below(16) {
            0 => v.push(Call::M(coord(r), coord(r))),
            1 => v.push(Call::L(coord(r), coord(r))),
            2 => v.push(Call::C([coord(r), coord(r), coord(r), coord(r), coord(r), coord(r)])),
            3 => v.push(Call::Re([coord(r), coord(r), coord(r), coord(r)])),
            4 => v.push(Call::H),
            5 => v.push(Call::S),
            6 => v.push(Call::F),
            7 => v.push(Call::B),
            8 => v.push(Call::W(r.range(0, 20_000) as i64)),
            9 => {
                v.push(Call::Save);
                depth += 1;
            }
            10 => {
                if depth > 0 {
                    v.push(Call::Restore);
                    depth -= 1;
                }
            }
            11 => v.push(Call::Cm(matrix(r))),
            12 => v.push(Call::Fill(col(r))),
            13 => v.push(Call::Stroke(col(r))),
            14 => v.push(Call::Text { font: r.below(14) as usize, size: r.range(4, 40) as i64 * 1000 + if r.chance(1, 3) { 500 } else { 0 }, x: coord(r), y: coord(r), s: text(r), col: col(r) }),
            _ => {
                if allow_img && imgs < 2 {
                    imgs += 1;
                    let (w, h) = (r.range(1, 4) as u32, r.range(1, 4) as u32);
                    let data = r.bytes((w * h * 3) as usize);
                    // image names go through an entry point without validation: since fix_name_escape any name is
                    // written #XX-escaped, so white space, delimiters, '#' and non-ASCII must leave the file valid
                    let name = match r.below(12) {
                        0 => format!("My Image {imgs}"),
                        1 => format!("A#20-{imgs}"),
                        2 => format!("Im{{{imgs}}}"),
                        3 => format!("a/b ({imgs})"),
                        4 => format!("\u{e9}\u{4e2d}{imgs}"),
                        5 => format!("x%y<{imgs}>[]#"),
                        _ => format!("Im{imgs}"),
                    };
                    v.push(Call::Img { name, w, h, data, pos: [coord(r), coord(r), r.range(1, 300_000) as i64, r.range(1, 300_000) as i64] });
                }
            }
        }
    }
    for _ in 0..depth {
        v.push(Call::Restore);
    }
    v
}

pub fn gen_cfg(r: &mut Rng, i: u64) -> Cfg {
    let ver = ["1.4", "1.5", "1.7"][r.below(3) as usize].to_string();
    match i % 8 {
        0 | 1 | 2 => Cfg { xs: false, os: false, compress: false, ver },
        3 | 4 => Cfg { xs: false, os: false, compress: true, ver },
        5 => Cfg { xs: true, os: false, compress: true, ver: "1.5".into() },
        6 => Cfg { xs: true, os: false, compress: false, ver: "1.5".into() },
        _ => Cfg { xs: true, os: false, compress: r.chance(1, 2), ver: "1.7".into() },
    }
}

/// `budget`: rough number of API calls over the whole document
pub fn gen_prog(r: &mut Rng, i: u64, budget: usize) -> Prog {
    let cfg = gen_cfg(r, i);
    let npages = r.range(1, 3) as usize;
    let sizes = [(595_000, 842_000), (612_000, 792_000), (200_000, 100_000), (300_500, 400_500), (1000_000, 1000_000)];
    let mut pages = vec![];
    for _ in 0..npages {
        let (w, h) = *r.pick(&sizes);
        let ncalls = r.range(0, (budget / npages) as u64) as usize;
        let annots = (0..r.below(3)).map(|_| Annot { kind: r.below(3) as u8, rect: [coord(r).abs(), coord(r).abs(), r.range(1, 100_000) as i64, r.range(1, 100_000) as i64], contents: text(r) }).collect();
        pages.push(PageP { w, h, rot: *r.pick(&[0, 0, 90, 180, 270]), calls: gen_calls(r, ncalls, true), annots });
    }
    let outline = (0..r.below(3)).map(|k| (format!("Section {k}"), r.below(npages as u64) as usize)).collect();
    let opt = |r: &mut Rng, s: &str| if r.chance(1, 2) { Some(format!("{s} {}", text(r))) } else { None };
    Prog { cfg, title: opt(r, "Title"), author: opt(r, "Author"), subject: opt(r, "Subj"), pages, outline }
}

/// a document with `npages` small pages (one page dictionary + one content stream each): with the
/// object-stream configuration the compressible objects (catalog, page tree, info, page dictionaries,
/// annotations) exceed one object stream (100 members) for npages >= 98, two for npages >= 198
pub fn gen_many_pages(r: &mut Rng, npages: usize, cfg: Cfg) -> Prog {
    let mut pages = vec![];
    for i in 0..npages {
        let calls = if i % 17 == 0 {
            gen_calls(r, 4, false)
        } else if i % 5 == 0 {
            vec![Call::Text { font: r.below(14) as usize, size: 10_000, x: coord(r), y: coord(r), s: format!("p{i}"), col: col(r) }]
        } else {
            vec![]
        };
        pages.push(PageP { w: 200_000 + (i as i64 % 7) * 1000, h: 100_000, rot: *r.pick(&[0, 90]), calls, annots: vec![] });
    }
    Prog { cfg, title: Some("many pages".into()), author: None, subject: None, pages, outline: vec![] }
}
