//! C03 — written files are structurally valid PDF.
//! Channel `file`   : classic-xref configurations.  The real writer's bytes go to Coq whole; the
//!                    verified checker `valid_pdf` judges them (bit 2) and the emission model
//!                    `Writer.emit` must reproduce them byte for byte from the recovered object
//!                    list (bit 1).  The library's strict re-open (recovery forbidden) is part of bit 2.
//! Channel `xs`     : xref-stream configurations.  Strict re-open + the xref-stream entries decoded
//!                    here and RE-CHECKED in Coq against the bytes (offsets, /Size, bodies, references).
//! Channel `strict` : object-stream configurations: strict re-open and full object walk only.
#[path = "c03_gen.rs"]
pub mod gen;
use crate::util::*;
use gen::*;
use oxidize_pdf::parser::{ParseOptions, PdfReader};
use serde_json::{json, Value};
use std::io::{Cursor, Read};

// ---------------------------------------------------------------- raw file helpers (harness side)
fn find_last(hay: &[u8], needle: &[u8]) -> Option<usize> {
    if hay.len() < needle.len() {
        return None;
    }
    (0..=hay.len() - needle.len()).rev().find(|&i| &hay[i..i + needle.len()] == needle)
}
fn find_from(hay: &[u8], needle: &[u8], from: usize) -> Option<usize> {
    if hay.len() < needle.len() + from {
        return None;
    }
    (from..=hay.len() - needle.len()).find(|&i| &hay[i..i + needle.len()] == needle)
}
pub fn startxref(b: &[u8]) -> Option<usize> {
    let p = find_last(b, b"startxref")?;
    let s: String = b[p + 9..].iter().map(|c| *c as char).skip_while(|c| c.is_ascii_whitespace()).take_while(|c| c.is_ascii_digit()).collect();
    s.parse().ok()
}
/// classic table: (object number, offset) of the in-use entries, in table order
pub fn classic_entries(b: &[u8]) -> Option<Vec<(u32, usize)>> {
    let x = startxref(b)?;
    if b.get(x..x + 5)? != b"xref\n" {
        return None;
    }
    let mut p = x + 5;
    let line_end = find_from(b, b"\n", p)?;
    let hdr = std::str::from_utf8(&b[p..line_end]).ok()?;
    let mut it = hdr.split(' ');
    let first: u32 = it.next()?.parse().ok()?;
    let count: u32 = it.next()?.parse().ok()?;
    p = line_end + 1;
    let mut v = vec![];
    for i in 0..count {
        let e = b.get(p..p + 20)?;
        if e[17] == b'n' {
            v.push((first + i, std::str::from_utf8(&e[0..10]).ok()?.parse().ok()?));
        }
        p += 20;
    }
    Some(v)
}
/// ordered object list of a classic file: (id, body) where the object is `id 0 obj\n` body `\nendobj\n`
pub fn classic_objects(b: &[u8]) -> Option<(Vec<(u32, usize)>, u32, u32)> {
    let x = startxref(b)?;
    let mut es = classic_entries(b)?;
    es.sort_by_key(|e| e.1);
    let mut out = vec![];
    for (k, (id, off)) in es.iter().enumerate() {
        let end = if k + 1 < es.len() { es[k + 1].1 } else { x };
        let hdr = format!("{} 0 obj\n", id).into_bytes();
        let tail = b"\nendobj\n";
        if end < off + hdr.len() + tail.len() {
            return None;
        }
        out.push((*id, end - off - hdr.len() - tail.len()));
    }
    let t = find_from(b, b"trailer", x)?;
    let tr = String::from_utf8_lossy(&b[t..]).to_string();
    let num_after = |key: &str| -> Option<u32> {
        let p = tr.find(key)? + key.len();
        tr[p..].trim_start().split(' ').next()?.parse().ok()
    };
    Some((out, num_after("/Root")?, num_after("/Info")?))
}

/// xref stream at startxref: decoded entries (num, type, f2, f3), /Size
pub fn xref_stream_entries(b: &[u8]) -> Result<(Vec<(u64, u64, u64, u64)>, u64), String> {
    let x = startxref(b).ok_or("no startxref")?;
    let s = find_from(b, b"stream\n", x).ok_or("no stream keyword")?;
    let dict = String::from_utf8_lossy(&b[x..s]).to_string();
    let int_after = |key: &str| -> Option<u64> {
        let p = dict.find(key)? + key.len();
        dict[p..].trim_start().split(|c: char| !c.is_ascii_digit()).next()?.parse().ok()
    };
    let len = int_after("/Length").ok_or("no /Length")? as usize;
    let size = int_after("/Size").ok_or("no /Size")?;
    let wpos = dict.find("/W").ok_or("no /W")?;
    let wtxt: String = dict[wpos + 2..].chars().skip_while(|c| *c != '[').skip(1).take_while(|c| *c != ']').collect();
    let w: Vec<usize> = wtxt.split_whitespace().filter_map(|t| t.parse().ok()).collect();
    if w.len() != 3 {
        return Err("bad /W".into());
    }
    let raw = b.get(s + 7..s + 7 + len).ok_or("stream data past EOF")?;
    let data = if dict.contains("/FlateDecode") {
        let mut d = vec![];
        flate2::read::ZlibDecoder::new(raw).read_to_end(&mut d).map_err(|e| format!("xref stream says /FlateDecode but the data does not inflate: {e}"))?;
        d
    } else {
        raw.to_vec()
    };
    let rec = w[0] + w[1] + w[2];
    if rec == 0 || data.len() % rec != 0 {
        return Err("xref stream data is not a whole number of records".into());
    }
    let be = |s: &[u8]| s.iter().fold(0u64, |a, c| a * 256 + *c as u64);
    let mut v = vec![];
    for (i, r) in data.chunks(rec).enumerate() {
        let t = if w[0] == 0 { 1 } else { be(&r[..w[0]]) };
        v.push((i as u64, t, be(&r[w[0]..w[0] + w[1]]), be(&r[w[0] + w[1]..])));
    }
    Ok((v, size))
}

/// the library's own strict open: recovery forbidden (max_recovery_attempts = 0, nothing lenient),
/// then every in-use object is fetched, the page tree is walked and every content stream decoded+parsed
pub fn strict_walk(bytes: &[u8], in_use: &[u32]) -> Result<u32, String> {
    let b = bytes.to_vec();
    let in_use = in_use.to_vec();
    catch(std::panic::AssertUnwindSafe(move || -> Result<u32, String> {
        let opts = ParseOptions::strict();
        if opts.max_recovery_attempts != 0 || opts.lenient_syntax || opts.lenient_streams {
            return Err("ParseOptions::strict() no longer forbids recovery".into());
        }
        let mut rd = PdfReader::new_with_options(Cursor::new(b), opts).map_err(|e| format!("open: {e:?}"))?;
        rd.catalog().map_err(|e| format!("catalog: {e:?}"))?;
        for n in &in_use {
            rd.get_object(*n, 0).map_err(|e| format!("object {n}: {e:?}"))?;
        }
        let doc = rd.into_document();
        let n = doc.page_count().map_err(|e| format!("page_count: {e:?}"))?;
        for i in 0..n {
            let p = doc.get_page(i).map_err(|e| format!("page {i}: {e:?}"))?;
            let cs = doc.get_page_content_streams(&p).map_err(|e| format!("content {i}: {e:?}"))?;
            for c in cs {
                oxidize_pdf::parser::content::ContentParser::parse_content(&c).map_err(|e| format!("content parse {i}: {e:?}"))?;
            }
        }
        Ok(n)
    }))
    .unwrap_or_else(|m| Err(format!("panic: {m}")))
}

/// strict walk that also requires the page count of the authoring program
pub fn strict_walk_pages(bytes: &[u8], in_use: &[u32], pages: usize) -> Result<u32, String> {
    match strict_walk(bytes, in_use) {
        Ok(n) if n as usize == pages => Ok(n),
        Ok(n) => Err(format!("page count: wrote {pages} pages, strict re-open reports {n}")),
        Err(e) => Err(e),
    }
}

fn nontrivial(p: &Prog) -> bool {
    // rule: the document has a content stream with at least one painting call, i.e. at least one
    // stream object and several indirect objects with references between them
    p.pages.iter().any(|pg| pg.calls.iter().any(|c| matches!(c, Call::S | Call::F | Call::B | Call::Text { .. } | Call::Img { .. })))
}

const MAX_FILE: usize = 9000; // bytes outside long runs; hex literals are chunked below 8 KB each

/// Coq term for a byte string: long runs of one byte travel as `rep b n`, the rest as chunked hex
pub fn coq_bytes_rle(b: &[u8]) -> (String, usize) {
    let mut parts: Vec<String> = vec![];
    let mut lit: Vec<u8> = vec![];
    let mut plain = 0usize;
    let flush = |lit: &mut Vec<u8>, parts: &mut Vec<String>| {
        for c in lit.chunks(3500) {
            parts.push(format!("unhex \"{}\"", hex(c)));
        }
        lit.clear();
    };
    let mut i = 0;
    while i < b.len() {
        let mut j = i;
        while j < b.len() && b[j] == b[i] {
            j += 1;
        }
        if j - i >= 48 {
            flush(&mut lit, &mut parts);
            parts.push(format!("rep {} {}", b[i], j - i));
        } else {
            lit.extend_from_slice(&b[i..j]);
            plain += j - i;
        }
        i = j;
    }
    flush(&mut lit, &mut parts);
    if parts.is_empty() {
        parts.push("nil".into());
    }
    (format!("({})", parts.join(" ++ ")), plain)
}

struct Chans {
    file: Out,
    xs: Out,
    strict: Out,
}

fn emit(ch: &mut Chans, p: &Prog, class: &str) {
    let js = p.to_json();
    let bytes = match catch(std::panic::AssertUnwindSafe(|| p.write())) {
        Ok(Ok(b)) => b,
        Ok(Err(e)) => {
            ch.file.count(&format!("writer_error:{}", e.chars().take(40).collect::<String>()));
            return;
        }
        Err(m) => {
            ch.file.impl_failures.push(json!({"what": format!("writer panicked: {m}"), "case": js}));
            return;
        }
    };
    let nt = nontrivial(p);
    if let Ok(d) = std::env::var("OXH_DUMP") {
        let _ = std::fs::create_dir_all(&d);
        let k = ch.file.json_cases.len() + ch.xs.json_cases.len() + ch.strict.json_cases.len() + ch.file.classes.values().sum::<u64>() as usize;
        let _ = std::fs::write(format!("{d}/{k}_{}.pdf", p.cfg.label()), &bytes);
    }
    if p.cfg.classic() {
        let (cb, plain) = coq_bytes_rle(&bytes);
        if plain > MAX_FILE {
            ch.file.count("skipped_too_big");
            return;
        }
        let (objs, root, info) = match classic_objects(&bytes) {
            Some(x) => x,
            None => (vec![], 0, 0), // the Coq side will report both bits
        };
        let ids: Vec<u32> = objs.iter().map(|o| o.0).collect();
        let strict = strict_walk_pages(&bytes, &ids, p.pages.len());
        let mut js = js;
        if let Err(e) = &strict {
            js["strict_error"] = json!(e);
        }
        let coq = format!(
            "({}, {}, {}, {}, {}, {})",
            cb,
            coq_bytes(p.cfg.ver.as_bytes()),
            coq_list(objs.iter().map(|(id, l)| format!("({id}, {l})"))),
            root,
            info,
            coq_bool(strict.is_ok())
        );
        ch.file.push(coq, js, &format!("{class}:{}", p.cfg.label()), nt);
    } else if !p.cfg.os {
        let mut js = js;
        let (ents, size, err) = match xref_stream_entries(&bytes) {
            Ok((e, s)) => (e, s, None),
            Err(m) => (vec![], 0, Some(m)),
        };
        let ids: Vec<u32> = ents.iter().filter(|e| e.1 == 1).map(|e| e.0 as u32).collect();
        let strict = strict_walk_pages(&bytes, &ids, p.pages.len());
        if let Err(e) = &strict {
            js["strict_error"] = json!(e);
        }
        if let Some(m) = &err {
            js["xref_stream_error"] = json!(m);
        }
        let (cb, plain) = coq_bytes_rle(&bytes);
        if plain > MAX_FILE {
            ch.xs.count("skipped_too_big");
            return;
        }
        let coq = format!(
            "({}, {}, {}, {}, {})",
            cb,
            coq_list(ents.iter().map(|(n, t, a, b)| format!("({n}, {t}, {a}, {b})"))),
            size,
            coq_bool(err.is_none()),
            coq_bool(strict.is_ok())
        );
        ch.xs.push(coq, js, &format!("{class}:{}", p.cfg.label()), nt);
    } else {
        // object streams: the table is decoded here; every type-1 and type-2 entry is fetched through the
        // library's strict reader, and every object-stream container named by a type-2 entry is looked at
        let mut js = js;
        let (ents, _size, err) = match xref_stream_entries(&bytes) {
            Ok((e, s)) => (e, s, None),
            Err(m) => (vec![], 0, Some(m)),
        };
        let ids: Vec<u32> = ents.iter().filter(|e| e.1 == 1 || e.1 == 2).map(|e| e.0 as u32).collect();
        let strict = if let Some(m) = &err { Err(format!("xref stream: {m}")) } else { strict_walk_pages(&bytes, &ids, p.pages.len()) };
        let mut containers: Vec<u64> = ents.iter().filter(|e| e.1 == 2).map(|e| e.2).collect();
        containers.sort();
        containers.dedup();
        let cont: Vec<String> = containers
            .iter()
            .map(|c| {
                let e = ents.iter().find(|e| e.0 == *c);
                let (ty, off) = e.map(|e| (e.1, e.2 as usize)).unwrap_or((9, 0));
                let is_objstm = ty == 1
                    && bytes.get(off..).map_or(false, |t| {
                        let end = find_from(t, b"stream", 0).unwrap_or(0);
                        let hdr = format!("{} 0 obj", c);
                        t.starts_with(hdr.as_bytes()) && find_from(&t[..end], b"/ObjStm", 0).is_some()
                    });
                format!("({}, {}, {})", c, ty, coq_bool(is_objstm))
            })
            .collect();
        if let Err(e) = &strict {
            js["strict_error"] = json!(e);
        }
        js["file_len"] = json!(bytes.len());
        js["object_streams"] = json!(containers.len());
        let members = ents.iter().filter(|e| e.1 == 2).count();
        let got = strict.as_ref().map(|n| *n as usize).unwrap_or(0);
        ch.strict.push(
            format!("({}, {}, {}, {}, {})", p.pages.len(), got, coq_bool(strict.is_ok()), members, coq_list(cont)),
            js,
            &format!("{class}:{}:{}objstm", p.cfg.label(), containers.len()),
            nt,
        );
    }
}

// ---------------------------------------------------------------- user-chosen names through the VALIDATED entry points
/// `Page::add_color_space` / `Page::add_form_xobject` call `validate_pdf_resource_name`: a name is either
/// rejected, or the written file must be valid and carry the chosen name as a key of the resource dictionary
fn emit_name(out: &mut Out, entry: &str, name: &[u8], class: &str) {
    use oxidize_pdf::geometry::{Point, Rectangle};
    use oxidize_pdf::graphics::{DeviceColorSpace, FormXObject, PageColorSpace};
    use oxidize_pdf::{Document, Page};
    let mut js = json!({"entry": entry, "name": hex(name)});
    let sname = match String::from_utf8(name.to_vec()) {
        Ok(s) => s,
        Err(_) => return,
    };
    let e2 = entry.to_string();
    let res = catch(std::panic::AssertUnwindSafe(move || -> Result<Option<Vec<u8>>, String> {
        let mut page = Page::new(200.0, 100.0);
        let accepted = match e2.as_str() {
            "cs" => page.add_color_space(sname.clone(), PageColorSpace::DeviceAlias(DeviceColorSpace::Rgb)).is_ok(),
            _ => page.add_form_xobject(sname.clone(), FormXObject::new(Rectangle::new(Point::new(0.0, 0.0), Point::new(10.0, 10.0)))).is_ok(),
        };
        if !accepted {
            return Ok(None);
        }
        let mut doc = Document::new();
        doc.add_page(page);
        let mut cfg = oxidize_pdf::writer::WriterConfig::default();
        cfg.compress_streams = false;
        doc.to_bytes_with_config(cfg).map(Some).map_err(|e| format!("{e:?}"))
    }));
    let cat = if entry == "cs" { "ColorSpace" } else { "XObject" };
    match res {
        Err(m) => out.impl_failures.push(json!({"what": format!("panic: {m}"), "case": js})),
        Ok(Err(e)) => {
            // accepted by the validated entry point but the writer refuses: neither rejection nor output
            js["writer_error"] = json!(e);
            out.push(format!("(nil, {}, {}, true, false)", coq_bytes(cat.as_bytes()), coq_bytes(name)), js, class, true);
        }
        Ok(Ok(None)) => {
            js["accepted"] = json!(false);
            out.push(format!("(nil, {}, {}, false, true)", coq_bytes(cat.as_bytes()), coq_bytes(name)), js, &format!("{class}:rejected"), false);
        }
        Ok(Ok(Some(bytes))) => {
            js["accepted"] = json!(true);
            let ids: Vec<u32> = classic_entries(&bytes).map(|v| v.iter().map(|e| e.0).collect()).unwrap_or_default();
            let strict = strict_walk_pages(&bytes, &ids, 1);
            if let Err(e) = &strict {
                js["strict_error"] = json!(e);
            }
            let (cb, _) = coq_bytes_rle(&bytes);
            out.push(format!("({}, {}, {}, true, {})", cb, coq_bytes(cat.as_bytes()), coq_bytes(name), coq_bool(strict.is_ok())), js, &format!("{class}:accepted"), true);
        }
    }
}

pub fn run(ctx: &Ctx) {
    let header = "From OxVerif Require Import Base.Util C03.Checker C03.Writer C03.Case.";
    let mut ch = Chans {
        file: Out::new(ctx, header, "bytes * bytes * list (N * N) * N * N * bool", "file_code"),
        xs: Out::new(ctx, header, "bytes * list (N * N * N * N) * N * bool * bool", "xs_code"),
        strict: Out::new(ctx, header, "N * N * bool * N * list (N * N * bool)", "strict_code2"),
    };
    let mut names = Out::new(ctx, header, "bytes * bytes * bytes * bool * bool", "names_code");
    names.shard_size = 8;
    ch.file.shard_size = 6;
    ch.xs.shard_size = 6;
    if let Some(cases) = ctx.replay_cases() {
        for c in cases {
            if let Some(e) = c.get("entry") {
                emit_name(&mut names, e.as_str().unwrap_or("cs"), &unhex(c["name"].as_str().unwrap_or("")), "replay");
            } else {
                emit(&mut ch, &Prog::from_json(&c), "replay");
            }
        }
    } else {
        let mut r = Rng::new(ctx.seed);
        let n = if ctx.thorough() { 420 } else { 64 };
        for i in 0..n {
            let budget = if i % 3 == 0 { 6 } else { 30 };
            let p = gen_prog(&mut r, i, budget);
            emit(&mut ch, &p, "gen");
        }
        // object-stream configurations (slow to re-open while /Size is 1000001): a few per run, of which
        // one with a SECOND object stream (> 100 compressible objects) and one with a THIRD (> 200)
        let k = if ctx.thorough() { 4 } else { 2 };
        for i in 0..k {
            let mut p = gen_prog(&mut r, 0, 10);
            p.cfg = Cfg { xs: i % 2 == 0, os: true, compress: true, ver: "1.5".into() };
            emit(&mut ch, &p, "gen");
        }
        let many: &[(usize, bool)] = if ctx.thorough() { &[(99, true), (120, false), (205, true), (330, true)] } else { &[(100 + (ctx.seed % 25) as usize, true), (201 + (ctx.seed % 40) as usize, false)] };
        for (n, xs) in many {
            let p = gen_many_pages(&mut r, *n, Cfg { xs: *xs, os: true, compress: true, ver: "1.5".into() });
            emit(&mut ch, &p, "many");
        }
        // user-chosen resource names through the validated entry points: every Table 1 white-space byte and
        // every Table 2 delimiter and '#', at the start / inside / at the end; regular names; random mixtures
        let awkward: [u8; 17] = [0, 9, 10, 12, 13, 32, b'(', b')', b'<', b'>', b'[', b']', b'{', b'}', b'/', b'%', b'#'];
        for entry in ["cs", "form"] {
            for c in awkward {
                for nm in [vec![b'C', b'S', c, b'X'], vec![c, b'C', b'S'], vec![b'C', b'S', c]] {
                    emit_name(&mut names, entry, &nm, "awkward");
                }
            }
            for nm in ["CS1", "A.B-C_D", "R", "x", "F+1", "a*b", "n~1"] {
                emit_name(&mut names, entry, nm.as_bytes(), "regular");
            }
        }
        let nr = if ctx.thorough() { 120 } else { 16 };
        for i in 0..nr {
            let len = r.range(1, 6) as usize;
            let nm: Vec<u8> = (0..len).map(|_| if r.chance(1, 4) { *r.pick(&awkward) } else { *r.pick(b"ABCxyz019._-+") }).collect();
            emit_name(&mut names, if i % 2 == 0 { "cs" } else { "form" }, &nm, "random");
        }
    }
    ch.file.finish("file");
    ch.xs.finish("xs");
    ch.strict.finish("strict");
    names.finish("names");
}
