//! Raw PDF emitter shared by the C18 and C16 harnesses: numbered objects, classic xref
//! table, trailer.  Nothing here goes through the library's writer.
#![allow(dead_code)]
use std::collections::BTreeMap;

#[derive(Default, Clone)]
pub struct RawPdf {
    /// object number -> body bytes (between "n 0 obj\n" and "\nendobj\n")
    pub objs: BTreeMap<u32, Vec<u8>>,
}

impl RawPdf {
    pub fn new() -> Self {
        Self::default()
    }
    pub fn set(&mut self, n: u32, body: impl AsRef<[u8]>) {
        self.objs.insert(n, body.as_ref().to_vec());
    }
    /// stream object with a direct /Length
    pub fn set_stream(&mut self, n: u32, dict_extra: &str, data: &[u8]) {
        let mut b = format!("<< /Length {} {} >>\nstream\n", data.len(), dict_extra).into_bytes();
        b.extend_from_slice(data);
        b.extend_from_slice(b"\nendstream");
        self.objs.insert(n, b);
    }
    pub fn build(&self, catalog: u32) -> Vec<u8> {
        let mut out: Vec<u8> = b"%PDF-1.4\n%\xE2\xE3\xCF\xD3\n".to_vec();
        let max = self.objs.keys().copied().max().unwrap_or(0);
        let mut offs: BTreeMap<u32, usize> = BTreeMap::new();
        for (n, body) in &self.objs {
            offs.insert(*n, out.len());
            out.extend_from_slice(format!("{} 0 obj\n", n).as_bytes());
            out.extend_from_slice(body);
            out.extend_from_slice(b"\nendobj\n");
        }
        let xref_at = out.len();
        out.extend_from_slice(format!("xref\n0 {}\n", max + 1).as_bytes());
        out.extend_from_slice(b"0000000000 65535 f \n");
        for n in 1..=max {
            match offs.get(&n) {
                Some(o) => out.extend_from_slice(format!("{:010} 00000 n \n", o).as_bytes()),
                None => out.extend_from_slice(b"0000000000 65535 f \n"),
            }
        }
        out.extend_from_slice(format!("trailer\n<< /Size {} /Root {} 0 R >>\nstartxref\n{}\n%%EOF\n", max + 1, catalog, xref_at).as_bytes());
        out
    }
}
