//! C05/C06 — neutral object trees shared by the harness channels: conversion from the writer's
//! `Object`, from the reader's `PdfObject`, an independent raw-bytes parser (NO decryption, not the
//! library's lexer), a serializer, and the Coq printer for `OxVerif.C05.EncryptLayer.obj`.
use crate::util::*;
use oxidize_pdf::objects::Object;
use oxidize_pdf::parser::objects::PdfObject;

#[derive(Clone, Debug, PartialEq)]
pub enum T {
    Null,
    Bool(bool),
    Num(String),
    Name(Vec<u8>),
    Str(Vec<u8>),
    Arr(Vec<T>),
    Dict(Vec<(Vec<u8>, T)>),
    Stream(Vec<(Vec<u8>, T)>, Vec<u8>),
    Ref(u32, u16),
}

pub fn fmt_real(f: f64) -> String {
    let s = format!("{f:.6}");
    let s = s.trim_end_matches('0').trim_end_matches('.').to_string();
    if s == "-0" || s.is_empty() {
        "0".into()
    } else {
        s
    }
}
fn sorted(mut v: Vec<(Vec<u8>, T)>) -> Vec<(Vec<u8>, T)> {
    v.sort_by(|a, b| a.0.cmp(&b.0));
    v
}

impl T {
    pub fn from_object(o: &Object) -> T {
        match o {
            Object::Null => T::Null,
            Object::Boolean(b) => T::Bool(*b),
            Object::Integer(i) => T::Num(i.to_string()),
            Object::Real(f) => T::Num(fmt_real(*f)),
            Object::String(s) => T::Str(s.as_bytes().to_vec()),
            Object::ByteString(b) => T::Str(b.clone()),
            Object::Name(n) => T::Name(n.as_bytes().to_vec()),
            Object::Array(a) => T::Arr(a.iter().map(T::from_object).collect()),
            Object::Dictionary(d) => T::Dict(sorted(d.entries().map(|(k, v)| (k.as_bytes().to_vec(), T::from_object(v))).collect())),
            Object::Stream(d, data) => {
                T::Stream(sorted(d.entries().map(|(k, v)| (k.as_bytes().to_vec(), T::from_object(v))).collect()), data.clone())
            }
            Object::Reference(id) => T::Ref(id.number(), id.generation()),
        }
    }
    pub fn from_pdf(o: &PdfObject) -> T {
        match o {
            PdfObject::Null => T::Null,
            PdfObject::Boolean(b) => T::Bool(*b),
            PdfObject::Integer(i) => T::Num(i.to_string()),
            PdfObject::Real(f) => T::Num(fmt_real(*f)),
            PdfObject::String(s) => T::Str(s.0.clone()),
            PdfObject::Name(n) => T::Name(n.0.as_bytes().to_vec()),
            PdfObject::Array(a) => T::Arr(a.0.iter().map(T::from_pdf).collect()),
            PdfObject::Dictionary(d) => T::Dict(sorted(d.0.iter().map(|(k, v)| (k.0.as_bytes().to_vec(), T::from_pdf(v))).collect())),
            PdfObject::Stream(s) => {
                T::Stream(sorted(s.dict.0.iter().map(|(k, v)| (k.0.as_bytes().to_vec(), T::from_pdf(v))).collect()), s.data.clone())
            }
            PdfObject::Reference(n, g) => T::Ref(*n, *g),
        }
    }
    pub fn coq(&self) -> String {
        fn ents(d: &[(Vec<u8>, T)]) -> String {
            let mut s = String::new();
            for (k, v) in d {
                s.push_str(&format!("({}, {}) :: ", nm(k), v.coq()));
            }
            s.push_str("nil");
            s
        }
        fn nm(k: &[u8]) -> String {
            if k.iter().all(|c| c.is_ascii_alphanumeric()) {
                format!("(bytes_of_string \"{}\")", String::from_utf8_lossy(k))
            } else {
                coq_bytes(k)
            }
        }
        match self {
            T::Null => "ONull".into(),
            T::Bool(b) => format!("(OBool {})", coq_bool(*b)),
            T::Num(s) => format!("(ONum \"{}\")", s),
            T::Name(n) => format!("(OName {})", nm(n)),
            T::Str(b) => format!("(OStr {})", coq_bytes(b)),
            T::Arr(a) => {
                let mut s = String::from("(OArr (");
                for x in a {
                    s.push_str(&x.coq());
                    s.push_str(" :: ");
                }
                s.push_str("nil))");
                s
            }
            T::Dict(d) => format!("(ODict ({}))", ents(d)),
            T::Stream(d, data) => format!("(OStream ({}) {})", ents(d), coq_bytes(data)),
            T::Ref(n, g) => format!("(ORef {} {})", n, g),
        }
    }
    /// all strings (depth first, dictionaries by sorted key) followed by stream data
    pub fn payload(&self, out: &mut Vec<Vec<u8>>) {
        match self {
            T::Str(b) => out.push(b.clone()),
            T::Arr(a) => a.iter().for_each(|x| x.payload(out)),
            T::Dict(d) => d.iter().for_each(|(_, v)| v.payload(out)),
            T::Stream(d, data) => {
                d.iter().for_each(|(_, v)| v.payload(out));
                out.push(data.clone());
            }
            _ => {}
        }
    }
    pub fn has_payload(&self) -> bool {
        let mut v = vec![];
        self.payload(&mut v);
        v.iter().any(|b| !b.is_empty())
    }
    pub fn size(&self) -> usize {
        match self {
            T::Str(b) => b.len() + 4,
            T::Arr(a) => a.iter().map(|x| x.size()).sum::<usize>() + 2,
            T::Dict(d) => d.iter().map(|(k, v)| k.len() + v.size() + 2).sum::<usize>() + 2,
            T::Stream(d, data) => d.iter().map(|(k, v)| k.len() + v.size() + 2).sum::<usize>() + data.len() + 8,
            T::Name(n) => n.len(),
            _ => 4,
        }
    }
    pub fn get<'a>(&'a self, key: &str) -> Option<&'a T> {
        match self {
            T::Dict(d) | T::Stream(d, _) => d.iter().find(|(k, _)| k == key.as_bytes()).map(|(_, v)| v),
            _ => None,
        }
    }
    /// serialize in PDF syntax (used by the reference encryptor); strings as hex
    pub fn write(&self, out: &mut Vec<u8>) {
        match self {
            T::Null => out.extend_from_slice(b"null"),
            T::Bool(b) => out.extend_from_slice(if *b { b"true" } else { b"false" }),
            T::Num(s) => out.extend_from_slice(s.as_bytes()),
            T::Name(n) => {
                out.push(b'/');
                out.extend_from_slice(n);
            }
            T::Str(b) => {
                out.push(b'<');
                out.extend_from_slice(hex(b).as_bytes());
                out.push(b'>');
            }
            T::Arr(a) => {
                out.push(b'[');
                for (i, x) in a.iter().enumerate() {
                    if i > 0 {
                        out.push(b' ');
                    }
                    x.write(out);
                }
                out.push(b']');
            }
            T::Dict(d) => {
                out.extend_from_slice(b"<<");
                for (k, v) in d {
                    out.push(b'/');
                    out.extend_from_slice(k);
                    out.push(b' ');
                    v.write(out);
                    out.push(b'\n');
                }
                out.extend_from_slice(b">>");
            }
            T::Stream(d, data) => {
                T::Dict(d.clone()).write(out);
                out.extend_from_slice(b"\nstream\n");
                out.extend_from_slice(data);
                out.extend_from_slice(b"\nendstream");
            }
            T::Ref(n, g) => out.extend_from_slice(format!("{} {} R", n, g).as_bytes()),
        }
    }
}

// ------------------------------------------------------------------ independent raw parser
pub struct P<'a> {
    pub b: &'a [u8],
    pub i: usize,
}
fn is_ws(c: u8) -> bool {
    matches!(c, 0 | 9 | 10 | 12 | 13 | 32)
}
fn is_delim(c: u8) -> bool {
    matches!(c, b'(' | b')' | b'<' | b'>' | b'[' | b']' | b'{' | b'}' | b'/' | b'%')
}
impl<'a> P<'a> {
    pub fn new(b: &'a [u8], i: usize) -> Self {
        P { b, i }
    }
    pub fn ws(&mut self) {
        while self.i < self.b.len() {
            let c = self.b[self.i];
            if is_ws(c) {
                self.i += 1;
            } else if c == b'%' {
                while self.i < self.b.len() && self.b[self.i] != b'\n' && self.b[self.i] != b'\r' {
                    self.i += 1;
                }
            } else {
                break;
            }
        }
    }
    fn token(&mut self) -> &'a [u8] {
        let s = self.i;
        while self.i < self.b.len() && !is_ws(self.b[self.i]) && !is_delim(self.b[self.i]) {
            self.i += 1;
        }
        &self.b[s..self.i]
    }
    pub fn starts(&self, s: &[u8]) -> bool {
        self.b[self.i..].starts_with(s)
    }
    pub fn uint(&mut self) -> Option<u64> {
        self.ws();
        let save = self.i;
        let t = self.token();
        match std::str::from_utf8(t).ok().and_then(|s| s.parse::<u64>().ok()) {
            Some(v) => Some(v),
            None => {
                self.i = save;
                None
            }
        }
    }
    pub fn obj(&mut self) -> Option<T> {
        self.ws();
        if self.i >= self.b.len() {
            return None;
        }
        let c = self.b[self.i];
        if c == b'/' {
            self.i += 1;
            let t = self.token();
            let mut n = vec![];
            let mut k = 0;
            while k < t.len() {
                if t[k] == b'#' && k + 3 <= t.len() {
                    if let Ok(v) = u8::from_str_radix(std::str::from_utf8(&t[k + 1..k + 3]).unwrap_or("zz"), 16) {
                        n.push(v);
                        k += 3;
                        continue;
                    }
                }
                n.push(t[k]);
                k += 1;
            }
            return Some(T::Name(n));
        }
        if c == b'(' {
            return self.lit();
        }
        if c == b'<' {
            if self.starts(b"<<") {
                return self.dict();
            }
            self.i += 1;
            let mut digs = vec![];
            while self.i < self.b.len() && self.b[self.i] != b'>' {
                if !is_ws(self.b[self.i]) {
                    digs.push(self.b[self.i]);
                }
                self.i += 1;
            }
            self.i += 1;
            if digs.len() % 2 == 1 {
                digs.push(b'0');
            }
            let s = String::from_utf8(digs).ok()?;
            let mut out = vec![];
            for k in 0..s.len() / 2 {
                out.push(u8::from_str_radix(&s[2 * k..2 * k + 2], 16).ok()?);
            }
            return Some(T::Str(out));
        }
        if c == b'[' {
            self.i += 1;
            let mut v = vec![];
            loop {
                self.ws();
                if self.i >= self.b.len() {
                    return None;
                }
                if self.b[self.i] == b']' {
                    self.i += 1;
                    return Some(T::Arr(v));
                }
                v.push(self.obj()?);
            }
        }
        let save = self.i;
        let t = self.token();
        match t {
            b"null" => return Some(T::Null),
            b"true" => return Some(T::Bool(true)),
            b"false" => return Some(T::Bool(false)),
            _ => {}
        }
        let s = std::str::from_utf8(t).ok()?;
        if let Ok(n) = s.parse::<i64>() {
            // reference?
            let after = self.i;
            if n >= 0 {
                if let Some(g) = self.uint() {
                    self.ws();
                    if self.i < self.b.len() && self.b[self.i] == b'R' && (self.i + 1 == self.b.len() || is_ws(self.b[self.i + 1]) || is_delim(self.b[self.i + 1])) {
                        self.i += 1;
                        return Some(T::Ref(n as u32, g as u16));
                    }
                }
            }
            self.i = after;
            return Some(T::Num(n.to_string()));
        }
        if let Ok(f) = s.parse::<f64>() {
            return Some(T::Num(fmt_real(f)));
        }
        self.i = save;
        None
    }
    fn lit(&mut self) -> Option<T> {
        self.i += 1;
        let mut depth = 1;
        let mut out = vec![];
        while self.i < self.b.len() {
            let c = self.b[self.i];
            self.i += 1;
            match c {
                b'\\' => {
                    let d = *self.b.get(self.i)?;
                    self.i += 1;
                    match d {
                        b'n' => out.push(10),
                        b'r' => out.push(13),
                        b't' => out.push(9),
                        b'b' => out.push(8),
                        b'f' => out.push(12),
                        b'0'..=b'7' => {
                            let mut v = (d - b'0') as u32;
                            for _ in 0..2 {
                                if let Some(&e) = self.b.get(self.i) {
                                    if (b'0'..=b'7').contains(&e) {
                                        v = v * 8 + (e - b'0') as u32;
                                        self.i += 1;
                                    } else {
                                        break;
                                    }
                                }
                            }
                            out.push(v as u8);
                        }
                        b'\r' => {
                            if self.b.get(self.i) == Some(&b'\n') {
                                self.i += 1;
                            }
                        }
                        b'\n' => {}
                        other => out.push(other),
                    }
                }
                b'(' => {
                    depth += 1;
                    out.push(c);
                }
                b')' => {
                    depth -= 1;
                    if depth == 0 {
                        return Some(T::Str(out));
                    }
                    out.push(c);
                }
                _ => out.push(c),
            }
        }
        None
    }
    fn dict(&mut self) -> Option<T> {
        self.i += 2;
        let mut d = vec![];
        loop {
            self.ws();
            if self.i + 1 >= self.b.len() {
                return None;
            }
            if self.starts(b">>") {
                self.i += 2;
                break;
            }
            let k = match self.obj()? {
                T::Name(n) => n,
                _ => return None,
            };
            let v = self.obj()?;
            d.push((k, v));
        }
        let d = sorted(d);
        // stream?
        let save = self.i;
        self.ws();
        if self.starts(b"stream") {
            self.i += 6;
            if self.starts(b"\r\n") {
                self.i += 2;
            } else if self.starts(b"\n") || self.starts(b"\r") {
                self.i += 1;
            }
            let len = match d.iter().find(|(k, _)| k == b"Length").map(|(_, v)| v) {
                Some(T::Num(s)) => s.parse::<usize>().ok()?,
                _ => return None,
            };
            if self.i + len > self.b.len() {
                return None;
            }
            let data = self.b[self.i..self.i + len].to_vec();
            self.i += len;
            self.ws();
            if !self.starts(b"endstream") {
                return None;
            }
            self.i += 9;
            return Some(T::Stream(d, data));
        }
        self.i = save;
        Some(T::Dict(d))
    }
}

/// every `N G obj` of the file that is reachable by a plain scan: (num, gen, tree)
pub fn scan_objects(b: &[u8]) -> Vec<(u32, u16, T)> {
    let mut out = vec![];
    let mut i = 0;
    while i + 4 < b.len() {
        // line start followed by digits
        if (i == 0 || b[i - 1] == b'\n' || b[i - 1] == b'\r') && b[i].is_ascii_digit() {
            let mut p = P::new(b, i);
            if let (Some(n), Some(g)) = (p.uint(), p.uint()) {
                p.ws();
                if p.starts(b"obj") {
                    p.i += 3;
                    if let Some(t) = p.obj() {
                        p.ws();
                        if p.starts(b"endobj") {
                            out.push((n as u32, g as u16, t));
                            i = p.i;
                            continue;
                        }
                    }
                }
            }
        }
        i += 1;
    }
    out
}

/// the trailer dictionary of a classic-xref file (last `trailer` keyword)
pub fn scan_trailer(b: &[u8]) -> Option<T> {
    let pos = b.windows(7).rposition(|w| w == b"trailer")?;
    P::new(b, pos + 7).obj()
}

pub fn inflate(data: &[u8]) -> Option<Vec<u8>> {
    use std::io::Read;
    let mut d = flate2::read::ZlibDecoder::new(data);
    let mut out = vec![];
    d.read_to_end(&mut out).ok()?;
    Some(out)
}
pub fn deflate(data: &[u8]) -> Vec<u8> {
    use std::io::Write;
    let mut e = flate2::write::ZlibEncoder::new(Vec::new(), flate2::Compression::default());
    e.write_all(data).unwrap();
    e.finish().unwrap()
}

/// members of an (already decrypted / plaintext) object stream: (num, tree)
pub fn objstm_members(dict: &[(Vec<u8>, T)], decoded: &[u8]) -> Vec<(u32, T)> {
    let geti = |k: &str| match dict.iter().find(|(kk, _)| kk == k.as_bytes()).map(|(_, v)| v) {
        Some(T::Num(s)) => s.parse::<usize>().ok(),
        _ => None,
    };
    let (n, first) = match (geti("N"), geti("First")) {
        (Some(n), Some(f)) => (n, f),
        _ => return vec![],
    };
    let mut p = P::new(decoded, 0);
    let mut heads = vec![];
    for _ in 0..n {
        match (p.uint(), p.uint()) {
            (Some(a), Some(o)) => heads.push((a as u32, o as usize)),
            _ => return vec![],
        }
    }
    let mut out = vec![];
    for (num, off) in heads {
        if first + off <= decoded.len() {
            if let Some(t) = P::new(decoded, first + off).obj() {
                out.push((num, t));
            }
        }
    }
    out
}
