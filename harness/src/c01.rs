//! C01 — reading any byte sequence never crashes, hangs or exhausts memory.
//!
//! Two roles in one binary:
//!  * `oxh c01 --worker <file> <preset|all>`: ISOLATED WORKER.  Opens the bytes under the preset on a
//!    2 MiB thread stack with RLIMIT_AS set, navigates (page count, each page, resources, content
//!    streams decoded + parsed, text extraction) and prints one line `OUT <preset> <ok|err|panic> <detail>`
//!    per preset.  A stack overflow / allocation failure kills the process: the parent sees the signal.
//!    `<file>` may also be `direct:<kind>` with the arguments in the file (kernel-level public entries).
//!  * `oxh c01 --seed .. --tier .. --out DIR`: PARENT.  Generates the inputs (boundary catalogue x
//!    slots x skeletons x presets, mutations, bombs, random), runs every case in a child process with a
//!    wall limit, records exit status / signal / panic message and writes Coq case shards judged by
//!    `C01.Judge.case_code` (the kernel catalogue of C01/Kernels.v evaluated on the spliced integers).
use crate::util::*;
use serde_json::{json, Value};
use std::io::{Cursor, Read, Write};
use std::path::{Path, PathBuf};
use std::process::{Command, Stdio};
use std::sync::{Arc, Mutex};
use std::time::{Duration, Instant};

#[path = "c01_gen.rs"]
mod gen;

pub const PRESETS: [&str; 5] = ["strict", "default", "tolerant", "lenient", "skip"];

fn options(name: &str) -> oxidize_pdf::parser::ParseOptions {
    use oxidize_pdf::parser::ParseOptions;
    match name {
        "strict" => ParseOptions::strict(),
        "tolerant" => ParseOptions::tolerant(),
        "lenient" => ParseOptions::lenient(),
        "skip" => ParseOptions::skip_errors(),
        _ => ParseOptions::default(),
    }
}

// ------------------------------------------------------------------------------------------ worker
#[repr(C)]
struct RLimit {
    cur: u64,
    max: u64,
}
extern "C" {
    fn setrlimit(resource: i32, rlim: *const RLimit) -> i32;
    fn clock() -> i64; // processor time used so far, in microseconds (CLOCKS_PER_SEC = 1_000_000)
}
const RLIMIT_AS: i32 = 9; // linux
const RLIMIT_CORE: i32 = 4;
const RLIMIT_CPU: i32 = 0;

static PANIC_MSG: Mutex<Option<String>> = Mutex::new(None);

/// navigation of whatever document results; every `?`-style failure is an ordinary error value
fn navigate(bytes: Vec<u8>, preset: &str) -> Result<String, String> {
    use oxidize_pdf::parser::{ContentParser, PdfDocument, PdfReader};
    let reader = PdfReader::new_with_options(Cursor::new(bytes), options(preset)).map_err(|e| format!("open:{}", short(&e.to_string())))?;
    let doc = PdfDocument::new(reader);
    let n = doc.page_count().map_err(|e| format!("count:{}", short(&e.to_string())))?;
    let mut ok_pages = 0u32;
    let mut ops = 0usize;
    let mut errs = 0u32;
    // the page count may be a number the file merely claims; each index is still visited (capped)
    for i in 0..n.min(300) {
        match doc.get_page(i) {
            Ok(p) => {
                ok_pages += 1;
                let _ = p.get_resources().map(|d| d.0.len());
                let _ = doc.get_page_resources(&p).map(|r| r.map(|d| d.0.len()));
                match doc.get_page_content_streams(&p) {
                    Ok(streams) => {
                        for s in streams {
                            match ContentParser::parse_content(&s) {
                                Ok(v) => ops += v.len(),
                                Err(_) => errs += 1,
                            }
                        }
                    }
                    Err(_) => errs += 1,
                }
                if doc.extract_text_from_page(i).is_err() {
                    errs += 1;
                }
            }
            Err(_) => {
                errs += 1;
                if errs > 20 {
                    break;
                }
            }
        }
    }
    let _ = doc.metadata();
    Ok(format!("pages={} visited={} ops={} errs={}", n, ok_pages, ops, errs))
}

fn short(s: &str) -> String {
    let t: String = s.chars().filter(|c| !c.is_control()).take(70).collect();
    t.replace(' ', "_")
}

/// kernel-level public entries (no file): `kind` + integer/byte arguments as JSON
fn direct(kind: &str, a: &Value) -> Result<String, String> {
    use oxidize_pdf::parser::lexer::Lexer;
    use oxidize_pdf::parser::objects::{PdfArray, PdfDictionary, PdfObject, PdfStream};
    use oxidize_pdf::parser::ParseOptions;
    let int = |k: &str| a[k].as_str().and_then(|s| s.parse::<i64>().ok()).or_else(|| a[k].as_i64()).unwrap_or(0);
    let bytes = |k: &str| unhex(a[k].as_str().unwrap_or(""));
    match kind {
        // xref-stream entry decoding: /W, /Index, /Size against `len` bytes of decoded data
        "xrefstm" => {
            let mut d = PdfDictionary::new();
            let w: Vec<PdfObject> = ["w0", "w1", "w2"].iter().map(|k| PdfObject::Integer(int(k))).collect();
            d.insert("W".to_string(), PdfObject::Array(PdfArray(w)));
            d.insert("Size".to_string(), PdfObject::Integer(int("size")));
            if !a["if"].is_null() {
                d.insert("Index".to_string(), PdfObject::Array(PdfArray(vec![PdfObject::Integer(int("if")), PdfObject::Integer(int("ic"))])));
            }
            let data = bytes("data");
            let mut cur = Cursor::new(Vec::<u8>::new());
            let xs = oxidize_pdf::parser::xref_stream::XRefStream::parse(&mut cur, d, data, &ParseOptions::default()).map_err(|e| short(&e.to_string()))?;
            let e = xs.to_xref_entries().map_err(|e| short(&e.to_string()))?;
            Ok(format!("n={}", e.len()))
        }
        // object stream: /N, /First against the given (undecoded = unfiltered) data
        "objstm" => {
            let mut d = PdfDictionary::new();
            d.insert("N".to_string(), PdfObject::Integer(int("n")));
            d.insert("First".to_string(), PdfObject::Integer(int("first")));
            let s = PdfStream { dict: d, data: bytes("data") };
            let os = oxidize_pdf::parser::object_stream::ObjectStream::parse(s, &options(a["preset"].as_str().unwrap_or("default"))).map_err(|e| short(&e.to_string()))?;
            Ok(format!("n={}", os.objects().len()))
        }
        // PdfObject::parse on raw bytes (nesting / repetition bombs at the object level)
        "object" => {
            let data = gen::expand(a);
            let mut lx = Lexer::new_with_options(Cursor::new(data), options(a["preset"].as_str().unwrap_or("default")));
            let o = PdfObject::parse(&mut lx).map_err(|e| short(&e.to_string()))?;
            Ok(format!("{}", obj_kind(&o)))
        }
        // Lexer::next_token until Eof
        "tokens" => {
            let data = gen::expand(a);
            let mut lx = Lexer::new_with_options(Cursor::new(data), options(a["preset"].as_str().unwrap_or("default")));
            let mut n = 0usize;
            loop {
                match lx.next_token() {
                    Ok(oxidize_pdf::parser::lexer::Token::Eof) => break,
                    Ok(_) => n += 1,
                    Err(e) => return Err(short(&e.to_string())),
                }
            }
            Ok(format!("tokens={}", n))
        }
        // content stream parser
        "content" => {
            let data = gen::expand(a);
            let v = oxidize_pdf::parser::ContentParser::parse_content(&data).map_err(|e| short(&e.to_string()))?;
            Ok(format!("ops={}", v.len()))
        }
        // stream decoding with /DecodeParms (predictor sizing), LZW, RunLength, ASCII85
        "decode" => {
            let mut d = PdfDictionary::new();
            let f = a["filter"].as_str().unwrap_or("FlateDecode").to_string();
            d.insert("Filter".to_string(), PdfObject::Name(oxidize_pdf::parser::objects::PdfName(f)));
            if !a["predictor"].is_null() {
                let mut p = PdfDictionary::new();
                for (k, j) in [("Predictor", "predictor"), ("Colors", "colors"), ("Columns", "columns"), ("BitsPerComponent", "bpc"), ("EarlyChange", "early")] {
                    if !a[j].is_null() {
                        p.insert(k.to_string(), PdfObject::Integer(int(j)));
                    }
                }
                d.insert("DecodeParms".to_string(), PdfObject::Dictionary(p));
            }
            let s = PdfStream { dict: d, data: bytes("data") };
            let out = s.decode(&options(a["preset"].as_str().unwrap_or("default"))).map_err(|e| short(&e.to_string()))?;
            Ok(format!("len={}", out.len()))
        }
        // ToUnicode/CMap range arithmetic
        "cmap" => {
            let cm = oxidize_pdf::text::cmap::CMap::parse(&bytes("data")).map_err(|e| short(&e.to_string()))?;
            let r = cm.map(&bytes("code"));
            Ok(format!("mapped={:?}", r.map(|v| hex(&v))))
        }
        // PNG decoder sizing
        "png" => {
            let img = oxidize_pdf::graphics::Image::from_png_data(bytes("data")).map_err(|e| short(&e.to_string()))?;
            Ok(format!("w={}", img.width()))
        }
        _ => Err("unknown-direct-kind".into()),
    }
}
fn obj_kind(o: &oxidize_pdf::parser::objects::PdfObject) -> &'static str {
    use oxidize_pdf::parser::objects::PdfObject::*;
    match o {
        Array(_) => "array",
        Dictionary(_) => "dict",
        Stream(_) => "stream",
        Integer(_) => "int",
        _ => "other",
    }
}

fn worker(file: &str, preset: &str) {
    let mb: u64 = std::env::var("C01_AS_MB").ok().and_then(|s| s.parse().ok()).unwrap_or(1536);
    unsafe {
        let l = RLimit { cur: mb << 20, max: mb << 20 };
        setrlimit(RLIMIT_AS, &l);
        let c = RLimit { cur: 0, max: 0 };
        setrlimit(RLIMIT_CORE, &c);
        // CPU-time limit (robust against a loaded machine): SIGXCPU at `cpu` seconds, SIGKILL 2 s later
        let cpu: u64 = std::env::var("C01_CPU_S").ok().and_then(|s| s.parse().ok()).unwrap_or(20);
        let t = RLimit { cur: cpu, max: cpu + 2 };
        setrlimit(RLIMIT_CPU, &t);
        if preset == "all" {
            // `cpu` is the budget of ONE preset: the soft limit is moved forward before each preset (below),
            // the hard limit covers the four of them
            let t = RLimit { cur: cpu, max: 4 * cpu + 8 };
            setrlimit(RLIMIT_CPU, &t);
        }
    }
    std::panic::set_hook(Box::new(|info| {
        let loc = info.location().map(|l| format!("{}:{}", l.file().rsplit('/').next().unwrap_or(""), l.line())).unwrap_or_default();
        let msg = if let Some(s) = info.payload().downcast_ref::<&str>() {
            s.to_string()
        } else if let Some(s) = info.payload().downcast_ref::<String>() {
            s.clone()
        } else {
            "panic".into()
        };
        *PANIC_MSG.lock().unwrap() = Some(format!("{}@{}", short(&msg), loc));
    }));
    let raw = std::fs::read(file).expect("worker: read input");
    let presets: Vec<String> = if preset == "all" { vec!["strict".into(), "default".into(), "tolerant".into(), "skip".into()] } else { vec![preset.to_string()] };
    let is_direct = raw.starts_with(b"{\"direct\"");
    let all = preset == "all";
    for p in presets {
        if all {
            unsafe {
                let cpu: u64 = std::env::var("C01_CPU_S").ok().and_then(|s| s.parse().ok()).unwrap_or(20);
                let used = (clock().max(0) as u64) / 1_000_000;
                let t = RLimit { cur: used + cpu + 1, max: 4 * cpu + 8 };
                setrlimit(RLIMIT_CPU, &t);
            }
        }
        let b = raw.clone();
        let p2 = p.clone();
        let h = std::thread::Builder::new()
            .stack_size(2 << 20)
            .spawn(move || {
                if is_direct {
                    let mut v: Value = serde_json::from_slice(&b).expect("direct json");
                    if p2 != "all" && v["args"]["preset"].is_null() {
                        v["args"]["preset"] = json!(p2);
                    }
                    direct(v["direct"].as_str().unwrap_or(""), &v["args"])
                } else {
                    navigate(b, &p2)
                }
            })
            .expect("spawn");
        let line = match h.join() {
            Ok(Ok(s)) => format!("OUT {} ok {}", p, s),
            Ok(Err(e)) => format!("OUT {} err {}", p, e),
            Err(_) => format!("OUT {} panic {}", p, PANIC_MSG.lock().unwrap().take().unwrap_or_default()),
        };
        println!("{}", line);
        let _ = std::io::stdout().flush();
    }
}

// ------------------------------------------------------------------------------------------ parent
#[derive(Clone, Debug)]
pub struct Obs {
    pub kind: &'static str, // ok | err | panic | crash
    pub detail: String,
    pub ms: u128,
}

fn run_child(exe: &Path, file: &Path, preset: &str, cpu_s: u64) -> Vec<(String, Obs)> {
    let t0 = Instant::now();
    // the worker limits its own CPU time (robust against a loaded machine); the wall limit only catches sleeping hangs
    let wall = Duration::from_secs(cpu_s * if preset == "all" { 24 } else { 6 });
    let mut child = Command::new(exe)
        .args(["c01", "--worker", file.to_str().unwrap(), preset])
        .env("C01_CPU_S", cpu_s.to_string())
        .stdin(Stdio::null())
        .stdout(Stdio::piped())
        .stderr(Stdio::piped())
        .spawn()
        .expect("spawn worker");
    let mut so = child.stdout.take().unwrap();
    let mut se = child.stderr.take().unwrap();
    let t_out = std::thread::spawn(move || {
        let mut s = String::new();
        let _ = so.read_to_string(&mut s);
        s
    });
    let t_err = std::thread::spawn(move || {
        let mut s = Vec::new();
        let _ = se.read_to_end(&mut s);
        String::from_utf8_lossy(&s[..s.len().min(4000)]).to_string()
    });
    let mut timed_out = false;
    let status = loop {
        match child.try_wait() {
            Ok(Some(st)) => break Some(st),
            Ok(None) => {
                if t0.elapsed() > wall {
                    let _ = child.kill();
                    timed_out = true;
                    break child.wait().ok();
                }
                std::thread::sleep(Duration::from_millis(4));
            }
            Err(_) => break None,
        }
    };
    let out = t_out.join().unwrap_or_default();
    let err = t_err.join().unwrap_or_default();
    let ms = t0.elapsed().as_millis();
    let wanted: Vec<String> = if preset == "all" { vec!["strict".into(), "default".into(), "tolerant".into(), "skip".into()] } else { vec![preset.to_string()] };
    let mut res = vec![];
    for line in out.lines() {
        let mut it = line.splitn(4, ' ');
        if it.next() != Some("OUT") {
            continue;
        }
        let p = it.next().unwrap_or("").to_string();
        let k = match it.next() {
            Some("ok") => "ok",
            Some("err") => "err",
            _ => "panic",
        };
        res.push((p, Obs { kind: k, detail: it.next().unwrap_or("").to_string(), ms }));
    }
    // presets without an OUT line: the process died there (first missing) or never got to them
    let clean = status.map(|s| s.success()).unwrap_or(false) && !timed_out;
    if !clean {
        use std::os::unix::process::ExitStatusExt;
        let sig = status.and_then(|s| s.signal());
        let why = if timed_out {
            format!("wall-timeout>{}s", wall.as_secs())
        } else if sig == Some(24) || (sig == Some(9) && !err.contains("memory allocation")) {
            "cpu-timeout".to_string()
        } else if err.contains("memory allocation of") {
            format!("oom:{}", short(err.lines().find(|l| l.contains("memory allocation")).unwrap_or("")))
        } else if err.contains("overflowed its stack") {
            "stack-overflow".to_string()
        } else if let Some(s) = sig {
            format!("signal{}:{}", s, short(err.lines().last().unwrap_or("")))
        } else {
            format!("exit{:?}:{}", status.and_then(|s| s.code()), short(err.lines().last().unwrap_or("")))
        };
        if let Some(p) = wanted.iter().find(|p| !res.iter().any(|(q, _)| &q == p)) {
            res.push((p.clone(), Obs { kind: "crash", detail: why, ms }));
        }
    }
    res
}

/// one generated input + what the Coq side needs to judge it
pub struct Case {
    pub spec: Value,        // enough to regenerate the input (gen::build)
    pub kernel: String,     // Coq constructor of C01.Judge.kernel
    pub args: Vec<i128>,    // integers spliced into the slots, in the kernel's argument order
    pub presets: Vec<&'static str>,
    pub class: String,
}

fn coq_case(k: &str, args: &[i128], preset: &str, o: &Obs) -> String {
    let ob = match o.kind {
        "ok" => "OOk",
        "err" => "OErr",
        "panic" => "OPanic",
        _ => "OCrash",
    };
    let a: Vec<String> = args.iter().map(|z| coq_z(*z)).collect();
    let pl = match preset {
        "strict" => "PStrict",
        "default" => "PDefault",
        "tolerant" => "PTolerant",
        "lenient" => "PLenient",
        _ => "PSkip",
    };
    format!("mkCase {} ({}) {} {}", k, if a.is_empty() { "nil".to_string() } else { format!("{} :: nil", a.join(" :: ")) }, pl, ob)
}

pub fn run(ctx: &Ctx) {
    if let Some(i) = ctx.args.iter().position(|a| a == "--worker") {
        worker(&ctx.args[i + 1], ctx.args.get(i + 2).map(|s| s.as_str()).unwrap_or("default"));
        return;
    }
    let header = "From OxVerif Require Import Base.Util C01.Judge.";
    let mut out = Out::new(ctx, header, "case", "case_code");
    out.shard_size = 1500;
    let cases: Vec<Case> = match ctx.replay_cases() {
        Some(cs) => cs.iter().filter_map(gen::case_from_json).collect(),
        None => gen::generate(ctx),
    };
    let exe = std::env::current_exe().expect("current exe");
    let tmp: PathBuf = ctx.out.join("inputs");
    std::fs::create_dir_all(&tmp).unwrap();
    let wall_s: u64 = std::env::var("C01_WALL_S").ok().and_then(|s| s.parse().ok()).unwrap_or(20);
    let n = cases.len();
    let results: Arc<Mutex<Vec<Vec<(String, Obs)>>>> = Arc::new(Mutex::new(vec![vec![]; n]));
    let next = Arc::new(Mutex::new(0usize));
    // circuit breaker: once a class has BREAKER failing cases the defect is established (with replays);
    // the remaining cases of that class are skipped so that a systematic hang cannot exhaust the time budget
    const BREAKER: u32 = 8;
    let class_fails: Arc<Mutex<std::collections::HashMap<String, u32>>> = Arc::new(Mutex::new(Default::default()));
    let skipped = Arc::new(Mutex::new(0u64));
    let cases = Arc::new(cases);
    let nthreads: usize = std::env::var("C01_JOBS").ok().and_then(|s| s.parse().ok()).unwrap_or(12);
    let mut hs = vec![];
    for _ in 0..nthreads {
        let (cases, results, next, exe, tmp) = (cases.clone(), results.clone(), next.clone(), exe.clone(), tmp.clone());
        let (class_fails, skipped) = (class_fails.clone(), skipped.clone());
        hs.push(std::thread::spawn(move || loop {
            let i = {
                let mut g = next.lock().unwrap();
                let i = *g;
                *g += 1;
                i
            };
            if i >= cases.len() {
                break;
            }
            let c = &cases[i];
            if class_fails.lock().unwrap().get(&c.class).copied().unwrap_or(0) >= BREAKER {
                *skipped.lock().unwrap() += 1;
                continue;
            }
            let bytes = gen::build(&c.spec);
            // CPU budget per preset: `wall_s` (20 s) for inputs up to 1 MiB, plus 40 s per further MiB (DESIGN 5a:
            // an order of magnitude above what the linear bounds predict for a debug build)
            let per_preset = wall_s + 40 * (bytes.len() as u64 >> 20);
            let f = tmp.join(format!("in_{}", i));
            std::fs::write(&f, &bytes).unwrap();
            // the four distinct presets in one process; on an abnormal end the remaining ones individually
            let mut obs: Vec<(String, Obs)> = vec![];
            let distinct: Vec<&str> = c.presets.iter().copied().filter(|p| *p != "lenient").collect();
            if distinct.len() == 4 {
                obs = run_child(&exe, &f, "all", per_preset);
            }
            for p in &distinct {
                if !obs.iter().any(|(q, _)| q == p) {
                    obs.extend(run_child(&exe, &f, p, per_preset));
                }
            }
            // `lenient()` is `tolerant()` (same value): run it for real on a sample, otherwise it shares the run
            if c.presets.contains(&"lenient") {
                if i % 16 == 0 || !c.presets.contains(&"tolerant") {
                    obs.extend(run_child(&exe, &f, "lenient", per_preset));
                } else if let Some((_, o)) = obs.iter().find(|(q, _)| q == "tolerant").cloned() {
                    obs.push(("lenient".into(), o));
                }
            }
            let _ = std::fs::remove_file(&f);
            if obs.iter().any(|(_, o)| o.kind == "crash" || o.kind == "panic") {
                *class_fails.lock().unwrap().entry(c.class.clone()).or_insert(0) += 1;
            }
            results.lock().unwrap()[i] = obs;
        }));
    }
    for h in hs {
        let _ = h.join();
    }
    let results = results.lock().unwrap();
    let mut slow = 0u128;
    for (i, c) in cases.iter().enumerate() {
        for (p, o) in &results[i] {
            if !c.presets.iter().any(|q| q == p) {
                continue;
            }
            slow = slow.max(o.ms);
            let mut js = c.spec.clone();
            js["preset"] = json!(p);
            js["kernel"] = json!(c.kernel);
            js["kargs"] = json!(c.args.iter().map(|z| z.to_string()).collect::<Vec<_>>());
            js["class"] = json!(c.class);
            js["observed"] = json!(format!("{} {}", o.kind, o.detail));
            let nontrivial = c.kernel != "KNone" || o.kind == "ok";
            out.push(coq_case(&c.kernel, &c.args, p, o), js, &format!("{}:{}", c.class, o.kind), nontrivial);
        }
    }
    out.extra.insert("slowest_case_ms".into(), json!(slow as u64));
    out.extra.insert("wall_limit_s".into(), json!(wall_s));
    out.extra.insert("skipped_after_class_breaker".into(), json!(*skipped.lock().unwrap()));
    out.finish("robust");
}
