//! C14 — HybridChunker::chunk / chunk_with_graph vs the Gallina model (C14/Model.v).
use crate::util::*;
use oxidize_pdf::pipeline::{
    ContextFormat, ContextMode, Element, ElementData, ElementGraph, ElementMetadata, HybridChunk, HybridChunkConfig,
    HybridChunker, ImageElementData, KeyValueElementData, MergePolicy, TableElementData, TokenCounter, WordProxyCounter,
};
use serde_json::{json, Value};
use std::sync::Arc;

// ---------------------------------------------------------------- counters (ids as in Model.v counter_of)
struct Chars4;
impl TokenCounter for Chars4 {
    fn count(&self, t: &str) -> usize {
        (t.chars().count() + 3) / 4
    }
    fn name(&self) -> &'static str {
        "verif-chars4"
    }
}
/// non-additive BPE-like toy: words + newline characters + sentence punctuation
struct Toy;
impl TokenCounter for Toy {
    fn count(&self, t: &str) -> usize {
        t.split_whitespace().count() + t.chars().filter(|c| matches!(*c, '\n' | '.' | '!' | '?')).count()
    }
    fn name(&self) -> &'static str {
        "verif-toy"
    }
}
/// additive: number of non-white-space characters
struct NonWs;
impl TokenCounter for NonWs {
    fn count(&self, t: &str) -> usize {
        t.chars().filter(|c| !c.is_whitespace()).count()
    }
    fn name(&self) -> &'static str {
        "verif-nonws"
    }
    fn is_additive_over_whitespace_join(&self) -> bool {
        true
    }
}
fn counter(id: u64) -> Arc<dyn TokenCounter> {
    match id {
        0 => Arc::new(WordProxyCounter),
        1 => Arc::new(Chars4),
        2 => Arc::new(Toy),
        _ => Arc::new(NonWs),
    }
}

// ---------------------------------------------------------------- element specs
#[derive(Clone, Debug, PartialEq)]
enum Body {
    Text(String),
    Table(Vec<Vec<String>>),
    Image(Option<String>),
    Kv(String, String),
}
#[derive(Clone, Debug, PartialEq)]
struct Spec {
    kind: &'static str,
    body: Body,
    parent: Option<String>,
    hpath: Vec<String>,
    page: u32,
}
const KINDS: [&str; 9] = ["title", "paragraph", "table", "header", "footer", "list_item", "image", "code_block", "key_value"];
fn kind_static(s: &str) -> &'static str {
    KINDS.iter().copied().find(|k| *k == s).unwrap_or("paragraph")
}
fn coq_kind(k: &str) -> &'static str {
    match k {
        "title" => "KTitle",
        "paragraph" => "KParagraph",
        "table" => "KTable",
        "header" => "KHeader",
        "footer" => "KFooter",
        "list_item" => "KListItem",
        "image" => "KImage",
        "code_block" => "KCodeBlock",
        _ => "KKeyValue",
    }
}
/// token table shared with the case-file header: texts travel as `(T [i; j; ...])`
fn table() -> Vec<&'static str> {
    let mut t: Vec<&'static str> = vec![" ", ". ", "! ", "? ", "\n", ".", "  ", "\t", "\u{a0}", "Intro", "B 2", "Other", "Nowhere", "Root", ": ", " | "];
    t.extend(VOCAB.iter().copied());
    t.extend(["one", "two", "Uno", "dos", "tres", "Cuatro", "cinco", "Seis", "siete", "ocho", "nueve", "free", "text", "item"]);
    t
}
fn coq_text(s: &str) -> String {
    let tbl = table();
    let cs: Vec<char> = s.chars().collect();
    let mut i = 0;
    let mut toks: Vec<u32> = vec![];
    let mut back = String::new();
    while i < cs.len() {
        let mut best: Option<(usize, usize)> = None;
        for (k, w) in tbl.iter().enumerate() {
            let wc: Vec<char> = w.chars().collect();
            if wc.len() >= 2 && i + wc.len() <= cs.len() && cs[i..i + wc.len()] == wc[..] && best.map_or(true, |b| wc.len() > b.1) {
                best = Some((k, wc.len()));
            }
        }
        match best {
            Some((k, l)) => {
                toks.push(k as u32);
                back.push_str(tbl[k]);
                i += l;
            }
            None => {
                toks.push(1000 + cs[i] as u32);
                back.push(cs[i]);
                i += 1;
            }
        }
    }
    assert_eq!(back, s, "token transport must be lossless");
    format!("(T {})", coq_list(toks.iter().map(|t| t.to_string())))
}
fn header() -> String {
    let raw = |s: &str| coq_list(s.chars().map(|c| (c as u32).to_string()));
    format!(
        "From OxVerif Require Import Base.Util C14.Model.\nOpen Scope N_scope.\nDefinition tbl : list text := {}.\nDefinition T := detok tbl.",
        coq_list(table().iter().map(|w| raw(w)))
    )
}
fn spec_coq(e: &Spec) -> String {
    let body = match &e.body {
        Body::Text(t) => format!("(PText {})", coq_text(t)),
        Body::Table(rows) => format!("(PTable {})", coq_list(rows.iter().map(|r| coq_list(r.iter().map(|c| coq_text(c)))))),
        Body::Image(a) => format!("(PImage {})", coq_opt(a.as_ref().map(|t| coq_text(t)))),
        Body::Kv(k, v) => format!("(PKV {} {})", coq_text(k), coq_text(v)),
    };
    format!(
        "(E {} {} {} {} {})",
        coq_kind(e.kind),
        body,
        coq_opt(e.parent.as_ref().map(|t| coq_text(t))),
        coq_list(e.hpath.iter().map(|t| coq_text(t))),
        e.page
    )
}
fn spec_json(e: &Spec) -> Value {
    let b = match &e.body {
        Body::Text(t) => json!({"t": t}),
        Body::Table(r) => json!({"rows": r}),
        Body::Image(a) => json!({"alt": a}),
        Body::Kv(k, v) => json!({"k": k, "v": v}),
    };
    json!({"kind": e.kind, "body": b, "parent": e.parent, "hpath": e.hpath, "page": e.page})
}
fn spec_from(v: &Value) -> Spec {
    let b = &v["body"];
    let s = |x: &Value| x.as_str().unwrap_or("").to_string();
    let body = if let Some(t) = b.get("t") {
        Body::Text(s(t))
    } else if let Some(r) = b.get("rows") {
        Body::Table(r.as_array().unwrap().iter().map(|row| row.as_array().unwrap().iter().map(s).collect()).collect())
    } else if b.get("k").is_some() {
        Body::Kv(s(&b["k"]), s(&b["v"]))
    } else {
        Body::Image(b.get("alt").and_then(|a| a.as_str()).map(|x| x.to_string()))
    };
    Spec {
        kind: kind_static(v["kind"].as_str().unwrap_or("paragraph")),
        body,
        parent: v["parent"].as_str().map(|x| x.to_string()),
        hpath: v["hpath"].as_array().map(|a| a.iter().map(s).collect()).unwrap_or_default(),
        page: v["page"].as_u64().unwrap_or(0) as u32,
    }
}
fn to_element(e: &Spec) -> Element {
    let md = ElementMetadata { page: e.page, parent_heading: e.parent.clone(), heading_path: e.hpath.clone(), ..Default::default() };
    let txt = |b: &Body| match b {
        Body::Text(t) => t.clone(),
        _ => String::new(),
    };
    match (e.kind, &e.body) {
        ("table", Body::Table(r)) => Element::Table(TableElementData::new(r.clone(), md)),
        ("image", Body::Image(a)) => Element::Image(ImageElementData { alt_text: a.clone(), metadata: md }),
        ("key_value", Body::Kv(k, v)) => Element::KeyValue(KeyValueElementData { key: k.clone(), value: v.clone(), metadata: md }),
        ("title", b) => Element::Title(ElementData { text: txt(b), metadata: md }),
        ("header", b) => Element::Header(ElementData { text: txt(b), metadata: md }),
        ("footer", b) => Element::Footer(ElementData { text: txt(b), metadata: md }),
        ("list_item", b) => Element::ListItem(ElementData { text: txt(b), metadata: md }),
        ("code_block", b) => Element::CodeBlock(ElementData { text: txt(b), metadata: md }),
        (_, b) => Element::Paragraph(ElementData { text: txt(b), metadata: md }),
    }
}
fn from_element(e: &Element) -> Spec {
    let md = e.metadata();
    let (kind, body) = match e {
        Element::Title(d) => ("title", Body::Text(d.text.clone())),
        Element::Paragraph(d) => ("paragraph", Body::Text(d.text.clone())),
        Element::Header(d) => ("header", Body::Text(d.text.clone())),
        Element::Footer(d) => ("footer", Body::Text(d.text.clone())),
        Element::ListItem(d) => ("list_item", Body::Text(d.text.clone())),
        Element::CodeBlock(d) => ("code_block", Body::Text(d.text.clone())),
        Element::Table(t) => ("table", Body::Table(t.rows.clone())),
        Element::Image(i) => ("image", Body::Image(i.alt_text.clone())),
        Element::KeyValue(kv) => ("key_value", Body::Kv(kv.key.clone(), kv.value.clone())),
    };
    Spec { kind, body, parent: md.parent_heading.clone(), hpath: md.heading_path.clone(), page: md.page }
}

// ---------------------------------------------------------------- configuration
#[derive(Clone, Debug)]
struct Conf {
    max_tokens: u64,
    merge_adjacent: bool,
    propagate: bool,
    policy_any: bool,
    context: u64, // 0 None, 1 Heading, 2 Contextual(Labeled), 3 Contextual(Prose): never read by the chunker
    overlap: u64,
    counter: u64,
    entry: u64, // 0 chunk, 1 chunk_with_graph(build(elements))
}
fn conf_json(c: &Conf) -> Value {
    json!({"max_tokens": c.max_tokens, "merge_adjacent": c.merge_adjacent, "propagate": c.propagate, "policy_any": c.policy_any,
           "context": c.context, "overlap": c.overlap, "counter": c.counter, "entry": c.entry})
}
fn conf_from(v: &Value) -> Conf {
    Conf {
        max_tokens: v["max_tokens"].as_u64().unwrap_or(5),
        merge_adjacent: v["merge_adjacent"].as_bool().unwrap_or(true),
        propagate: v["propagate"].as_bool().unwrap_or(true),
        policy_any: v["policy_any"].as_bool().unwrap_or(true),
        context: v["context"].as_u64().unwrap_or(1),
        overlap: v["overlap"].as_u64().unwrap_or(0),
        counter: v["counter"].as_u64().unwrap_or(0),
        entry: v["entry"].as_u64().unwrap_or(0),
    }
}
fn lib_config(c: &Conf) -> HybridChunkConfig {
    HybridChunkConfig {
        max_tokens: c.max_tokens as usize,
        overlap_tokens: c.overlap as usize,
        merge_adjacent: c.merge_adjacent,
        propagate_headings: c.propagate,
        merge_policy: if c.policy_any { MergePolicy::AnyInlineContent } else { MergePolicy::SameTypeOnly },
        context_mode: match c.context {
            0 => ContextMode::None,
            1 => ContextMode::Heading,
            2 => ContextMode::Contextual(ContextFormat::Labeled),
            _ => ContextMode::Contextual(ContextFormat::Prose),
        },
    }
}

#[derive(Clone, Debug, PartialEq)]
struct OutChunk {
    elems: Vec<Spec>,
    heading: Option<String>,
    oversized: bool,
    tokens: u64,
}
fn run_impl(c: &Conf, es: &[Spec]) -> Vec<OutChunk> {
    let elements: Vec<Element> = es.iter().map(to_element).collect();
    let chunker = HybridChunker::new(lib_config(c)).with_token_counter(counter(c.counter));
    let chunks: Vec<HybridChunk> = if c.entry == 0 {
        chunker.chunk(&elements)
    } else {
        let g = ElementGraph::build(&elements);
        chunker.chunk_with_graph(&elements, &g)
    };
    chunks
        .iter()
        .map(|h| OutChunk {
            elems: h.elements().iter().map(from_element).collect(),
            heading: h.heading_context.clone(),
            oversized: h.is_oversized(),
            tokens: h.token_estimate() as u64,
        })
        .collect()
}
fn frag_of(src: &Spec, f: &Spec) -> bool {
    f.kind == "paragraph" && matches!(f.body, Body::Text(_)) && f.parent == src.parent && f.hpath == src.hpath && f.page == src.page
}
fn chunk_coq(es: &[Spec], c: &OutChunk) -> String {
    let oe = c.elems.iter().map(|o| {
        if let Some(j) = es.iter().position(|e| e == o) {
            format!("OIn {j}")
        } else if let (Some(j), Body::Text(t)) = (es.iter().position(|e| frag_of(e, o)), &o.body) {
            format!("OFrag {j} {}", coq_text(t))
        } else {
            format!("OEl {}", spec_coq(o))
        }
    });
    format!("({}, {}, {}, {})", coq_list(oe), coq_opt(c.heading.as_ref().map(|t| coq_text(t))), coq_bool(c.oversized), c.tokens)
}

fn emit(out: &mut Out, c: &Conf, es: &[Spec], class: &str) {
    let js = json!({"conf": conf_json(c), "elements": es.iter().map(spec_json).collect::<Vec<_>>()});
    let (c1, es1) = (c.clone(), es.to_vec());
    let r1 = catch(std::panic::AssertUnwindSafe(move || run_impl(&c1, &es1)));
    let (c2, es2) = (c.clone(), es.to_vec());
    let r2 = catch(std::panic::AssertUnwindSafe(move || run_impl(&c2, &es2)));
    let outs = match (r1, r2) {
        (Ok(a), Ok(b)) => {
            if a != b {
                out.impl_failures.push(json!({"what":"two runs on the same input differ (determinism)","case":js}));
                return;
            }
            a
        }
        (Err(m), _) | (_, Err(m)) => {
            out.impl_failures.push(json!({"what":"panic","msg":m,"case":js}));
            return;
        }
    };
    let coq = format!(
        "(Cfg {} {} {} {}, {}, {}, {}, {})",
        c.max_tokens,
        coq_bool(c.merge_adjacent),
        coq_bool(c.propagate),
        if c.policy_any { "AnyInlineContent" } else { "SameTypeOnly" },
        c.counter,
        c.entry,
        coq_list(es.iter().map(spec_coq)),
        coq_list(outs.iter().map(|o| chunk_coq(es, o)))
    );
    let n_out: usize = outs.iter().map(|o| o.elems.len()).sum();
    let nt = outs.len() >= 2 && (outs.iter().any(|o| o.elems.len() >= 2) || n_out > es.len());
    out.push(coq, js, class, nt);
}

// ---------------------------------------------------------------- generators
const VOCAB: [&str; 14] = ["alpha", "be", "gamma", "d", "epsilon", "zeta", "eta", "th", "iota", "kappa", "la\u{e9}", "\u{6f22}\u{5b57}", "x1", "https://e.x/y"];
const SEPS: [&str; 12] = [" ", " ", " ", " ", ". ", "! ", "? ", "\n", ".", "  ", "\t", "\u{a0}"];
fn gen_text(r: &mut Rng, maxw: u64) -> String {
    match r.below(40) {
        0 => return String::new(),
        1 => return "  \n ".into(),
        2 => return ". . .".into(),
        3 => return "\u{3000}x\u{2003}".into(),
        _ => {}
    }
    let n = r.range(1, maxw.max(1));
    let mut s = String::new();
    if r.chance(1, 12) {
        s.push(' ');
    }
    for i in 0..n {
        if i > 0 {
            s.push_str(*r.pick(&SEPS[..]));
        }
        s.push_str(*r.pick(&VOCAB[..]));
    }
    match r.below(8) {
        0 => s.push('.'),
        1 => s.push_str(". "),
        2 => s.push('\n'),
        _ => {}
    }
    s
}
const HEADS: [&str; 5] = ["A", "B", "Intro", "B 2", "A"];
fn gen_elements(r: &mut Rng, n: usize, style: u64) -> Vec<Spec> {
    // style 0: section-consistent (as the partitioner produces); 1: no headings at all; 2: stale/unknown/duplicate mix
    let mut es = Vec::with_capacity(n);
    let mut cur: Option<String> = None;
    let mut seen: Vec<String> = vec![];
    let maxw = *r.pick(&[3u64, 6, 12, 20]);
    for _ in 0..n {
        let kroll = r.below(100);
        let kind = match kroll {
            0..=13 => "title",
            14..=48 => "paragraph",
            49..=60 => "list_item",
            61..=70 => "key_value",
            71..=78 => "table",
            79..=84 => "code_block",
            85..=89 => "image",
            90..=94 => "header",
            _ => "footer",
        };
        let page = r.below(4) as u32;
        if kind == "title" {
            let t = if style == 2 || r.chance(1, 3) { r.pick(&HEADS).to_string() } else { format!("H{}", seen.len()) };
            let parent = match (style, r.below(10)) {
                (1, _) => None,
                (2, 0..=2) => None,
                (2, 3) => Some("Other".to_string()),
                _ => Some(t.clone()),
            };
            cur = Some(t.clone());
            seen.push(t.clone());
            es.push(Spec { kind, body: Body::Text(t.clone()), parent, hpath: vec![t], page });
            continue;
        }
        let parent = match style {
            0 => cur.clone(),
            1 => None,
            _ => match r.below(10) {
                0..=4 => cur.clone(),
                5 => None,
                6 => Some("Nowhere".to_string()),
                7 | 8 if !seen.is_empty() => Some(r.pick(&seen).clone()),
                _ => Some(r.pick(&HEADS).to_string()),
            },
        };
        let hpath = match &parent {
            Some(p) if r.chance(2, 3) => vec![p.clone()],
            Some(p) => vec!["Root".into(), p.clone()],
            None => vec![],
        };
        let body = match kind {
            "table" => {
                let rows = r.below(4) as usize;
                Body::Table((0..rows).map(|_| (0..r.below(4)).map(|_| gen_text(r, 2)).collect()).collect())
            }
            "image" => Body::Image(if r.chance(1, 2) { Some(gen_text(r, 4)) } else { None }),
            "key_value" => Body::Kv(gen_text(r, 2), gen_text(r, maxw)),
            _ => Body::Text(gen_text(r, maxw)),
        };
        es.push(Spec { kind, body, parent, hpath, page });
    }
    es
}
fn gen_conf(r: &mut Rng) -> Conf {
    Conf {
        max_tokens: match r.below(8) {
            0 => 0,
            1 => 1,
            2 => 2,
            3 | 4 => 5,
            5 => 50,
            _ => r.range(3, 20),
        },
        merge_adjacent: !r.chance(1, 5),
        propagate: !r.chance(1, 4),
        policy_any: r.chance(2, 3),
        context: r.below(4),
        overlap: r.below(60),
        counter: r.below(4),
        entry: r.below(2),
    }
}
fn small_alphabet() -> Vec<Spec> {
    let p = |kind: &'static str, t: &str, parent: Option<&str>| Spec {
        kind,
        body: Body::Text(t.into()),
        parent: parent.map(|x| x.to_string()),
        hpath: parent.map(|x| vec![x.to_string()]).unwrap_or_default(),
        page: 0,
    };
    vec![
        p("title", "A", Some("A")),
        p("title", "B", Some("B")),
        p("paragraph", "one two", Some("A")),
        p("paragraph", "Uno dos tres. Cuatro cinco! Seis\nsiete ocho nueve", Some("A")),
        p("paragraph", "free text", None),
        p("list_item", "item x. item y", Some("B")),
        Spec { kind: "table", body: Body::Table(vec![vec!["a".into(), "b c".into()], vec!["d".into()]]), parent: Some("A".into()), hpath: vec![], page: 1 },
        Spec { kind: "key_value", body: Body::Kv("k".into(), "v w".into()), parent: Some("B".into()), hpath: vec![], page: 2 },
    ]
}
fn enumerate(len: usize, alphabet: &[Spec], cur: &mut Vec<Spec>, f: &mut dyn FnMut(&[Spec])) {
    if cur.len() == len {
        f(cur);
        return;
    }
    for e in alphabet {
        cur.push(e.clone());
        enumerate(len, alphabet, cur, f);
        cur.pop();
    }
}

pub fn run(ctx: &Ctx) {
    let header = header();
    let mut out = Out::new(ctx, &header, "case", "case_code");
    out.shard_size = 250;
    if let Some(cases) = ctx.replay_cases() {
        for c in cases {
            if c.get("elements").is_none() {
                continue;
            }
            let es: Vec<Spec> = c["elements"].as_array().unwrap().iter().map(spec_from).collect();
            emit(&mut out, &conf_from(&c["conf"]), &es, "replay");
        }
        out.finish("chunks");
        return;
    }
    // systematic: all sequences over a small element alphabet
    let alpha = small_alphabet();
    let maxlen = if ctx.thorough() { 3 } else { 2 };
    let mut k = 0u64;
    for len in 0..=maxlen {
        let mut cur = vec![];
        enumerate(len, &alpha, &mut cur, &mut |es| {
            for mx in [1u64, 2, 5] {
                for entry in 0..2u64 {
                    k += 1;
                    let c = Conf { max_tokens: mx, merge_adjacent: k % 7 != 0, propagate: k % 5 != 0, policy_any: k % 3 != 0, context: k % 4, overlap: 0, counter: k % 4, entry };
                    emit(&mut out, &c, es, &format!("systematic_len{len}"));
                }
            }
        });
    }
    out.extra.insert("systematic_upto_len".into(), json!(maxlen));
    // random
    let mut r = Rng::new(ctx.seed ^ 0xC14);
    let nrand = if ctx.thorough() { 8000 } else { 1100 };
    for i in 0..nrand {
        let style = r.below(3);
        let n = match i % 10 {
            0 => r.range(0, 2),
            1..=7 => r.range(3, 14),
            _ => r.range(15, 40),
        } as usize;
        let es = gen_elements(&mut r, n, style);
        let c = gen_conf(&mut r);
        let cls = format!("random_{}_{}", ["consistent", "noheadings", "stale"][style as usize], if c.entry == 0 { "chunk" } else { "graph" });
        emit(&mut out, &c, &es, &cls);
    }
    out.finish("chunks");
}
