//! C27 — PageLabel / PageLabelTree / PageLabelStyle::format vs the Gallina model and the §12.4.2 spec.
//! Channels: label (range sets x page indices through PageLabelTree::get_label),
//!           fmt   (PageLabelStyle::format on single numbers),
//!           dict  (PageLabelTree::to_dict read by the Table-159 reader of the spec).
use crate::util::*;
use oxidize_pdf::objects::Object;
use oxidize_pdf::page_labels::{PageLabel, PageLabelStyle, PageLabelTree};
use serde_json::{json, Value};

const STYLES: [&str; 6] = ["D", "R", "r", "A", "a", "-"];

fn style_of(s: &str) -> PageLabelStyle {
    match s {
        "D" => PageLabelStyle::DecimalArabic,
        "R" => PageLabelStyle::UppercaseRoman,
        "r" => PageLabelStyle::LowercaseRoman,
        "A" => PageLabelStyle::UppercaseLetters,
        "a" => PageLabelStyle::LowercaseLetters,
        _ => PageLabelStyle::None,
    }
}
fn style_coq(s: &str) -> &'static str {
    match s {
        "D" => "SDecimal",
        "R" => "SUpperRoman",
        "r" => "SLowerRoman",
        "A" => "SUpperLetters",
        "a" => "SLowerLetters",
        _ => "SNone",
    }
}

#[derive(Clone, Debug)]
struct Range {
    page: u32,
    style: String,
    prefix: Option<String>,
    start: u32,
}
impl Range {
    fn label(&self) -> PageLabel {
        let mut l = PageLabel::new(style_of(&self.style));
        if let Some(p) = &self.prefix {
            l = l.with_prefix(p.clone());
        }
        l.starting_at(self.start)
    }
    fn json(&self) -> Value {
        json!({"page": self.page, "style": self.style, "prefix": self.prefix, "start": self.start})
    }
    fn from(v: &Value) -> Range {
        Range {
            page: v["page"].as_u64().unwrap_or(0) as u32,
            style: v["style"].as_str().unwrap_or("D").to_string(),
            prefix: v["prefix"].as_str().map(|s| s.to_string()),
            start: v["start"].as_u64().unwrap_or(1) as u32,
        }
    }
    fn coq(&self) -> String {
        format!(
            "({}, {{| l_style := {}; l_prefix := {}; l_start := {} |}})",
            self.page,
            style_coq(&self.style),
            coq_opt(self.prefix.as_ref().map(|p| coq_bytes(p.as_bytes()))),
            self.start
        )
    }
}

fn build(ranges: &[Range]) -> PageLabelTree {
    let mut t = PageLabelTree::new();
    for r in ranges {
        t.add_range(r.page, r.label());
    }
    t
}

/// the number the label carries (unbounded arithmetic), for class labels / roman size guard
fn number_of(ranges: &[Range], page: u32) -> Option<(String, u64)> {
    let mut best: Option<&Range> = None;
    for r in ranges {
        if r.page <= page && best.map_or(true, |b| b.page <= r.page) {
            best = Some(r);
        }
    }
    best.map(|b| (b.style.clone(), b.start as u64 + (page - b.page) as u64))
}

fn emit_label(out: &mut Out, ranges: &[Range], page: u32, class: &str) {
    let js = json!({"kind": "label", "ranges": ranges.iter().map(|r| r.json()).collect::<Vec<_>>(), "page": page});
    let num = number_of(ranges, page);
    // Roman numerals grow by one letter per thousand: keep them printable
    if let Some((s, n)) = &num {
        if (s == "R" || s == "r") && *n > 3_000_000 {
            return;
        }
    }
    let rs = ranges.to_vec();
    let res = catch(std::panic::AssertUnwindSafe(move || build(&rs).get_label(page)));
    let impl_coq = match res {
        Ok(Some(s)) => format!("RLabel {}", coq_bytes(s.as_bytes())),
        Ok(None) => "RNone".to_string(),
        Err(m) => {
            // a panic is a property failure by itself (the label is not the one of the standard)
            out.impl_failures.push(json!({"what": format!("panic in get_label: {m}"), "msg": m, "case": js}));
            return;
        }
    };
    let coq = format!("({}, {}, {})", coq_list(ranges.iter().map(|r| r.coq())), page, impl_coq);
    let nt = match &num {
        Some((s, n)) => ranges.len() >= 2 && s != "-" && *n >= 4,
        None => false,
    };
    out.push(coq, js, class, nt);
}

fn emit_fmt(out: &mut Out, style: &str, n: u32, class: &str) {
    let js = json!({"kind": "fmt", "style": style, "number": n});
    let st = style_of(style);
    match catch(move || st.format(n)) {
        Ok(s) => {
            let coq = format!("({}, {}, {})", style_coq(style), n, coq_bytes(s.as_bytes()));
            out.push(coq, js, class, n >= 4 && style != "-");
        }
        Err(m) => out.impl_failures.push(json!({"what": format!("panic in format: {m}"), "msg": m, "case": js})),
    }
}

fn emit_dict(out: &mut Out, ranges: &[Range], class: &str) {
    let js = json!({"kind": "dict", "ranges": ranges.iter().map(|r| r.json()).collect::<Vec<_>>()});
    let rs = ranges.to_vec();
    let d = match catch(std::panic::AssertUnwindSafe(move || build(&rs).to_dict())) {
        Ok(d) => d,
        Err(m) => {
            out.impl_failures.push(json!({"what": format!("panic in to_dict: {m}"), "msg": m, "case": js}));
            return;
        }
    };
    let bad = |out: &mut Out, why: &str| {
        out.impl_failures.push(json!({"what": format!("to_dict output is not a /Nums number tree leaf: {why}"), "case": js.clone()}));
    };
    let nums = match d.get("Nums") {
        Some(Object::Array(a)) => a.clone(),
        _ => return bad(out, "no /Nums array"),
    };
    if nums.len() % 2 != 0 {
        return bad(out, "odd /Nums length");
    }
    let mut items = vec![];
    for pair in nums.chunks(2) {
        let k = match &pair[0] {
            Object::Integer(i) => *i,
            _ => return bad(out, "key is not an integer"),
        };
        let ld = match &pair[1] {
            Object::Dictionary(x) => x,
            _ => return bad(out, "value is not a dictionary"),
        };
        // every key of the label dictionary must be one of Table 159's
        for (key, _) in ld.entries() {
            if !["Type", "S", "P", "St"].contains(&key.as_str()) {
                return bad(out, "unknown key in label dictionary");
            }
        }
        match ld.get("Type") {
            None => {}
            Some(Object::Name(n)) if n == "PageLabel" => {}
            _ => return bad(out, "/Type is not /PageLabel"),
        }
        let s = match ld.get("S") {
            None => None,
            Some(Object::Name(n)) => Some(coq_bytes(n.as_bytes())),
            _ => return bad(out, "/S is not a name"),
        };
        let p = match ld.get("P") {
            None => None,
            Some(Object::String(x)) => Some(coq_bytes(x.as_bytes())),
            Some(Object::ByteString(x)) => Some(coq_bytes(x)),
            _ => return bad(out, "/P is not a string"),
        };
        let st = match ld.get("St") {
            None => None,
            Some(Object::Integer(i)) => Some(coq_z(*i as i128)),
            _ => return bad(out, "/St is not an integer"),
        };
        items.push(format!("({}, {{| d_S := {}; d_P := {}; d_St := {} |}})", coq_z(k as i128), coq_opt(s), coq_opt(p), coq_opt(st)));
    }
    let coq = format!("({}, {})", coq_list(ranges.iter().map(|r| r.coq())), coq_list(items));
    out.push(coq, js, class, ranges.len() >= 2);
}

const PREFIXES: [&str; 7] = ["", "A-", "Chapter ", "p. ", "Anexo é ", "§", "x"];

fn random_range(r: &mut Rng, page: u32) -> Range {
    let style = STYLES[r.below(6) as usize].to_string();
    let prefix = match r.below(3) {
        0 => None,
        _ => Some(PREFIXES[r.below(PREFIXES.len() as u64) as usize].to_string()),
    };
    let roman = style == "R" || style == "r";
    let start = match r.below(12) {
        0 => 0,
        1..=4 => 1,
        5 => r.range(2, 30) as u32,
        6 => *r.pick(&[26u32, 27, 28, 52, 53, 702, 703, 18278, 18279]),
        7 => r.range(30, 5000) as u32,
        8 => {
            if roman {
                r.range(3990, 4010) as u32
            } else {
                u32::MAX - r.below(4) as u32
            }
        }
        9 => {
            if roman {
                r.range(1, 100000) as u32
            } else {
                r.range(1 << 31, u32::MAX as u64) as u32
            }
        }
        _ => r.range(1, 1000) as u32,
    };
    Range { page, style, prefix, start }
}

pub fn run(ctx: &Ctx) {
    let header = "From OxVerif Require Import Base.Util C27.Model.";
    let mut lab = Out::new(ctx, header, "label_case", "label_code");
    lab.shard_size = 2500;
    let mut fmt = Out::new(ctx, header, "style * N * bytes", "fmt_code");
    fmt.shard_size = 5000;
    let mut dict = Out::new(ctx, header, "list (N * label) * list (Z * ldict)", "dict_code");
    dict.shard_size = 1500;

    if let Some(cases) = ctx.replay_cases() {
        for c in cases {
            let ranges: Vec<Range> = c["ranges"].as_array().map(|a| a.iter().map(Range::from).collect()).unwrap_or_default();
            match c["kind"].as_str().unwrap_or("label") {
                "fmt" => emit_fmt(&mut fmt, c["style"].as_str().unwrap_or("D"), c["number"].as_u64().unwrap_or(0) as u32, "replay"),
                "dict" => emit_dict(&mut dict, &ranges, "replay"),
                _ => emit_label(&mut lab, &ranges, c["page"].as_u64().unwrap_or(0) as u32, "replay"),
            }
        }
    } else {
        let mut r = Rng::new(ctx.seed);
        // ---- fmt: every number 0..=N for every style, plus boundary and random large numbers
        let upto: u32 = if ctx.thorough() { 20000 } else { 4200 };
        for s in STYLES {
            for n in 0..=upto {
                emit_fmt(&mut fmt, s, n, &format!("fmt_{s}_all_upto"));
            }
            let big: Vec<u32> = vec![18277, 18278, 18279, 475254, 475255, 65535, 65536, 99999, 100000, 1 << 31, u32::MAX - 1, u32::MAX];
            for &n in &big {
                if (s == "R" || s == "r") && n > 3_000_000 {
                    continue;
                }
                emit_fmt(&mut fmt, s, n, &format!("fmt_{s}_boundary"));
            }
            for _ in 0..(if ctx.thorough() { 600 } else { 150 }) {
                let n = if s == "R" || s == "r" { r.range(4000, 400000) as u32 } else { r.next() as u32 };
                emit_fmt(&mut fmt, s, n, &format!("fmt_{s}_random"));
            }
        }
        fmt.extra.insert("all_numbers_upto".into(), json!(upto));

        // ---- label: range sets x page indices
        let nsets = if ctx.thorough() { 2500 } else { 350 };
        for i in 0..nsets {
            let nr = r.range(0, 5) as usize;
            let mut ranges = vec![];
            for _ in 0..nr {
                let page = match r.below(6) {
                    0 => 0,
                    1..=3 => r.range(0, 40) as u32,
                    4 => r.range(0, 1000) as u32,
                    _ => *r.pick(&[25u32, 26, 27, 51, 52, 53, 701, 702, 703, 1 << 20, u32::MAX - 1, u32::MAX]),
                };
                ranges.push(random_range(&mut r, page));
            }
            // insertion order is random, duplicates allowed (later add_range replaces)
            if i % 7 == 0 && !ranges.is_empty() {
                let p = ranges[0].page;
                ranges.push(random_range(&mut r, p));
            }
            let mut pages: Vec<u32> = vec![0, 1, 26, 27, 28, 52, 53, 702, 703];
            for rg in &ranges {
                pages.push(rg.page);
                pages.push(rg.page.saturating_sub(1));
                pages.push(rg.page.saturating_add(1));
                pages.push(rg.page.saturating_add(27));
            }
            for _ in 0..4 {
                pages.push(r.range(0, 1500) as u32);
            }
            pages.push(u32::MAX);
            pages.push(r.next() as u32);
            pages.sort();
            pages.dedup();
            for p in pages {
                let class = match number_of(&ranges, p) {
                    None => "label_none".to_string(),
                    Some((s, n)) => format!(
                        "label_{}_{}",
                        s,
                        if n > u32::MAX as u64 { "over_u32" } else if n >= 703 { "ge703" } else if n >= 28 { "28to702" } else { "lt28" }
                    ),
                };
                emit_label(&mut lab, &ranges, p, &class);
            }
            emit_dict(&mut dict, &ranges, &format!("dict_{}ranges", ranges.len().min(6)));
        }
        // the documented overflow witness, always
        let w = vec![Range { page: 0, style: "D".into(), prefix: None, start: u32::MAX }];
        for p in [0u32, 1, 2, u32::MAX] {
            emit_label(&mut lab, &w, p, "label_D_over_u32");
        }
    }
    lab.finish("label");
    fmt.finish("fmt");
    dict.finish("dict");
}
