//! C27 — PageLabel / PageLabelTree / PageLabelStyle::format vs the Gallina model and the §12.4.2 spec.
//! Channels: label (range sets x page indices through PageLabelTree::get_label),
//!           fmt   (PageLabelStyle::format on single numbers),
//!           dict  (PageLabelTree::to_dict read by the Table-159 reader of the spec).
use crate::util::*;
use oxidize_pdf::objects::Object;
use oxidize_pdf::page_labels::{PageLabel, PageLabelStyle, PageLabelTree};
use serde_json::{json, Value};

const STYLES: [&str; 6] = ["D", "R", "r", "A", "a", "-"];

fn style_of(s: &str) -> PageLabelStyle {
    match s {
        "D" => PageLabelStyle::DecimalArabic,
        "R" => PageLabelStyle::UppercaseRoman,
        "r" => PageLabelStyle::LowercaseRoman,
        "A" => PageLabelStyle::UppercaseLetters,
        "a" => PageLabelStyle::LowercaseLetters,
        _ => PageLabelStyle::None,
    }
}
fn style_coq(s: &str) -> &'static str {
    match s {
        "D" => "SDecimal",
        "R" => "SUpperRoman",
        "r" => "SLowerRoman",
        "A" => "SUpperLetters",
        "a" => "SLowerLetters",
        _ => "SNone",
    }
}

#[derive(Clone, Debug)]
struct Range {
    page: u32,
    style: String,
    prefix: Option<String>,
    start: u32,
}
impl Range {
    fn label(&self) -> PageLabel {
        let mut l = PageLabel::new(style_of(&self.style));
        if let Some(p) = &self.prefix {
            l = l.with_prefix(p.clone());
        }
        l.starting_at(self.start)
    }
    fn json(&self) -> Value {
        json!({"page": self.page, "style": self.style, "prefix": self.prefix, "start": self.start})
    }
    fn from(v: &Value) -> Range {
        Range {
            page: v["page"].as_u64().unwrap_or(0) as u32,
            style: v["style"].as_str().unwrap_or("D").to_string(),
            prefix: v["prefix"].as_str().map(|s| s.to_string()),
            start: v["start"].as_u64().unwrap_or(1) as u32,
        }
    }
    fn coq(&self) -> String {
        format!(
            "({}, {{| l_style := {}; l_prefix := {}; l_start := {} |}})",
            self.page,
            style_coq(&self.style),
            coq_opt(self.prefix.as_ref().map(|p| coq_bytes(p.as_bytes()))),
            self.start
        )
    }
}

fn build(ranges: &[Range]) -> PageLabelTree {
    let mut t = PageLabelTree::new();
    for r in ranges {
        t.add_range(r.page, r.label());
    }
    t
}

/// the number the label carries (unbounded arithmetic), for class labels / roman size guard
fn number_of(ranges: &[Range], page: u32) -> Option<(String, u64)> {
    let mut best: Option<&Range> = None;
    for r in ranges {
        if r.page <= page && best.map_or(true, |b| b.page <= r.page) {
            best = Some(r);
        }
    }
    best.map(|b| (b.style.clone(), b.start as u64 + (page - b.page) as u64))
}

fn emit_label(out: &mut Out, ranges: &[Range], page: u32, class: &str) {
    let js = json!({"kind": "label", "ranges": ranges.iter().map(|r| r.json()).collect::<Vec<_>>(), "page": page});
    let num = number_of(ranges, page);
    // Roman numerals grow by one letter per thousand: keep them printable
    if let Some((s, n)) = &num {
        if (s == "R" || s == "r") && *n > 3_000_000 {
            return;
        }
    }
    let rs = ranges.to_vec();
    let res = catch(std::panic::AssertUnwindSafe(move || build(&rs).get_label(page)));
    let impl_coq = match res {
        Ok(Some(s)) => format!("RLabel {}", coq_bytes(s.as_bytes())),
        Ok(None) => "RNone".to_string(),
        Err(m) => {
            // a panic is a property failure by itself (the label is not the one of the standard)
            out.impl_failures.push(json!({"what": format!("panic in get_label: {m}"), "msg": m, "case": js}));
            return;
        }
    };
    let coq = format!("({}, {}, {})", coq_list(ranges.iter().map(|r| r.coq())), page, impl_coq);
    let nt = match &num {
        Some((s, n)) => ranges.len() >= 2 && s != "-" && *n >= 4,
        None => false,
    };
    out.push(coq, js, class, nt);
}

fn emit_fmt(out: &mut Out, style: &str, n: u32, class: &str) {
    let js = json!({"kind": "fmt", "style": style, "number": n});
    let st = style_of(style);
    match catch(move || st.format(n)) {
        Ok(s) => {
            let coq = format!("({}, {}, {})", style_coq(style), n, coq_bytes(s.as_bytes()));
            out.push(coq, js, class, n >= 4 && style != "-");
        }
        Err(m) => out.impl_failures.push(json!({"what": format!("panic in format: {m}"), "msg": m, "case": js})),
    }
}

fn emit_dict(out: &mut Out, ranges: &[Range], class: &str) {
    let js = json!({"kind": "dict", "ranges": ranges.iter().map(|r| r.json()).collect::<Vec<_>>()});
    let rs = ranges.to_vec();
    let d = match catch(std::panic::AssertUnwindSafe(move || build(&rs).to_dict())) {
        Ok(d) => d,
        Err(m) => {
            out.impl_failures.push(json!({"what": format!("panic in to_dict: {m}"), "msg": m, "case": js}));
            return;
        }
    };
    let bad = |out: &mut Out, why: &str| {
        out.impl_failures.push(json!({"what": format!("to_dict output is not a /Nums number tree leaf: {why}"), "case": js.clone()}));
    };
    let nums = match d.get("Nums") {
        Some(Object::Array(a)) => a.clone(),
        _ => return bad(out, "no /Nums array"),
    };
    if nums.len() % 2 != 0 {
        return bad(out, "odd /Nums length");
    }
    let mut items = vec![];
    for pair in nums.chunks(2) {
        let k = match &pair[0] {
            Object::Integer(i) => *i,
            _ => return bad(out, "key is not an integer"),
        };
        let ld = match &pair[1] {
            Object::Dictionary(x) => x,
            _ => return bad(out, "value is not a dictionary"),
        };
        // every key of the label dictionary must be one of Table 159's
        for (key, _) in ld.entries() {
            if !["Type", "S", "P", "St"].contains(&key.as_str()) {
                return bad(out, "unknown key in label dictionary");
            }
        }
        match ld.get("Type") {
            None => {}
            Some(Object::Name(n)) if n == "PageLabel" => {}
            _ => return bad(out, "/Type is not /PageLabel"),
        }
        let s = match ld.get("S") {
            None => None,
            Some(Object::Name(n)) => Some(coq_bytes(n.as_bytes())),
            _ => return bad(out, "/S is not a name"),
        };
        let p = match ld.get("P") {
            None => None,
            Some(Object::String(x)) => Some(coq_bytes(x.as_bytes())),
            Some(Object::ByteString(x)) => Some(coq_bytes(x)),
            _ => return bad(out, "/P is not a string"),
        };
        let st = match ld.get("St") {
            None => None,
            Some(Object::Integer(i)) => Some(coq_z(*i as i128)),
            _ => return bad(out, "/St is not an integer"),
        };
        items.push(format!("({}, {{| d_S := {}; d_P := {}; d_St := {} |}})", coq_z(k as i128), coq_opt(s), coq_opt(p), coq_opt(st)));
    }
    let coq = format!("({}, {})", coq_list(ranges.iter().map(|r| r.coq())), coq_list(items));
    out.push(coq, js, class, ranges.len() >= 2);
}

// ---------------------------------------------------------------------------------------------
// seq channel: ONE PageLabelTree driven as a state machine
#[derive(Clone, Debug)]
enum SOp {
    Add(Range),
    Get(u32),
    All(u32),
    Dict,
}
fn sop_json(o: &SOp) -> Value {
    match o {
        SOp::Add(r) => json!({"op": "add", "range": r.json()}),
        SOp::Get(p) => json!({"op": "get", "page": p}),
        SOp::All(n) => json!({"op": "all", "n": n}),
        SOp::Dict => json!({"op": "dict"}),
    }
}
fn sop_from(v: &Value) -> SOp {
    match v["op"].as_str().unwrap_or("get") {
        "add" => SOp::Add(Range::from(&v["range"])),
        "all" => SOp::All(v["n"].as_u64().unwrap_or(0) as u32),
        "dict" => SOp::Dict,
        _ => SOp::Get(v["page"].as_u64().unwrap_or(0) as u32),
    }
}
fn sop_coq(o: &SOp) -> String {
    match o {
        SOp::Add(r) => {
            let c = r.coq(); // "(page, {| .. |})"
            let inner = &c[1..c.len() - 1];
            let (k, l) = inner.split_once(", ").unwrap();
            format!("SAdd {} ({})", k, l)
        }
        SOp::Get(p) => format!("SGet {p}"),
        SOp::All(n) => format!("SAll {n}"),
        SOp::Dict => "SDict".into(),
    }
}

/// /Nums of a dictionary as the Coq list (Z * ldict), or Err(why)
fn nums_coq(d: &oxidize_pdf::objects::Dictionary) -> Result<String, String> {
    let nums = match d.get("Nums") {
        Some(Object::Array(a)) => a.clone(),
        _ => return Err("no /Nums array".into()),
    };
    if nums.len() % 2 != 0 {
        return Err("odd /Nums length".into());
    }
    let mut items = vec![];
    for pair in nums.chunks(2) {
        let k = match &pair[0] {
            Object::Integer(i) => *i,
            _ => return Err("key is not an integer".into()),
        };
        let ld = match &pair[1] {
            Object::Dictionary(x) => x,
            _ => return Err("value is not a dictionary".into()),
        };
        for (key, _) in ld.entries() {
            if !["Type", "S", "P", "St"].contains(&key.as_str()) {
                return Err("unknown key in label dictionary".into());
            }
        }
        match ld.get("Type") {
            None => {}
            Some(Object::Name(n)) if n == "PageLabel" => {}
            _ => return Err("/Type is not /PageLabel".into()),
        }
        let s = match ld.get("S") {
            None => None,
            Some(Object::Name(n)) => Some(coq_bytes(n.as_bytes())),
            _ => return Err("/S is not a name".into()),
        };
        let p = match ld.get("P") {
            None => None,
            Some(Object::String(x)) => Some(coq_bytes(x.as_bytes())),
            Some(Object::ByteString(x)) => Some(coq_bytes(x)),
            _ => return Err("/P is not a string".into()),
        };
        let st = match ld.get("St") {
            None => None,
            Some(Object::Integer(i)) => Some(coq_z(*i as i128)),
            _ => return Err("/St is not an integer".into()),
        };
        items.push(format!("({}, {{| d_S := {}; d_P := {}; d_St := {} |}})", coq_z(k as i128), coq_opt(s), coq_opt(p), coq_opt(st)));
    }
    Ok(coq_list(items))
}

fn emit_seq(out: &mut Out, ops: &[SOp], class: &str) {
    let js = json!({"kind": "seq", "ops": ops.iter().map(sop_json).collect::<Vec<_>>()});
    let ops2 = ops.to_vec();
    let res = catch(std::panic::AssertUnwindSafe(move || {
        let mut t = PageLabelTree::new();
        let mut outs: Vec<Result<String, String>> = vec![];
        for o in &ops2 {
            match o {
                SOp::Add(r) => t.add_range(r.page, r.label()),
                SOp::Get(p) => outs.push(Ok(match t.get_label(*p) {
                    Some(s) => format!("SOLabel (RLabel {})", coq_bytes(s.as_bytes())),
                    None => "SOLabel RNone".to_string(),
                })),
                SOp::All(n) => outs.push(Ok(format!(
                    "SOAll {}",
                    coq_list(t.get_all_labels(*n).iter().map(|s| coq_bytes(s.as_bytes())))
                ))),
                SOp::Dict => outs.push(nums_coq(&t.to_dict()).map(|s| format!("SODict {s}"))),
            }
        }
        outs
    }));
    let outs = match res {
        Ok(o) => o,
        Err(m) => {
            out.impl_failures.push(json!({"what": format!("panic in an operation sequence: {m}"), "msg": m, "case": js}));
            return;
        }
    };
    let mut coq_outs = vec![];
    for o in outs {
        match o {
            Ok(s) => coq_outs.push(s),
            Err(why) => {
                out.impl_failures.push(json!({"what": format!("to_dict output is not a /Nums number tree leaf: {why}"), "case": js}));
                return;
            }
        }
    }
    let coq = format!("({}, {})", coq_list(ops.iter().map(sop_coq)), coq_list(coq_outs));
    // non-trivial: a lookup follows an add_range that follows a lookup (the state is exercised)
    let mut stage = 0;
    for o in ops {
        stage = match (stage, o) {
            (0, SOp::Add(_)) => 1,
            (1, SOp::Get(_)) | (1, SOp::All(_)) => 2,
            (2, SOp::Add(_)) => 3,
            (3, SOp::Get(_)) | (3, SOp::All(_)) => 4,
            (s, _) => s,
        };
    }
    out.push(coq, js, class, stage == 4);
}

fn enumerate_seq(len: usize, alphabet: &[SOp], cur: &mut Vec<SOp>, f: &mut dyn FnMut(&[SOp])) {
    if cur.len() == len {
        f(cur);
        return;
    }
    for o in alphabet {
        cur.push(o.clone());
        enumerate_seq(len, alphabet, cur, f);
        cur.pop();
    }
}

fn small_range(r: &mut Rng, page: u32) -> Range {
    let style = STYLES[r.below(6) as usize].to_string();
    let prefix = match r.below(3) {
        0 => None,
        _ => Some(PREFIXES[r.below(PREFIXES.len() as u64) as usize].to_string()),
    };
    let start = match r.below(6) {
        0 => r.range(2, 20) as u32,
        1 => 0,
        _ => 1,
    };
    Range { page, style, prefix, start }
}

/// starts of the ranges currently in the tree (as the harness knows them), sorted
fn starts_of(ops: &[SOp]) -> Vec<u32> {
    let mut v: Vec<u32> = ops.iter().filter_map(|o| if let SOp::Add(r) = o { Some(r.page) } else { None }).collect();
    v.sort();
    v.dedup();
    v
}

fn random_seq(r: &mut Rng, len: usize) -> Vec<SOp> {
    let mut ops: Vec<SOp> = vec![];
    let mut last_get: Option<u32> = None;
    for _ in 0..len {
        let starts = starts_of(&ops);
        let near = |r: &mut Rng| -> u32 {
            if starts.is_empty() {
                return r.range(0, 12) as u32;
            }
            let s = *r.pick(&starts);
            match r.below(6) {
                0 => s,
                1 => s.saturating_sub(1), // the LAST page of the neighbouring range below
                2 => s.saturating_add(1),
                3 => s.saturating_add(r.range(2, 6) as u32),
                4 => r.range(0, 40) as u32,
                _ => s.saturating_sub(r.range(2, 4) as u32),
            }
        };
        let o = match r.below(100) {
            0..=34 => {
                // add: near an existing boundary, or right at/around the page looked up last
                let page = match (last_get, r.below(3)) {
                    (Some(p), 0) => p,
                    (Some(p), 1) => {
                        // the last page of the range that answered the previous lookup
                        starts.iter().find(|&&s| s > p).map_or(p.saturating_add(1), |&s| s - 1)
                    }
                    _ => near(r),
                };
                SOp::Add(small_range(r, page))
            }
            35..=84 => {
                let p = match (last_get, r.below(4)) {
                    (Some(p), 0) => p,
                    (Some(p), 1) => p.saturating_add(1),
                    _ => near(r),
                };
                last_get = Some(p);
                SOp::Get(p)
            }
            85..=91 => SOp::All(r.range(0, 24) as u32),
            _ => SOp::Dict,
        };
        if let SOp::Add(_) = &o {
            // the page of the add becomes the most likely next lookup
            if let SOp::Add(rg) = &o {
                if r.chance(2, 3) {
                    ops.push(o.clone());
                    let p = rg.page;
                    last_get = Some(p);
                    ops.push(SOp::Get(p));
                    continue;
                }
            }
        }
        ops.push(o);
    }
    ops
}

const PREFIXES: [&str; 7] = ["", "A-", "Chapter ", "p. ", "Anexo é ", "§", "x"];

fn random_range(r: &mut Rng, page: u32) -> Range {
    let style = STYLES[r.below(6) as usize].to_string();
    let prefix = match r.below(3) {
        0 => None,
        _ => Some(PREFIXES[r.below(PREFIXES.len() as u64) as usize].to_string()),
    };
    let roman = style == "R" || style == "r";
    let start = match r.below(12) {
        0 => 0,
        1..=4 => 1,
        5 => r.range(2, 30) as u32,
        6 => *r.pick(&[26u32, 27, 28, 52, 53, 702, 703, 18278, 18279]),
        7 => r.range(30, 5000) as u32,
        8 => {
            if roman {
                r.range(3990, 4010) as u32
            } else {
                u32::MAX - r.below(4) as u32
            }
        }
        9 => {
            if roman {
                r.range(1, 100000) as u32
            } else {
                r.range(1 << 31, u32::MAX as u64) as u32
            }
        }
        _ => r.range(1, 1000) as u32,
    };
    Range { page, style, prefix, start }
}

pub fn run(ctx: &Ctx) {
    let header = "From OxVerif Require Import Base.Util C27.Model.";
    let mut lab = Out::new(ctx, header, "label_case", "label_code");
    lab.shard_size = 2500;
    let mut fmt = Out::new(ctx, header, "style * N * bytes", "fmt_code");
    fmt.shard_size = 5000;
    let mut dict = Out::new(ctx, header, "list (N * label) * list (Z * ldict)", "dict_code");
    dict.shard_size = 1500;
    let mut sq = Out::new(ctx, header, "list sop * list sout", "seq_code");
    sq.shard_size = 1500;

    if let Some(cases) = ctx.replay_cases() {
        for c in cases {
            let ranges: Vec<Range> = c["ranges"].as_array().map(|a| a.iter().map(Range::from).collect()).unwrap_or_default();
            match c["kind"].as_str().unwrap_or("label") {
                "seq" => {
                    let ops: Vec<SOp> = c["ops"].as_array().map(|a| a.iter().map(sop_from).collect()).unwrap_or_default();
                    emit_seq(&mut sq, &ops, "replay")
                }
                "fmt" => emit_fmt(&mut fmt, c["style"].as_str().unwrap_or("D"), c["number"].as_u64().unwrap_or(0) as u32, "replay"),
                "dict" => emit_dict(&mut dict, &ranges, "replay"),
                _ => emit_label(&mut lab, &ranges, c["page"].as_u64().unwrap_or(0) as u32, "replay"),
            }
        }
    } else {
        let mut r = Rng::new(ctx.seed);
        // ---- fmt: every number 0..=N for every style, plus boundary and random large numbers
        let upto: u32 = if ctx.thorough() { 20000 } else { 4200 };
        for s in STYLES {
            for n in 0..=upto {
                emit_fmt(&mut fmt, s, n, &format!("fmt_{s}_all_upto"));
            }
            let big: Vec<u32> = vec![18277, 18278, 18279, 475254, 475255, 65535, 65536, 99999, 100000, 1 << 31, u32::MAX - 1, u32::MAX];
            for &n in &big {
                if (s == "R" || s == "r") && n > 3_000_000 {
                    continue;
                }
                emit_fmt(&mut fmt, s, n, &format!("fmt_{s}_boundary"));
            }
            for _ in 0..(if ctx.thorough() { 600 } else { 150 }) {
                let n = if s == "R" || s == "r" { r.range(4000, 400000) as u32 } else { r.next() as u32 };
                emit_fmt(&mut fmt, s, n, &format!("fmt_{s}_random"));
            }
        }
        fmt.extra.insert("all_numbers_upto".into(), json!(upto));

        // ---- label: range sets x page indices
        let nsets = if ctx.thorough() { 2500 } else { 350 };
        for i in 0..nsets {
            let nr = r.range(0, 5) as usize;
            let mut ranges = vec![];
            for _ in 0..nr {
                let page = match r.below(6) {
                    0 => 0,
                    1..=3 => r.range(0, 40) as u32,
                    4 => r.range(0, 1000) as u32,
                    _ => *r.pick(&[25u32, 26, 27, 51, 52, 53, 701, 702, 703, 1 << 20, u32::MAX - 1, u32::MAX]),
                };
                ranges.push(random_range(&mut r, page));
            }
            // insertion order is random, duplicates allowed (later add_range replaces)
            if i % 7 == 0 && !ranges.is_empty() {
                let p = ranges[0].page;
                ranges.push(random_range(&mut r, p));
            }
            let mut pages: Vec<u32> = vec![0, 1, 26, 27, 28, 52, 53, 702, 703];
            for rg in &ranges {
                pages.push(rg.page);
                pages.push(rg.page.saturating_sub(1));
                pages.push(rg.page.saturating_add(1));
                pages.push(rg.page.saturating_add(27));
            }
            for _ in 0..4 {
                pages.push(r.range(0, 1500) as u32);
            }
            pages.push(u32::MAX);
            pages.push(r.next() as u32);
            pages.sort();
            pages.dedup();
            for p in pages {
                let class = match number_of(&ranges, p) {
                    None => "label_none".to_string(),
                    Some((s, n)) => format!(
                        "label_{}_{}",
                        s,
                        if n > u32::MAX as u64 { "over_u32" } else if n >= 703 { "ge703" } else if n >= 28 { "28to702" } else { "lt28" }
                    ),
                };
                emit_label(&mut lab, &ranges, p, &class);
            }
            emit_dict(&mut dict, &ranges, &format!("dict_{}ranges", ranges.len().min(6)));
        }
        // ---- dict: neighbouring ranges with IDENTICAL style/prefix/start (a writer must not merge them
        //      unless no label changes), and style None repeats (where merging changes nothing)
        for i in 0..(if ctx.thorough() { 400 } else { 80 }) {
            let base = random_range(&mut r, 0);
            let mut ranges = vec![];
            let mut page = if i % 3 == 0 { 0 } else { r.range(0, 5) as u32 };
            let n = r.range(2, 4);
            for j in 0..n {
                let mut rg = if j > 0 && r.chance(1, 4) { random_range(&mut r, page) } else { base.clone() };
                rg.page = page;
                ranges.push(rg);
                page += r.range(1, 6) as u32;
            }
            emit_dict(&mut dict, &ranges, "dict_repeated_definition");
            let mut ops: Vec<SOp> = ranges.iter().cloned().map(SOp::Add).collect();
            ops.push(SOp::Dict);
            ops.push(SOp::All(page + 2));
            emit_seq(&mut sq, &ops, "seq_repeated_definition");
        }

        // ---- seq: small-scope exhaustive interleavings after two preludes, then random sequences
        let mk = |page: u32, style: &str, prefix: Option<&str>| Range { page, style: style.into(), prefix: prefix.map(|s| s.to_string()), start: 1 };
        let alphabet: Vec<SOp> = vec![
            SOp::Add(mk(0, "r", None)),
            SOp::Add(mk(4, "D", None)),
            SOp::Add(mk(9, "A", Some("App-"))),
            SOp::Add(mk(10, "D", None)),
            SOp::Add(mk(9, "D", None)),
            SOp::Add(mk(10, "a", Some("x"))),
            SOp::Get(0),
            SOp::Get(4),
            SOp::Get(8),
            SOp::Get(9),
            SOp::Get(10),
            SOp::Get(11),
            SOp::Dict,
        ];
        let preludes: Vec<Vec<SOp>> = vec![vec![], vec![SOp::Add(mk(0, "r", None)), SOp::Add(mk(10, "D", None))], vec![SOp::Add(mk(4, "R", Some("p.")))]];
        let maxlen = if ctx.thorough() { 4 } else { 3 };
        for pre in &preludes {
            for len in 1..=maxlen {
                let mut cur = vec![];
                enumerate_seq(len, &alphabet, &mut cur, &mut |ops| {
                    let mut all = pre.clone();
                    all.extend_from_slice(ops);
                    // only histories that end in an observation say something new
                    if !matches!(all.last(), Some(SOp::Add(_))) {
                        emit_seq(&mut sq, &all, &format!("seq_exhaustive_len{len}"));
                    }
                });
            }
        }
        sq.extra.insert("exhaustive_alphabet".into(), json!(alphabet.len()));
        sq.extra.insert("exhaustive_upto_len".into(), json!(maxlen));
        let nseq = if ctx.thorough() { 3000 } else { 600 };
        for i in 0..nseq {
            let len = if i % 8 == 0 { r.range(25, 60) } else { r.range(4, 20) } as usize;
            let ops = random_seq(&mut r, len);
            emit_seq(&mut sq, &ops, "seq_random");
        }

        // the documented overflow witness, always
        let w = vec![Range { page: 0, style: "D".into(), prefix: None, start: u32::MAX }];
        for p in [0u32, 1, 2, u32::MAX] {
            emit_label(&mut lab, &w, p, "label_D_over_u32");
        }
    }
    lab.finish("label");
    fmt.finish("fmt");
    dict.finish("dict");
    sq.finish("seq");
}
