//! C22 — BatchProcessor::execute under controlled schedules (threads parked at the
//! cfg(oxidizepdf_verif) `sched_point` hooks and released one at a time) and free-running with
//! seeded yields.  The harness only GENERATES schedules (it keeps three counters to know
//! which parked thread may be released); the recorded trace and the observed summary are
//! judged by the Gallina model/spec in Coq (Model.ctl_code / Model.free_code).
use crate::util::*;
use oxidize_pdf::batch::worker::verif_sched;
use oxidize_pdf::batch::{BatchJob, BatchOptions, BatchProcessor, JobResult};
use oxidize_pdf::error::PdfError;
use serde_json::{json, Value};
use std::cell::Cell;
use std::collections::{BTreeMap, BTreeSet};
use std::sync::atomic::{AtomicBool, AtomicU64, Ordering};
use std::sync::{mpsc, Arc, Condvar, Mutex};
use std::time::{Duration, Instant};

thread_local! { static WID: Cell<usize> = Cell::new(usize::MAX); }

#[derive(Clone, Copy, Debug, PartialEq, Eq, PartialOrd, Ord)]
enum Tid {
    Disp,
    Worker(usize),
    Coll,
}

#[derive(Clone, Debug)]
enum Ev {
    DCheck(usize),
    DCancel(usize),
    DEnq(usize),
    DClose,
    Recv(usize),
    Start(usize, usize),
    Check(usize, usize),
    Cancelled(usize, usize),
    Flag(usize, usize),
    Done(usize, usize),
    Fail(usize, usize),
    Store(usize),
    Cancel,
    Other,
}
impl Ev {
    fn coq(&self) -> String {
        match self {
            Ev::DCheck(i) => format!("XDCheck {i}"),
            Ev::DCancel(i) => format!("XDCancel {i}"),
            Ev::DEnq(i) => format!("XDEnq {i}"),
            Ev::DClose => "XDClose".into(),
            Ev::Recv(w) => format!("XRecv {w}"),
            Ev::Start(w, i) => format!("XStart {w} {i}"),
            Ev::Check(w, i) => format!("XCheck {w} {i}"),
            Ev::Cancelled(w, i) => format!("XCancelled {w} {i}"),
            Ev::Flag(w, i) => format!("XFlag {w} {i}"),
            Ev::Done(w, i) => format!("XDone {w} {i}"),
            Ev::Fail(w, i) => format!("XFail {w} {i}"),
            Ev::Store(i) => format!("XStore {i}"),
            Ev::Cancel | Ev::Other => "XCancel".into(),
        }
    }
}
fn tid_of(label: &str, arg: usize) -> Tid {
    if label.starts_with("d_") {
        Tid::Disp
    } else if label == "c_store" {
        Tid::Coll
    } else if label == "w_recv" || label == "w_exit" {
        WID.with(|c| c.set(arg));
        Tid::Worker(arg)
    } else {
        Tid::Worker(WID.with(|c| c.get()))
    }
}
fn ev_of(tid: Tid, label: &str, arg: usize) -> Ev {
    let w = match tid {
        Tid::Worker(w) => w,
        _ => 0,
    };
    match label {
        "d_check" => Ev::DCheck(arg),
        "d_cancel" => Ev::DCancel(arg),
        "d_enq" => Ev::DEnq(arg),
        "d_close" => Ev::DClose,
        "w_recv" => Ev::Recv(arg),
        "j_start" => Ev::Start(w, arg),
        "j_check" => Ev::Check(w, arg),
        "j_cancelled" => Ev::Cancelled(w, arg),
        "j_flag" => Ev::Flag(w, arg),
        "j_done" => Ev::Done(w, arg),
        "j_fail" => Ev::Fail(w, arg),
        "c_store" => Ev::Store(arg),
        _ => Ev::Other,
    }
}

#[derive(Debug)]
struct TypedPanic(u32);

#[derive(Clone, Debug)]
struct Case {
    mode: String, // "ctl" | "free"
    n: usize,
    outs: Vec<u8>,  // 0 ok, 1 err, 2 panic
    kinds: Vec<u8>, // 0 custom, 1 non-custom (Compress = fs::copy)
    soe: bool,
    k: usize,
    sseed: u64,
    bias: u64,           // 0 uniform, 1 dispatcher first, 2 workers first, 3 collector last
    cancel: Option<u64>, // ctl: before released step number; free: delay in microseconds
}
impl Case {
    fn json(&self) -> Value {
        json!({"mode":self.mode,"n":self.n,"outs":self.outs,"kinds":self.kinds,"soe":self.soe,"k":self.k,
               "sseed":self.sseed,"bias":self.bias,"cancel":self.cancel})
    }
    fn from(v: &Value) -> Option<Case> {
        Some(Case {
            mode: v.get("mode")?.as_str()?.to_string(),
            n: v["n"].as_u64()? as usize,
            outs: v["outs"].as_array()?.iter().map(|x| x.as_u64().unwrap() as u8).collect(),
            kinds: v["kinds"].as_array()?.iter().map(|x| x.as_u64().unwrap() as u8).collect(),
            soe: v["soe"].as_bool()?,
            k: v["k"].as_u64()? as usize,
            sseed: v["sseed"].as_u64()?,
            bias: v["bias"].as_u64().unwrap_or(0),
            cancel: v["cancel"].as_u64(),
        })
    }
}

#[derive(Default, Debug)]
struct Obs {
    results: Vec<(usize, u8)>, // (job id parsed from the name, 0 success 1 failed 2 cancelled)
    total: usize,
    succ: usize,
    fail: usize,
    completed: usize,
    failed: usize,
    running: usize,
    ran: Vec<usize>,
    returned: bool,
}

struct St {
    free_all: bool,
    parked: BTreeMap<Tid, (String, usize)>,
    release: Option<Tid>,
    exited: BTreeSet<usize>,
    joining: bool,
    log: Vec<Ev>,
}
struct Shared {
    st: Mutex<St>,
    cv: Condvar,
}

fn tmpdir() -> std::path::PathBuf {
    let d = std::env::temp_dir().join(format!("oxh_c22_{}", std::process::id()));
    let _ = std::fs::create_dir_all(&d);
    let src = d.join("src.bin");
    if !src.exists() {
        let _ = std::fs::write(&src, b"x");
    }
    d
}

static CASE_NO: AtomicU64 = AtomicU64::new(0);

fn job_id(name: &str) -> usize {
    if let Some(r) = name.strip_prefix('j') {
        if let Ok(i) = r.parse() {
            return i;
        }
    }
    if let Some(p) = name.find("quality: ") {
        let r: String = name[p + 9..].chars().take_while(|c| c.is_ascii_digit()).collect();
        if let Ok(i) = r.parse() {
            return i;
        }
    }
    9999
}

/// builds the processor; returns it with the run log and the list of (job, output path) of non-custom jobs
fn build(case: &Case, free: bool) -> (BatchProcessor, Arc<Mutex<Vec<usize>>>, Vec<(usize, std::path::PathBuf)>) {
    let opts = BatchOptions::default().with_parallelism(case.k).stop_on_error(case.soe);
    let mut p = BatchProcessor::new(opts);
    let ran = Arc::new(Mutex::new(Vec::new()));
    let d = tmpdir();
    let cno = CASE_NO.fetch_add(1, Ordering::SeqCst);
    let mut outs = vec![];
    for i in 0..case.n {
        let o = case.outs[i];
        if case.kinds[i] == 1 && o != 2 {
            let input = if o == 0 { d.join("src.bin") } else { d.join(format!("missing_{i}.bin")) };
            let output = d.join(format!("out_{cno}_{i}.bin"));
            let _ = std::fs::remove_file(&output);
            outs.push((i, output.clone()));
            p.add_job(BatchJob::Compress { input, output, quality: i as u8 });
        } else {
            let ran2 = Arc::clone(&ran);
            let spin = if free { (case.sseed.wrapping_mul(31).wrapping_add(i as u64 * 7)) % 4 } else { 0 };
            // "panic" covers every unwinding payload: half of the panicking jobs unwind with a typed
            // payload (panic_any), not a string (seeded change C22/2 let those escape the containment)
            let typed_payload = (case.sseed.wrapping_add(i as u64)) % 2 == 1;
            p.add_job(BatchJob::Custom {
                name: format!("j{i}"),
                operation: Box::new(move || {
                    ran2.lock().unwrap().push(i);
                    for _ in 0..spin {
                        std::thread::yield_now();
                    }
                    match o {
                        0 => Ok(()),
                        1 => Err(PdfError::InvalidOperation(format!("job {i} fails"))),
                        _ if typed_payload => std::panic::panic_any(TypedPanic(i as u32)),
                        _ => panic!("job {i} panics"),
                    }
                }),
            });
        }
    }
    (p, ran, outs)
}

fn observe(
    res: Option<Result<oxidize_pdf::error::Result<oxidize_pdf::batch::BatchSummary>, String>>,
    prog: &oxidize_pdf::batch::BatchProgress,
    ran: &Mutex<Vec<usize>>,
    case: &Case,
    files: &[(usize, std::path::PathBuf)],
) -> Obs {
    let mut o = Obs::default();
    if let Some(Ok(Ok(s))) = res {
        o.returned = true;
        o.total = s.total_jobs;
        o.succ = s.successful;
        o.fail = s.failed;
        for r in &s.results {
            let kind = match r {
                JobResult::Success { .. } => 0,
                JobResult::Failed { .. } => 1,
                JobResult::Cancelled { .. } => 2,
            };
            o.results.push((job_id(r.job_name()), kind));
        }
    }
    let info = prog.get_info();
    o.completed = info.completed_jobs;
    o.failed = info.failed_jobs;
    o.running = info.running_jobs;
    o.ran = ran.lock().map(|g| g.clone()).unwrap_or_default();
    // non-custom jobs: the copy happened iff the output exists (ok input); for a missing
    // input the only trace of the attempt is the Failed result
    for (i, path) in files {
        let ran_it = if case.outs[*i] == 0 { path.exists() } else { o.results.iter().any(|(j, k)| j == i && *k == 1) };
        if ran_it {
            o.ran.push(*i);
        }
        let _ = std::fs::remove_file(path);
    }
    o
}

fn run_ctl(case: &Case) -> (Vec<Ev>, Obs, bool) {
    let (p, ran, files) = build(case, false);
    let cancel = p.verif_cancel_handle();
    let prog = p.verif_progress_handle();
    let sh = Arc::new(Shared {
        st: Mutex::new(St { free_all: false, parked: BTreeMap::new(), release: None, exited: BTreeSet::new(), joining: false, log: vec![] }),
        cv: Condvar::new(),
    });
    let sh2 = Arc::clone(&sh);
    verif_sched::install(Some(Arc::new(move |label: &str, arg: usize| {
        let tid = tid_of(label, arg);
        let mut st = sh2.st.lock().unwrap_or_else(|e| e.into_inner());
        if st.free_all {
            return;
        }
        match label {
            "w_exit" => {
                st.exited.insert(arg);
                sh2.cv.notify_all();
                return;
            }
            "d_joining" => {
                st.joining = true;
                sh2.cv.notify_all();
                return;
            }
            _ => {}
        }
        st.parked.insert(tid, (label.to_string(), arg));
        sh2.cv.notify_all();
        loop {
            if st.free_all {
                break;
            }
            if st.release == Some(tid) {
                st.release = None;
                break;
            }
            st = sh2.cv.wait(st).unwrap_or_else(|e| e.into_inner());
        }
        st.parked.remove(&tid);
        sh2.cv.notify_all();
    })));
    let (tx, rx) = mpsc::channel();
    std::thread::spawn(move || {
        let r = catch(std::panic::AssertUnwindSafe(move || p.execute()));
        let _ = tx.send(r);
    });
    let mut rng = Rng::new(case.sseed);
    let (mut queue_len, mut closed, mut inflight) = (0usize, false, 0usize);
    let mut trace: Vec<Ev> = vec![];
    let mut diverged = false;
    let mut steps: u64 = 0;
    let mut cancel_at = case.cancel;
    loop {
        let deadline = Instant::now() + Duration::from_millis(2500);
        let mut st = sh.st.lock().unwrap_or_else(|e| e.into_inner());
        loop {
            let ok = st.release.is_none()
                && (st.joining || st.parked.contains_key(&Tid::Disp))
                && (0..case.k).all(|w| st.exited.contains(&w) || st.parked.contains_key(&Tid::Worker(w)))
                && (inflight == 0 || st.parked.contains_key(&Tid::Coll));
            if ok {
                break;
            }
            let now = Instant::now();
            if now >= deadline {
                diverged = true;
                break;
            }
            let (g, _) = sh.cv.wait_timeout(st, deadline - now).unwrap_or_else(|e| e.into_inner());
            st = g;
        }
        if diverged {
            st.free_all = true;
            sh.cv.notify_all();
            break;
        }
        if cancel_at == Some(steps) {
            cancel.store(true, Ordering::SeqCst);
            trace.push(Ev::Cancel);
            cancel_at = None;
            continue;
        }
        let en: Vec<Tid> = st
            .parked
            .iter()
            .filter(|(_, (l, _))| !(l == "w_recv" && queue_len == 0 && !closed))
            .map(|(t, _)| *t)
            .collect();
        if en.is_empty() {
            break;
        }
        let pref: Vec<Tid> = match case.bias {
            1 => en.iter().copied().filter(|t| *t == Tid::Disp).collect(),
            2 => en.iter().copied().filter(|t| matches!(t, Tid::Worker(_))).collect(),
            3 => en.iter().copied().filter(|t| *t != Tid::Coll).collect(),
            _ => vec![],
        };
        let pick = if !pref.is_empty() && rng.chance(4, 5) { *rng.pick(&pref) } else { *rng.pick(&en) };
        let (l, a) = st.parked.remove(&pick).unwrap();
        trace.push(ev_of(pick, &l, a));
        match l.as_str() {
            "d_enq" => queue_len += 1,
            "d_close" => closed = true,
            "d_cancel" | "j_cancelled" | "j_done" | "j_fail" => inflight += 1,
            "c_store" => inflight = inflight.saturating_sub(1),
            "w_recv" => queue_len = queue_len.saturating_sub(1),
            _ => {}
        }
        st.release = Some(pick);
        sh.cv.notify_all();
        drop(st);
        steps += 1;
    }
    let res = rx.recv_timeout(Duration::from_secs(10)).ok();
    verif_sched::install(None);
    let obs = observe(res, &prog, &ran, case, &files);
    (trace, obs, diverged)
}

fn run_free(case: &Case) -> (Vec<Ev>, Obs) {
    let (p, ran, files) = build(case, true);
    let cancel = p.verif_cancel_handle();
    let prog = p.verif_progress_handle();
    let log: Arc<Mutex<Vec<Ev>>> = Arc::new(Mutex::new(vec![]));
    let log2 = Arc::clone(&log);
    let seed = case.sseed;
    verif_sched::install(Some(Arc::new(move |label: &str, arg: usize| {
        let tid = tid_of(label, arg);
        if label == "w_exit" || label == "d_joining" {
            return;
        }
        let pos = {
            let mut g = log2.lock().unwrap_or_else(|e| e.into_inner());
            g.push(ev_of(tid, label, arg));
            g.len() as u64
        };
        // seeded perturbation after the arrival has been logged
        let mut h = Rng::new(seed ^ pos.wrapping_mul(0x9E37_79B9) ^ (arg as u64) << 20 ^ label.len() as u64);
        match h.below(8) {
            0 | 1 => std::thread::yield_now(),
            2 => std::thread::sleep(Duration::from_micros(h.below(150))),
            _ => {}
        }
    })));
    let canceller = case.cancel.map(|us| {
        let log3 = Arc::clone(&log);
        std::thread::spawn(move || {
            std::thread::sleep(Duration::from_micros(us));
            cancel.store(true, Ordering::SeqCst);
            log3.lock().unwrap_or_else(|e| e.into_inner()).push(Ev::Cancel);
        })
    });
    let (tx, rx) = mpsc::channel();
    std::thread::spawn(move || {
        let r = catch(std::panic::AssertUnwindSafe(move || p.execute()));
        let _ = tx.send(r);
    });
    let res = rx.recv_timeout(Duration::from_secs(10)).ok();
    if let Some(c) = canceller {
        let _ = c.join();
    }
    verif_sched::install(None);
    let obs = observe(res, &prog, &ran, case, &files);
    let trace = log.lock().unwrap_or_else(|e| e.into_inner()).clone();
    (trace, obs)
}

fn coq_case(case: &Case, trace: &[Ev], o: &Obs) -> String {
    let outc = |x: &u8| match x {
        0 => "OOk",
        1 => "OErr",
        _ => "OPanic",
    };
    let rk = |k: &u8| match k {
        0 => "RSuccess",
        1 => "RFailed",
        _ => "RCancelled",
    };
    format!(
        "{{| x_n := {}; x_outs := {}; x_soe := {}; x_k := {}; x_trace := {}; x_obs := {{| x_results := {}; x_total := {}; x_succ := {}; x_fail := {}; x_completed := {}; x_failed := {}; x_running := {}; x_ran := {} |}} |}}",
        case.n,
        coq_list(case.outs.iter().map(|x| outc(x).to_string())),
        coq_bool(case.soe),
        case.k,
        coq_list(trace.iter().map(|e| e.coq())),
        coq_list(o.results.iter().map(|(i, k)| format!("({}, {})", i, rk(k)))),
        o.total,
        o.succ,
        o.fail,
        o.completed,
        o.failed,
        // a wrapped-around usize (fetch_sub below 0) must not become a huge numeral
        o.running.min(1_000_000),
        coq_list(o.ran.iter().map(|i| i.to_string()))
    )
}

fn class_of(case: &Case) -> String {
    format!(
        "n{}k{}{}{}{}",
        case.n,
        case.k,
        if case.soe { "S" } else { "" },
        if case.outs.contains(&2) { "P" } else { "" },
        if case.cancel.is_some() { "C" } else { "" }
    )
}

fn gen_case(r: &mut Rng, mode: &str, max_n: u64) -> Case {
    let n = r.range(1, max_n) as usize;
    let k = r.range(1, 4) as usize;
    let soe = r.chance(1, 2);
    let outs: Vec<u8> = (0..n)
        .map(|_| match r.below(10) {
            0..=4 => 0,
            5..=7 => 1,
            _ => 2,
        })
        .collect();
    let kinds: Vec<u8> = (0..n).map(|_| if r.chance(1, 5) { 1 } else { 0 }).collect();
    let cancel = if r.chance(1, 4) {
        Some(if mode == "ctl" { r.below(8 * n as u64 + 4) } else { r.below(400) })
    } else {
        None
    };
    Case { mode: mode.into(), n, outs, kinds, soe, k, sseed: r.next() >> 8, bias: r.below(4), cancel }
}

const HEADER: &str = "From OxVerif Require Import Base.Util C22.Model.";

pub fn run(ctx: &Ctx) {
    let mut r = Rng::new(ctx.seed ^ 0xC22);
    let mut ctl = Out::new(ctx, HEADER, "xcase", "ctl_code");
    ctl.shard_size = 250;
    let mut free = Out::new(ctx, HEADER, "xcase", "free_code");
    free.shard_size = 400;
    let mut divergences = 0u64;
    let mut do_ctl = |ctl: &mut Out, case: &Case, divergences: &mut u64| {
        let (trace, obs, div) = run_ctl(case);
        if div {
            *divergences += 1;
        }
        let nt = case.n >= 2 && (case.outs.iter().any(|o| *o != 0) || case.cancel.is_some());
        ctl.push(coq_case(case, &trace, &obs), case.json(), &class_of(case), nt);
    };
    let do_free = |free: &mut Out, case: &Case| {
        let (trace, obs) = run_free(case);
        let nt = case.n >= 2 && (case.outs.iter().any(|o| *o != 0) || case.cancel.is_some());
        free.push(coq_case(case, &trace, &obs), case.json(), &class_of(case), nt);
    };
    if let Some(cases) = ctx.replay_cases() {
        for v in cases {
            if let Some(c) = Case::from(&v) {
                if c.mode == "ctl" {
                    do_ctl(&mut ctl, &c, &mut divergences);
                } else {
                    for _ in 0..50 {
                        do_free(&mut free, &c);
                    }
                }
            }
        }
    } else {
        // directed schedules first: the design-phase witnesses
        let directed = vec![
            Case { mode: "ctl".into(), n: 3, outs: vec![0, 2, 0], kinds: vec![0, 0, 0], soe: false, k: 2, sseed: 1, bias: 0, cancel: None },
            Case { mode: "ctl".into(), n: 3, outs: vec![0, 2, 0], kinds: vec![0, 0, 0], soe: false, k: 1, sseed: 2, bias: 1, cancel: None },
            Case { mode: "ctl".into(), n: 4, outs: vec![1, 0, 0, 0], kinds: vec![0, 0, 0, 0], soe: true, k: 1, sseed: 3, bias: 1, cancel: None },
            Case { mode: "ctl".into(), n: 4, outs: vec![1, 0, 0, 0], kinds: vec![1, 1, 1, 1], soe: true, k: 1, sseed: 4, bias: 1, cancel: None },
            Case { mode: "ctl".into(), n: 4, outs: vec![0, 1, 0, 0], kinds: vec![0, 0, 0, 0], soe: true, k: 2, sseed: 5, bias: 2, cancel: None },
            Case { mode: "ctl".into(), n: 3, outs: vec![0, 0, 0], kinds: vec![0, 1, 0], soe: false, k: 2, sseed: 6, bias: 0, cancel: Some(0) },
        ];
        for c in &directed {
            for s in 0..8 {
                let mut c2 = c.clone();
                c2.sseed = c.sseed * 1000 + s;
                do_ctl(&mut ctl, &c2, &mut divergences);
            }
        }
        let (n_ctl, n_free) = if ctx.thorough() { (6000, 6000) } else { (1200, 1500) };
        for i in 0..n_ctl {
            if divergences > 4 {
                break; // every divergence costs a time-out; a handful is enough evidence
            }
            let c = gen_case(&mut r, "ctl", if i % 3 == 0 { 3 } else { 6 });
            do_ctl(&mut ctl, &c, &mut divergences);
        }
        for i in 0..n_free {
            let c = gen_case(&mut r, "free", if i % 4 == 0 { 12 } else { 6 });
            do_free(&mut free, &c);
        }
    }
    ctl.extra.insert("divergences".into(), json!(divergences));
    ctl.finish("ctl");
    free.finish("free");
    let _ = std::fs::remove_dir_all(tmpdir());
}
