//! C29 — LruCache / ObjectCache vs the Gallina LRU model and abstract spec.
use crate::util::*;
use oxidize_pdf::memory::{LruCache, ObjectCache};
use oxidize_pdf::objects::ObjectId;
use oxidize_pdf::parser::PdfObject;
use serde_json::{json, Value};
use std::sync::Arc;

#[derive(Clone, Debug)]
enum Op {
    Get(u64),
    Put(u64, u64),
    Clear,
    Len,
}
#[derive(Clone, Debug, PartialEq)]
enum Outp {
    Val(Option<u64>),
    Unit,
    Len(u64),
}

fn op_json(o: &Op) -> Value {
    match o {
        Op::Get(k) => json!(["g", k]),
        Op::Put(k, v) => json!(["p", k, v]),
        Op::Clear => json!(["c"]),
        Op::Len => json!(["l"]),
    }
}
fn op_from(v: &Value) -> Op {
    let a = v.as_array().unwrap();
    match a[0].as_str().unwrap() {
        "g" => Op::Get(a[1].as_u64().unwrap()),
        "p" => Op::Put(a[1].as_u64().unwrap(), a[2].as_u64().unwrap()),
        "c" => Op::Clear,
        _ => Op::Len,
    }
}
fn op_coq(o: &Op) -> String {
    match o {
        Op::Get(k) => format!("Get {k}"),
        Op::Put(k, v) => format!("Put {k} {v}"),
        Op::Clear => "Clear".into(),
        Op::Len => "Len".into(),
    }
}
fn out_coq(o: &Outp) -> String {
    match o {
        Outp::Val(Some(v)) => format!("OVal (Some {v})"),
        Outp::Val(None) => "OVal None".into(),
        Outp::Unit => "OUnit".into(),
        Outp::Len(n) => format!("OLen {n}"),
    }
}

fn run_lru(cap: u64, ops: &[Op]) -> Vec<Outp> {
    let mut c: LruCache<u64, u64> = LruCache::new(cap as usize);
    ops.iter()
        .map(|o| match o {
            Op::Get(k) => Outp::Val(c.get(k).copied()),
            Op::Put(k, v) => {
                c.put(*k, *v);
                Outp::Unit
            }
            Op::Clear => {
                c.clear();
                Outp::Unit
            }
            Op::Len => Outp::Len(c.len() as u64),
        })
        .collect()
}
fn obj_apply(c: &ObjectCache, o: &Op) -> Outp {
    match o {
        Op::Get(k) => Outp::Val(c.get(&ObjectId::new(*k as u32, 0)).map(|a| match &*a {
            PdfObject::Integer(i) => *i as u64,
            _ => u64::MAX,
        })),
        Op::Put(k, v) => {
            c.put(ObjectId::new(*k as u32, 0), Arc::new(PdfObject::Integer(*v as i64)));
            Outp::Unit
        }
        Op::Clear => {
            c.clear();
            Outp::Unit
        }
        Op::Len => Outp::Len(c.stats().size as u64),
    }
}
fn run_obj(cap: u64, ops: &[Op]) -> Vec<Outp> {
    let c = ObjectCache::new(cap as usize);
    ops.iter().map(|o| obj_apply(&c, o)).collect()
}

fn nontrivial(cap: u64, ops: &[Op], outs: &[Outp]) -> bool {
    // rule: at least one hit AND (one miss after a put of that key [eviction or clear] OR cap==0 with a put)
    let hit = outs.iter().any(|o| matches!(o, Outp::Val(Some(_))));
    let mut putk = std::collections::HashSet::new();
    let mut miss_after_put = false;
    for (o, r) in ops.iter().zip(outs) {
        match (o, r) {
            (Op::Put(k, _), _) => {
                putk.insert(*k);
            }
            (Op::Get(k), Outp::Val(None)) if putk.contains(k) => miss_after_put = true,
            _ => {}
        }
    }
    (hit && miss_after_put) || (cap == 0 && miss_after_put)
}

fn emit_seq(out: &mut Out, kind: &str, cap: u64, ops: &[Op], class: &str) {
    let res = catch(std::panic::AssertUnwindSafe(|| if kind == "lru" { run_lru(cap, ops) } else { run_obj(cap, ops) }));
    let outs = match res {
        Ok(o) => o,
        Err(m) => {
            out.impl_failures.push(json!({"what":"panic","msg":m,"case":{"kind":kind,"cap":cap,"ops":ops.iter().map(op_json).collect::<Vec<_>>()}}));
            return;
        }
    };
    let coq = format!(
        "({}, {}, {})",
        cap,
        coq_list(ops.iter().map(op_coq)),
        coq_list(outs.iter().map(out_coq))
    );
    let js = json!({"kind":kind,"cap":cap,"ops":ops.iter().map(op_json).collect::<Vec<_>>()});
    let nt = nontrivial(cap, ops, &outs);
    out.push(coq, js, class, nt);
}

fn enumerate(len: usize, alphabet: &[Op], cur: &mut Vec<Op>, f: &mut dyn FnMut(&[Op])) {
    if cur.len() == len {
        f(cur);
        return;
    }
    for o in alphabet {
        let mut o = o.clone();
        if let Op::Put(k, _) = o {
            o = Op::Put(k, 10 + cur.len() as u64); // distinct value per position
        }
        cur.push(o);
        enumerate(len, alphabet, cur, f);
        cur.pop();
    }
}

fn random_ops(r: &mut Rng, len: usize, keys: u64) -> Vec<Op> {
    (0..len)
        .map(|i| match r.below(100) {
            0..=44 => Op::Get(1 + r.below(keys)),
            45..=91 => Op::Put(1 + r.below(keys), 100 + i as u64),
            92..=94 => Op::Clear,
            _ => Op::Len,
        })
        .collect()
}

pub fn run(ctx: &Ctx) {
    let header = "From OxVerif Require Import Base.Util C29.Model.";
    // ---------- channel seq ----------
    let mut out = Out::new(ctx, header, "N * list op * list out", "case_code");
    out.shard_size = 2500;
    if let Some(cases) = ctx.replay_cases() {
        for c in cases {
            if c.get("threads").is_some() {
                continue;
            }
            let ops: Vec<Op> = c["ops"].as_array().unwrap().iter().map(op_from).collect();
            emit_seq(&mut out, c["kind"].as_str().unwrap_or("lru"), c["cap"].as_u64().unwrap(), &ops, "replay");
        }
    } else {
        let alphabet = vec![Op::Get(1), Op::Get(2), Op::Get(3), Op::Put(1, 0), Op::Put(2, 0), Op::Put(3, 0), Op::Clear];
        let maxlen = if ctx.thorough() { 5 } else { 4 };
        for cap in 0..=4u64 {
            for len in 0..=maxlen {
                let mut cur = vec![];
                enumerate(len, &alphabet, &mut cur, &mut |ops| {
                    emit_seq(&mut out, "lru", cap, ops, &format!("exhaustive_len{len}"));
                });
            }
        }
        out.extra.insert("exhaustive_upto_len".into(), json!(maxlen));
        let mut r = Rng::new(ctx.seed);
        let nrand = if ctx.thorough() { 6000 } else { 1200 };
        for i in 0..nrand {
            let cap = match r.below(10) {
                0 => 0,
                1..=6 => r.range(1, 4),
                _ => r.range(5, 12),
            };
            let keys = r.range(2, 14);
            let len = if i % 10 == 0 { r.range(100, 200) } else { r.range(5, 60) } as usize;
            let ops = random_ops(&mut r, len, keys);
            let kind = if i % 2 == 0 { "lru" } else { "obj" };
            emit_seq(&mut out, kind, cap, &ops, &format!("random_{kind}"));
        }
        // ObjectCache on all short exhaustive sequences as well (len<=3)
        for cap in 0..=4u64 {
            for len in 0..=3 {
                let mut cur = vec![];
                enumerate(len, &alphabet, &mut cur, &mut |ops| {
                    emit_seq(&mut out, "obj", cap, ops, "exhaustive_obj");
                });
            }
        }
    }
    out.finish("seq");

    // ---------- channel conc: real threads on ObjectCache, checked for sequential consistency ----------
    let mut out = Out::new(ctx, header, "N * list (list (op * out))", "conc_code");
    out.shard_size = 300;
    let mut r = Rng::new(ctx.seed ^ 0xC29);
    let mk = |out: &mut Out, cap: u64, ths: Vec<Vec<Op>>, class: &str| {
        let cache = Arc::new(ObjectCache::new(cap as usize));
        let barrier = Arc::new(std::sync::Barrier::new(ths.len()));
        let handles: Vec<_> = ths
            .iter()
            .cloned()
            .map(|ops| {
                let c = cache.clone();
                let b = barrier.clone();
                std::thread::spawn(move || {
                    b.wait();
                    ops.iter()
                        .map(|o| {
                            let x = obj_apply(&c, o);
                            std::thread::yield_now();
                            x
                        })
                        .collect::<Vec<_>>()
                })
            })
            .collect();
        let outs: Vec<Vec<Outp>> = handles.into_iter().map(|h| h.join().unwrap()).collect();
        let coq = format!(
            "({}, {})",
            cap,
            coq_list(ths.iter().zip(&outs).map(|(t, o)| coq_list(t.iter().zip(o).map(|(a, b)| format!("({}, {})", op_coq(a), out_coq(b))))))
        );
        let js = json!({"cap":cap,"threads":ths.iter().map(|t| t.iter().map(op_json).collect::<Vec<_>>()).collect::<Vec<_>>()});
        let nt = outs.iter().flatten().any(|o| matches!(o, Outp::Val(Some(_))));
        out.push(coq, js, class, nt);
    };
    if let Some(cases) = ctx.replay_cases() {
        for c in cases {
            if let Some(t) = c.get("threads") {
                let ths: Vec<Vec<Op>> = t.as_array().unwrap().iter().map(|x| x.as_array().unwrap().iter().map(op_from).collect()).collect();
                for _ in 0..20 {
                    mk(&mut out, c["cap"].as_u64().unwrap(), ths.clone(), "replay");
                }
            }
        }
    } else {
        let n = if ctx.thorough() { 1500 } else { 300 };
        for _ in 0..n {
            let nth = r.range(2, 3) as usize;
            let cap = r.range(0, 3);
            let ths: Vec<Vec<Op>> = (0..nth)
                .map(|t| {
                    let len = r.range(1, 4) as usize;
                    (0..len)
                        .map(|i| match r.below(10) {
                            0..=4 => Op::Get(1 + r.below(3)),
                            5..=8 => Op::Put(1 + r.below(3), (t as u64 + 1) * 100 + i as u64),
                            _ => Op::Len,
                        })
                        .collect()
                })
                .collect();
            mk(&mut out, cap, ths, &format!("threads{nth}"));
        }
    }
    // ---------- stress: many threads around the eviction frontier; the capacity bound and the
    // "a hit returns a value that was stored for that key" clause are checked on the real cache ----------
    if ctx.replay_cases().is_none() {
        let rounds = if ctx.thorough() { 120 } else { 25 };
        let mut worst = 0usize;
        for round in 0..rounds {
            let cap = 1 + (round % 3) as usize;
            let cache = Arc::new(ObjectCache::new(cap));
            let stop = Arc::new(std::sync::atomic::AtomicBool::new(false));
            let bad_value = Arc::new(std::sync::atomic::AtomicU64::new(0));
            let mut hs = vec![];
            for t in 0..6u64 {
                let c = cache.clone();
                let st = stop.clone();
                let bv = bad_value.clone();
                hs.push(std::thread::spawn(move || {
                    let mut r = Rng::new(ctx_seed_mix(round as u64, t));
                    while !st.load(std::sync::atomic::Ordering::Relaxed) {
                        let k = 1 + r.below(5);
                        if t == 0 || r.chance(1, 4) {
                            // values encode their key: v = k*1000 + x
                            c.put(ObjectId::new(k as u32, 0), Arc::new(PdfObject::Integer((k * 1000 + r.below(1000)) as i64)));
                        } else if let Some(v) = c.get(&ObjectId::new(k as u32, 0)) {
                            if let PdfObject::Integer(i) = &*v {
                                if (*i as u64) / 1000 != k {
                                    bv.store(k, std::sync::atomic::Ordering::Relaxed);
                                }
                            }
                        }
                    }
                }));
            }
            std::thread::sleep(std::time::Duration::from_millis(if ctx.thorough() { 40 } else { 25 }));
            stop.store(true, std::sync::atomic::Ordering::Relaxed);
            for h in hs {
                let _ = h.join();
            }
            let size = cache.stats().size;
            worst = worst.max(size.saturating_sub(cap));
            if size > cap {
                out.impl_failures.push(json!({"what": format!("concurrent use: cache of capacity {cap} holds {size} entries after 6 threads ran"), "case": {"stress_round": round, "cap": cap}}));
                break;
            }
            if bad_value.load(std::sync::atomic::Ordering::Relaxed) != 0 {
                out.impl_failures.push(json!({"what": "concurrent use: a lookup returned a value stored for another key", "case": {"stress_round": round, "cap": cap}}));
                break;
            }
            out.count("stress_round");
        }
        out.extra.insert("stress_rounds".into(), json!(rounds));
        out.extra.insert("stress_worst_excess".into(), json!(worst));
    }
    out.finish("conc");
}

fn ctx_seed_mix(a: u64, b: u64) -> u64 {
    a.wrapping_mul(0x9E37_79B9_7F4A_7C15) ^ b.wrapping_mul(0xD1B5_4A32_D192_ED03) ^ 0xC29
}
