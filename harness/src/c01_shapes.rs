//! C01 input SHAPES added after two seeded defects were missed:
//!  * "cyc": cross-reference STREAM whose type-2 (compressed) entries form container chains and
//!    cycles of length 1..4 (self-reference, full cycle, rho shape) with the navigation reaching them
//!    through /Root, /Pages, /Kids, /Contents, /Resources, /Font;
//!  * "xtail": classic xref section whose declared count exceeds (or equals) the entry lines left,
//!    with every variety of tail: one-line trailer, corrupted / missing keyword, comment lines, blank
//!    lines, EOF right after the entries; startxref before or after the section;
//!  * "manual": the reader's manual-reconstruction path (object missing from the table / unparsable
//!    dictionary / indirect /Length in strict presets) with boundary /Length values.
use super::super::Case;
use super::{boundary, ALL};
use crate::util::*;
use serde_json::{json, Value};

fn be(v: u64, w: usize) -> Vec<u8> {
    (0..w).map(|i| (v >> (8 * (w - 1 - i))) as u8).collect()
}

struct Objs {
    out: Vec<u8>,
    offs: Vec<(u32, usize)>,
}
impl Objs {
    fn new() -> Self {
        Objs { out: b"%PDF-1.5\n%\xE2\xE3\xCF\xD3\n".to_vec(), offs: vec![] }
    }
    fn obj(&mut self, n: u32, body: &[u8]) {
        self.offs.push((n, self.out.len()));
        self.out.extend_from_slice(format!("{} 0 obj\n", n).as_bytes());
        self.out.extend_from_slice(body);
        self.out.extend_from_slice(b"\nendobj\n");
    }
    fn off(&self, n: u32) -> Option<usize> {
        self.offs.iter().find(|(m, _)| *m == n).map(|x| x.1)
    }
}
const CONTENT: &[u8] = b"BT /F1 12 Tf 72 720 Td (Hello) Tj ET\n";
fn stream(dict_extra: &str, len: &str, data: &[u8]) -> Vec<u8> {
    let mut b = format!("<< /Length {} {}>>\nstream\n", len, dict_extra).into_bytes();
    b.extend_from_slice(data);
    b.extend_from_slice(b"\nendstream");
    b
}

/// container chains among type-2 entries
fn cyc(spec: &Value) -> Vec<u8> {
    let chain: Vec<u32> = spec["chain"].as_array().map(|a| a.iter().filter_map(|x| x.as_u64().map(|v| v as u32)).collect()).unwrap_or_default();
    let back = spec["back"].as_i64().unwrap_or(0); // -1: the last element is a plain on-disk object (no cycle)
    let mut b = Objs::new();
    b.obj(1, b"<< /Type /Catalog /Pages 2 0 R >>");
    b.obj(2, b"<< /Type /Pages /Kids [3 0 R] /Count 1 >>");
    b.obj(3, b"<< /Type /Page /Parent 2 0 R /MediaBox [0 0 612 792] /Contents 4 0 R /Resources 8 0 R >>");
    b.obj(4, &stream("", &CONTENT.len().to_string(), CONTENT));
    b.obj(5, b"<< /Type /Font /Subtype /Type1 /BaseFont /Helvetica >>");
    b.obj(8, b"<< /Font << /F1 5 0 R >> >>");
    // a real object stream (7) so that a chain may also END in a well-formed container
    let members = "<< /Type /Pages /Kids [3 0 R] /Count 1 >>\n";
    let hdr = "9 0 ";
    let payload = format!("{}{}", hdr, members);
    b.obj(7, &stream(&format!("/Type /ObjStm /N 1 /First {} ", hdr.len()), &payload.len().to_string(), payload.as_bytes()));
    let at = b.out.len();
    let size = 16u32;
    let mut data = vec![];
    for n in 0..size {
        let pos = chain.iter().position(|c| *c == n);
        if let Some(i) = pos {
            let last = i + 1 == chain.len();
            if last && back < 0 {
                // plain entry for the last element
                data.extend(be(1, 1));
                data.extend(be(b.off(n).unwrap_or(0) as u64, 2));
                data.extend(be(0, 2));
            } else {
                let target = if last { chain[back as usize] } else { chain[i + 1] };
                data.extend(be(2, 1));
                data.extend(be(target as u64, 2));
                data.extend(be(0, 2));
            }
        } else if n == 6 {
            data.extend(be(1, 1));
            data.extend(be(at as u64, 2));
            data.extend(be(0, 2));
        } else if let Some(o) = b.off(n) {
            data.extend(be(1, 1));
            data.extend(be(o as u64, 2));
            data.extend(be(0, 2));
        } else {
            data.extend(be(0, 1));
            data.extend(be(0, 2));
            data.extend(be(0xFFFF, 2));
        }
    }
    let mut xs = format!("<< /Type /XRef /Size {} /W [1 2 2] /Root 1 0 R /Length {} >>\nstream\n", size, data.len()).into_bytes();
    xs.extend_from_slice(&data);
    xs.extend_from_slice(b"\nendstream");
    b.obj(6, &xs);
    let mut o = b.out;
    o.extend_from_slice(format!("startxref\n{}\n%%EOF\n", at).as_bytes());
    o
}

/// classic xref section: `count` vs the lines that are really there, and what follows them
fn xtail(spec: &Value) -> Vec<u8> {
    let nent = spec["nent"].as_u64().unwrap_or(6) as u32;
    let count = spec["count"].as_str().unwrap_or("6").to_string();
    let tail = spec["tail"].as_str().unwrap_or("none");
    let before = spec["sx"].as_str() == Some("before");
    let m = spec["m"].as_u64().unwrap_or(0) as usize;
    let fill = spec["fill"].as_str().unwrap_or("");
    let eol = if spec["crlf"].as_bool().unwrap_or(false) { "\r\n" } else { "\n" };
    let mut b = Objs::new();
    b.obj(1, b"<< /Type /Catalog /Pages 2 0 R >>");
    b.obj(2, b"<< /Type /Pages /Kids [3 0 R] /Count 1 >>");
    b.obj(3, b"<< /Type /Page /Parent 2 0 R /MediaBox [0 0 612 792] /Contents 4 0 R /Resources << /Font << /F1 5 0 R >> >> >>");
    b.obj(4, &stream("", &CONTENT.len().to_string(), CONTENT));
    b.obj(5, b"<< /Type /Font /Subtype /Type1 /BaseFont /Helvetica >>");
    let mut o = b.out.clone();
    let sx_len = format!("startxref{}{:010}{}", eol, 0, eol).len();
    let xref_at = if before { o.len() + sx_len } else { o.len() };
    if before {
        o.extend_from_slice(format!("startxref{}{:010}{}", eol, xref_at, eol).as_bytes());
    }
    o.extend_from_slice(format!("xref{}0 {}{}", eol, count, eol).as_bytes());
    let ee = if eol == "\n" { " \n" } else { "\r\n" };
    for n in 0..nent.min(6) {
        if n == 0 {
            o.extend_from_slice(format!("0000000000 65535 f{}", ee).as_bytes());
        } else {
            o.extend_from_slice(format!("{:010} 00000 n{}", b.off(n).unwrap_or(0), ee).as_bytes());
        }
    }
    let dict = "<< /Size 6 /Root 1 0 R >>";
    match tail {
        "none" => {}
        "normal" => o.extend_from_slice(format!("trailer{}{}{}", eol, dict, eol).as_bytes()),
        "oneline" => o.extend_from_slice(format!("trailer {}{}", dict, eol).as_bytes()),
        "corrupt" => o.extend_from_slice(format!("trailor{}{}{}", eol, dict, eol).as_bytes()),
        "upper" => o.extend_from_slice(format!("Trailer{}{}{}", eol, dict, eol).as_bytes()),
        "split" => o.extend_from_slice(format!("trai ler{}{}{}", eol, dict, eol).as_bytes()),
        "nokw" => o.extend_from_slice(format!("{}{}", dict, eol).as_bytes()),
        "spaced" => o.extend_from_slice(format!("  trailer  {}{}{}", eol, dict, eol).as_bytes()),
        "garbage" => o.extend_from_slice(format!("12345{}abc def{}", eol, eol).as_bytes()),
        _ => {}
    }
    for k in 0..m {
        match fill {
            "comment" => o.extend_from_slice(format!("% c{}", eol).as_bytes()),
            "blank" => o.extend_from_slice(eol.as_bytes()),
            "spaces" => o.extend_from_slice(format!("   {}", eol).as_bytes()),
            "mixed" => o.extend_from_slice(if k % 2 == 0 { format!("% c{}", eol) } else { eol.to_string() }.as_bytes()),
            _ => {}
        }
    }
    if !before {
        o.extend_from_slice(format!("startxref{}{}{}%%EOF{}", eol, xref_at, eol, eol).as_bytes());
        // blank lines after %%EOF
        for _ in 0..spec["after"].as_u64().unwrap_or(0) {
            o.extend_from_slice(eol.as_bytes());
        }
    }
    if spec["noeol"].as_bool().unwrap_or(false) {
        while o.last() == Some(&b'\n') || o.last() == Some(&b'\r') {
            o.pop();
        }
    }
    o
}

/// manual reconstruction path: a stream object the regular parse cannot deliver
fn manual(spec: &Value) -> Vec<u8> {
    let len = spec["len"].as_str().unwrap_or("10").to_string();
    let variant = spec["variant"].as_str().unwrap_or("bad_dict");
    let victim = spec["victim"].as_u64().unwrap_or(4) as u32;
    let mut b = Objs::new();
    b.obj(1, b"<< /Type /Catalog /Pages 2 0 R >>");
    b.obj(2, b"<< /Type /Pages /Kids [3 0 R] /Count 1 >>");
    b.obj(3, format!("<< /Type /Page /Parent 2 0 R /MediaBox [0 0 612 792] /Contents {} 0 R /Resources << /Font << /F1 5 0 R >> >> >>", victim).as_bytes());
    let body = match variant {
        "bad_dict" => stream("/X ] ", &len, CONTENT),
        "bad_dict2" => stream("/X /Y /Z ", &len, CONTENT),
        "indirect" => stream("", "9 0 R", CONTENT),
        _ => stream("", &len, CONTENT), // "missing": left out of the table below
    };
    b.obj(victim, &body);
    b.obj(5, b"<< /Type /Font /Subtype /Type1 /BaseFont /Helvetica >>");
    b.obj(9, len.as_bytes());
    let at = b.out.len();
    let mut o = b.out.clone();
    let max = 10u32.max(victim + 1);
    o.extend_from_slice(format!("xref\n0 {}\n", max).as_bytes());
    o.extend_from_slice(b"0000000000 65535 f \n");
    for n in 1..max {
        match b.off(n) {
            Some(off) if !(variant == "missing" && n == victim) => o.extend_from_slice(format!("{:010} 00000 n \n", off).as_bytes()),
            _ => o.extend_from_slice(b"0000000000 65535 f \n"),
        }
    }
    if variant == "missing" {
        // "not found in the table" needs the number to be beyond every subsection: rewrite as two subsections
        let mut o2 = b.out.clone();
        o2.extend_from_slice(format!("xref\n0 {}\n", victim).as_bytes());
        o2.extend_from_slice(b"0000000000 65535 f \n");
        for n in 1..victim {
            match b.off(n) {
                Some(off) => o2.extend_from_slice(format!("{:010} 00000 n \n", off).as_bytes()),
                None => o2.extend_from_slice(b"0000000000 65535 f \n"),
            }
        }
        o2.extend_from_slice(format!("{} 1\n{:010} 00000 n \n", 5, b.off(5).unwrap_or(0)).as_bytes());
        o2.extend_from_slice(format!("trailer\n<< /Size {} /Root 1 0 R >>\nstartxref\n{}\n%%EOF\n", max, at).as_bytes());
        return o2;
    }
    o.extend_from_slice(format!("trailer\n<< /Size {} /Root 1 0 R >>\nstartxref\n{}\n%%EOF\n", max, at).as_bytes());
    o
}

pub fn build_shape(spec: &Value) -> Option<Vec<u8>> {
    match spec["gen"].as_str().unwrap_or("") {
        "cyc" => Some(cyc(spec)),
        "xtail" => Some(xtail(spec)),
        "manual" => Some(manual(spec)),
        _ => None,
    }
}

pub fn shape_cases(out: &mut Vec<Case>, thorough: bool, r: &mut Rng) {
    // ---- container chains: victim x length x closing
    let victims: [(u32, &str); 6] = [(1, "root"), (2, "pages"), (3, "kids"), (4, "contents"), (8, "resources"), (5, "font")];
    let extra = [10u32, 11, 12, 13];
    for (v, wh) in victims {
        for l in 1..=4usize {
            // nodes after the victim: unused numbers, or (seeded) real objects
            let mut chain = vec![v];
            for k in 1..l {
                let cand = if r.chance(1, 3) { *r.pick(&[4u32, 5, 7, 8]) } else { extra[k - 1] };
                chain.push(if chain.contains(&cand) { extra[k - 1] } else { cand });
            }
            let mut backs: Vec<i64> = vec![0];
            if l >= 2 {
                backs.push((l - 1) as i64); // the last one contains itself (rho with a self loop)
            }
            if l >= 3 {
                backs.push(1); // rho: the cycle does not go through the victim
            }
            backs.push(-1); // no cycle: the chain ends in a plain object
            for bk in backs {
                let cyc_len = if bk < 0 { 0 } else { l as i64 - bk };
                out.push(Case {
                    spec: json!({"gen":"cyc","chain":chain,"back":bk,"where":wh}),
                    kernel: "KContainer".into(),
                    args: vec![l as i128, cyc_len as i128],
                    presets: ALL.to_vec(),
                    class: format!("shape:container_{}", if bk < 0 { "chain" } else if cyc_len == 1 { "self" } else { "cycle" }),
                });
            }
        }
    }
    // a chain ending in the real object stream 7 that holds object 9 (a /Pages node): well-formed nesting claim
    out.push(Case { spec: json!({"gen":"cyc","chain":[2,7],"back":-1,"where":"pages"}), kernel: "KContainer".into(), args: vec![2, 0], presets: ALL.to_vec(), class: "shape:container_chain".into() });
    out.push(Case { spec: json!({"gen":"cyc","chain":[7,7],"back":0,"where":"objstm"}), kernel: "KContainer".into(), args: vec![1, 1], presets: ALL.to_vec(), class: "shape:container_self".into() });

    // ---- classic xref: count vs lines, every tail
    let tails = ["none", "normal", "oneline", "corrupt", "upper", "split", "nokw", "spaced", "garbage"];
    let fills: Vec<(&str, u64)> = if thorough { vec![("", 0), ("comment", 3), ("blank", 3), ("spaces", 2), ("mixed", 5), ("blank", 40)] } else { vec![("", 0), ("comment", 3), ("blank", 3), ("mixed", 5)] };
    let mut k = 0usize;
    for nent in [0u64, 1, 6] {
        let mut counts: Vec<String> = vec![nent.to_string(), (nent + 1).to_string(), "4294967295".into()];
        if thorough {
            counts.push((nent + 4).to_string());
            counts.extend(boundary().iter().filter(|v| **v >= 0 && **v <= u32::MAX as i128).map(|v| v.to_string()));
        }
        for count in &counts {
            for tail in tails {
                for (fill, m) in &fills {
                    for sx in ["after", "before"] {
                        let exceeds = count.parse::<u64>().unwrap_or(0) > nent;
                        // controls (count = lines present): the plain layout only
                        if !exceeds && !(fill.is_empty() && sx == "after") {
                            continue;
                        }
                        // thorough: the extra boundary counts only with the tails that lack a bare `trailer` line
                        let core = count == "4294967295" || count.parse::<u64>().unwrap_or(0) <= nent + 1;
                        if !core && !matches!(tail, "none" | "oneline" | "corrupt") {
                            continue;
                        }
                        k += 1;
                        let crlf = r.chance(1, 5);
                        let noeol = r.chance(1, 6);
                        let after = if sx == "after" { r.below(3) } else { 0 };
                        let ntail = match tail {
                            "none" => 0,
                            "nokw" | "oneline" => 1,
                            _ => 2,
                        } + m + if sx == "after" { 3 } else { 0 };
                        // opening is preset independent up to recovery: two presets per case, all five on every 7th
                        let presets: Vec<&'static str> = if k % 7 == 0 { ALL.to_vec() } else { vec![ALL[k % 5], ALL[(k / 5 + 2) % 5]] };
                        out.push(Case {
                            spec: json!({"gen":"xtail","nent":nent,"count":count,"tail":tail,"fill":fill,"m":m,"sx":sx,"crlf":crlf,"noeol":noeol,"after":after}),
                            kernel: "KEntryLoop".into(),
                            args: vec![nent as i128, count.parse::<i128>().unwrap_or(0), ntail as i128],
                            presets,
                            class: format!("shape:xref_tail_{}", tail),
                        });
                    }
                }
            }
        }
    }

    // ---- manual reconstruction with boundary /Length
    let lens: Vec<String> = if thorough { boundary().iter().filter(|v| **v >= 0).map(|v| v.to_string()).collect() } else { ["0", "37", "255", "65537", "2147483648", "4294967297", "1099511627776", "9223372036854775807"].iter().map(|s| s.to_string()).collect() };
    for variant in ["bad_dict", "bad_dict2", "indirect", "missing"] {
        for victim in [4u32, 7] {
            for l in &lens {
                out.push(Case {
                    spec: json!({"gen":"manual","variant":variant,"len":l,"victim":victim}),
                    kernel: "KWindow".into(),
                    args: vec![l.parse::<i128>().unwrap_or(0), 600],
                    presets: ALL.to_vec(),
                    class: format!("shape:manual_{}", variant),
                });
            }
        }
    }
}
