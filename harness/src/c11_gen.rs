//! C11 page generator: structured content streams, mostly well formed (see c11.rs).
use super::{El, Font, Form, Op, Page, Res};
use crate::util::Rng;

const WIN_HI: &[u8] = &[0x80, 0x82, 0x83, 0x84, 0x85, 0x86, 0x87, 0x88, 0x89, 0x8A, 0x8B, 0x8C, 0x8E, 0x91, 0x92, 0x93, 0x94, 0x95, 0x96, 0x97, 0x98, 0x99, 0x9A, 0x9B, 0x9C, 0x9E, 0x9F];
const WIN_UNDEF: &[u8] = &[0x00, 0x01, 0x03, 0x09, 0x0A, 0x0D, 0x1B, 0x1F, 0x7F, 0x81, 0x8D, 0x8F, 0x90, 0x9D, 0xAD];
const WORDS: &[&str] = &["co", "op", "text", "well", "known", "state", "of", "the", "art", "re", "x", "Zq", "A1", "42", "self"];

fn is_ws(c: char) -> bool {
    let c = c as u32;
    c <= 32 || (127..=160).contains(&c) || c == 5760 || (8192..=8202).contains(&c) || matches!(c, 8232 | 8233 | 8239 | 8287 | 12288)
}
fn blank(t: &str) -> bool {
    t.chars().all(is_ws)
}
fn target(r: &mut Rng) -> String {
    let c = |u: u64| char::from_u32(u as u32).unwrap().to_string();
    match r.below(100) {
        0..=34 => c(r.range(0x61, 0x7A)),
        35..=44 => c(r.range(0x41, 0x5A)),
        45..=52 => c(r.range(0x30, 0x39)),
        53..=57 => "-".into(),
        58..=67 => c(r.range(0xC0, 0xFF)),
        68..=81 => c(r.range(0x4E00, 0x9FA5)),
        82..=85 => c(*r.pick(&[0x1F600, 0x1F4A9, 0x20000, 0x2A6D6, 0x10437])),
        86..=91 => r.pick(&["ffi", "fi", "fl", "ft", "e\u{301}", "\u{4F60}\u{597D}"]).to_string(),
        92..=94 => " ".into(),
        95..=96 => "\u{A0}".into(),
        97 => "\u{3000}".into(),
        _ => c(*r.pick(&[0x20AC, 0x2014, 0x201C, 0x201D, 0x3B1, 0x416])),
    }
}
/// random ToUnicode map: 6..40 distinct two-byte codes (with consecutive runs for bfrange); the
/// first three targets are never blank, the fourth is '-'
pub fn rand_cmap(r: &mut Rng, big: bool) -> Font {
    let n = if big { r.range(15, 40) } else { r.range(6, 12) } as usize;
    let mut m: Vec<(u16, String)> = vec![];
    while m.len() < n {
        let start = match r.below(4) {
            0 => r.range(1, 0xFF),
            1 => r.range(0x100, 0x2FF),
            _ => r.range(1, 0xFFF0),
        } as u16;
        let len = if r.chance(1, 2) { 1 } else { r.range(2, 6) as u16 };
        let consecutive = r.chance(1, 2);
        let base = *r.pick(&[0x61u32, 0x41, 0x30, 0xC0, 0x4E00, 0x4F60, 0x5B57, 0x3B1]) + r.below(8) as u32;
        for k in 0..len {
            let code = start.wrapping_add(k);
            if code == 0 || m.len() >= n || m.iter().any(|(c, _)| *c == code) {
                break;
            }
            let mut t = if consecutive && len > 1 { char::from_u32(base + k as u32).unwrap().to_string() } else { target(r) };
            if m.len() < 3 && blank(&t) {
                t = "k".into();
            }
            if m.len() == 3 {
                t = "-".into();
            }
            m.push((code, t));
        }
    }
    m.sort();
    Font::Map(m)
}
pub fn actual(r: &mut Rng) -> String {
    match r.below(6) {
        0..=2 => r.pick(&["ffi", "Word", "co-op", "(1)", "a b", "\\x", "Q"]).to_string(),
        3 => r.pick(&["\u{4F60}\u{597D}", "caf\u{E9}", "\u{3A9}", "na\u{EF}ve \u{2014} x", "\u{201C}q\u{201D}"]).to_string(),
        4 => r.pick(&["\u{1F600}", "x\u{20000}y", "\u{10437}-"]).to_string(),
        _ => (0..r.range(1, 4)).map(|_| target(r)).collect(),
    }
}

/// one content stream under construction; tracks the font a conforming reader would have selected
pub struct G {
    pub r: Rng,
    pub ops: Vec<Op>,
    pub fonts: Vec<(u32, Font)>,
    pub cur: Option<usize>,
    pub stack: Vec<Option<usize>>,
    pub y: i64,
    pub budget: i64, // codes still to be spent on this stream (size control of the Coq case)
    pub ab: (usize, usize), // the two font indices `fa` / `fb` of seq
}
impl G {
    pub fn new(r: &mut Rng, fonts: &[(u32, Font)], budget: i64) -> G {
        let a = r.below(fonts.len() as u64) as usize;
        G { r: r.fork(), ops: vec![], fonts: fonts.to_vec(), cur: None, stack: vec![], y: 740, budget, ab: (a, (a + 1) % fonts.len()) }
    }
    fn font(&self) -> Font {
        self.fonts[self.cur.expect("font")].1.clone()
    }
    pub fn lit(&mut self) -> bool {
        self.r.chance(1, 5)
    }
    /// n codes of the current font
    pub fn codes(&mut self, n: usize) -> Vec<u8> {
        if n == 0 {
            return vec![];
        }
        match self.font() {
            Font::Win => match self.r.below(10) {
                0..=5 => {
                    let mut b: Vec<u8> = vec![];
                    while b.len() < n {
                        if !b.is_empty() {
                            b.push(b' ');
                        }
                        b.extend(self.r.pick(WORDS).as_bytes());
                    }
                    b.truncate(n);
                    b
                }
                6 => {
                    let mut b = vec![0x93];
                    b.extend((1..n.max(2) - 1).map(|_| self.r.range(0x61, 0x7A) as u8));
                    b.push(0x94);
                    b
                }
                _ => (0..n).map(|_| match self.r.below(4) {
                    0 => self.r.range(0x20, 0x7E) as u8,
                    1 => *self.r.pick(WIN_HI),
                    2 => match self.r.range(0xA1, 0xFF) as u8 {
                        0xAD => 0xAE,
                        c => c,
                    },
                    _ => self.r.range(0x61, 0x7A) as u8,
                }).collect(),
            },
            Font::Map(m) => (0..n).flat_map(|_| self.r.pick(&m).0.to_be_bytes()).collect(),
        }
    }
    /// n codes whose first glyph is certainly not blank
    pub fn nonblank(&mut self, n: usize) -> Vec<u8> {
        let mut b = match self.font() {
            Font::Win => vec![self.r.range(0x61, 0x7A) as u8],
            Font::Map(m) => m.iter().find(|(_, t)| !blank(t)).unwrap().0.to_be_bytes().to_vec(),
        };
        b.extend(self.codes(n.max(1) - 1));
        b
    }
    /// n codes of blank glyphs (empty when the font has none)
    pub fn blanks(&mut self, n: usize) -> Vec<u8> {
        match self.font() {
            Font::Win => (0..n).map(|_| if self.r.chance(1, 3) { 0xA0 } else { 0x20 }).collect(),
            Font::Map(m) => {
                let ws: Vec<u16> = m.iter().filter(|(_, t)| blank(t)).map(|(c, _)| *c).collect();
                if ws.is_empty() { vec![] } else { (0..n).flat_map(|_| self.r.pick(&ws).to_be_bytes()).collect() }
            }
        }
    }
    /// n codes, the last glyph is '-'
    pub fn hyphen_end(&mut self, n: usize) -> Vec<u8> {
        let mut b = if n > 1 { self.nonblank(n - 1) } else { vec![] };
        match self.font() {
            Font::Win => b.push(b'-'),
            Font::Map(m) => b.extend(m.iter().find(|(_, t)| t == "-").unwrap().0.to_be_bytes()),
        }
        b
    }
    /// length of the next string: 1..8 codes, mostly short, bounded by the remaining budget
    pub fn len(&mut self) -> usize {
        let n = if self.r.chance(3, 4) { self.r.range(1, 3) } else { self.r.range(1, 8) } as i64;
        let n = n.min(self.budget).max(1);
        self.budget -= n;
        n as usize
    }
    pub fn push(&mut self, o: Op) {
        self.ops.push(o)
    }
    pub fn g(&mut self, s: impl Into<String>) {
        self.ops.push(Op::G(s.into()))
    }
    /// one of several verbatim geometry operators
    pub fn gp(&mut self, v: &[&str]) {
        let s = self.r.pick(v).to_string();
        self.g(s)
    }
    pub fn tf_size(&mut self, idx: usize, size: &str) {
        let size = if size.is_empty() { self.r.pick(&["12", "10", "9.5", "14", "24", "8"]).to_string() } else { size.to_string() };
        self.cur = Some(idx);
        let n = self.fonts[idx].0;
        self.push(Op::Tf(n, size))
    }
    pub fn font_of(&self, win: bool) -> usize {
        self.fonts.iter().position(|(_, f)| matches!(f, Font::Win) == win).unwrap_or(0)
    }
    /// move to a fresh line / position
    pub fn place(&mut self) {
        self.y -= self.r.range(12, 30) as i64;
        let (x, y) = (*self.r.pick(&[72, 72, 100, 300]), self.y);
        match self.r.below(3) {
            0 => self.g(format!("1 0 0 1 {x} {y} Tm")),
            1 => {
                self.g(format!("1 0 0 1 {x} {} Tm", y + 14));
                self.g("0 -14 Td")
            }
            _ => {
                self.g("1 0 0 1 0 0 Tm");
                self.g(format!("{x} {y} TD"))
            }
        }
    }
    /// a geometry / colour operator that is legal inside a text object
    pub fn geom(&mut self) {
        let (a, b) = (self.r.range(1, 60), self.r.range(10, 20));
        let s = match self.r.below(12) {
            0 => format!("{a} 0 Td"),
            1 => format!("0 -{b} TD"),
            2 => "T*".to_string(),
            3 => format!("{} Tc", self.r.pick(&["0", "0.5", "2", "-0.3"])),
            4 => format!("{} Tw", self.r.pick(&["0", "1.5", "10", "-1"])),
            5 => format!("{} Tz", self.r.pick(&["100", "90", "110"])),
            6 => format!("{} TL", self.r.pick(&["12", "14", "0", "20.5"])),
            7 => format!("{} Ts", self.r.pick(&["0", "3", "-3"])),
            8 => "0.2 0.4 0.6 rg".to_string(),
            9 => "0.5 g".to_string(),
            10 => format!("1 0 0 1 {} {} Tm", a * 6, b * 30),
            _ => format!("{} -{b} Td", a % 5),
        };
        self.g(s)
    }
    pub fn tj(&mut self, b: Vec<u8>) {
        let l = self.lit();
        self.push(Op::Tj(b, l))
    }
    /// a random show operator (Tj, TJ, ', ") for the given first string
    pub fn show_bytes(&mut self, b: Vec<u8>) {
        let l = self.lit();
        match self.r.below(20) {
            0..=9 => self.push(Op::Tj(b, l)),
            10..=14 => {
                let mut v = vec![];
                if self.r.chance(1, 4) {
                    v.push(El::N("-120".into()));
                }
                v.push(El::S(b, l));
                for _ in 0..self.r.below(3) {
                    v.push(El::N(self.r.pick(&["-250", "30", "-15.5", "0", "-1000", "120"]).to_string()));
                    if self.r.chance(3, 4) {
                        let n = self.len().min(3);
                        let (c, l) = (self.codes(n), self.lit());
                        v.push(El::S(c, l));
                    }
                }
                self.push(Op::TJ(v))
            }
            15..=17 => self.push(Op::Quote(b, l)),
            _ => {
                let (a, c) = (self.r.pick(&["0", "1", "2.5"]).to_string(), self.r.pick(&["0", "0.5", "-0.2"]).to_string());
                self.push(Op::DQuote(a, c, b, l))
            }
        }
    }
    /// BT .. ET with `n` show operators
    pub fn block(&mut self, n: usize) {
        let f = self.cur.is_none() || self.r.chance(1, 2);
        self.seq(if f { "BT font place" } else { "BT place" });
        for i in 0..n {
            if i > 0 && self.r.chance(1, 2) {
                self.geom()
            }
            let f = i > 0 && self.r.chance(1, 5);
            self.seq(if f { "font show" } else { "show" })
        }
        self.push(Op::ET)
    }
    /// a little language for operator sequences.  BT ET q Q EMC: the operators (q/Q track the font);
    /// show: random show operator, random string; nb: same, first glyph not blank; font / fa / fb / fwin /
    /// fmap: Tf; place geom: geometry; art: /Artifact BMC|BDC; span: /Span <</ActualText ..>> BDC;
    /// P: /P <</MCID n>> BDC; DoN; blk / blk2: a text object with 1 / 2 shows; `a_b_c`: verbatim `a b c`
    pub fn seqp(&mut self, v: &[&str]) {
        let s = *self.r.pick(v);
        self.seq(s)
    }
    pub fn seq(&mut self, s: &str) {
        for t in s.split_whitespace() {
            match t {
                "BT" => self.push(Op::BT),
                "ET" => self.push(Op::ET),
                "EMC" => self.push(Op::EMC),
                "q" => {
                    self.stack.push(self.cur);
                    self.push(Op::Qs)
                }
                "Q" => {
                    self.cur = self.stack.pop().expect("balanced");
                    self.push(Op::Qr)
                }
                "show" | "nb" => {
                    let n = self.len();
                    let b = if t == "nb" { self.nonblank(n) } else { self.codes(n) };
                    self.show_bytes(b)
                }
                "font" => {
                    let i = self.r.below(self.fonts.len() as u64) as usize;
                    self.tf_size(i, "")
                }
                "fa" => self.tf_size(self.ab.0, ""),
                "fb" => self.tf_size(self.ab.1, ""),
                "fwin" => self.tf_size(self.font_of(true), ""),
                "fmap" => self.tf_size(self.font_of(false), ""),
                "place" => self.place(),
                "geom" => self.geom(),
                "art" => {
                    let o = if self.r.chance(1, 2) { Op::BMC(true) } else { Op::BDC(true, None, None) };
                    self.push(o)
                }
                "span" => {
                    let t = actual(&mut self.r);
                    let mcid = if self.r.chance(1, 3) { Some(self.r.below(9) as u32) } else { None };
                    self.push(Op::BDC(false, mcid, Some(t)))
                }
                "P" => {
                    let m = self.r.below(9) as u32;
                    self.push(Op::BDC(false, Some(m), None))
                }
                "blk" => self.block(1),
                "blk2" => self.block(2),
                "F9" => self.push(Op::Tf(9, "12".into())), // a name no resource dictionary has
                "Tj" => {
                    let b = if let Some(Op::G(h)) = self.ops.pop() { crate::util::unhex(&h) } else { vec![] };
                    self.tj(b) // `hex Tj`: the given bytes
                }
                t if t.starts_with("Do") => self.push(Op::Do(t[2..].parse().unwrap())),
                t => self.g(t.replace('_', " ")),
            }
        }
    }
}

fn page_fonts(r: &mut Rng) -> Vec<(u32, Font)> {
    let big = r.chance(1, 8);
    let m = rand_cmap(r, big);
    let mut f = match r.below(10) {
        0..=5 => vec![(1, Font::Win), (2, m)],
        6..=8 => vec![(1, m), (2, Font::Win)],
        _ => vec![(1, m), (2, rand_cmap(r, false))],
    };
    if r.chance(1, 6) {
        f.push((3, Font::Win))
    }
    f
}
/// fonts of a form: usually its own dictionary where /F1 is a DIFFERENT font than on the page
fn form_fonts(r: &mut Rng, page: &[(u32, Font)]) -> Vec<(u32, Font)> {
    match r.below(4) {
        0 => page[..2].to_vec(),
        1 => vec![(1, page[1].1.clone()), (2, page[0].1.clone())],
        2 => vec![(1, if matches!(page[0].1, Font::Win) { rand_cmap(r, false) } else { Font::Win })],
        _ => vec![(1, rand_cmap(r, false)), (4, Font::Win)],
    }
}
/// a form XObject with `shows` show operators; `child` = object of a form it paints as /X1
fn make_form(r: &mut Rng, id: u32, fonts: Vec<(u32, Font)>, child: Option<u32>, shows: usize, budget: i64) -> Form {
    let mut g = G::new(r, &fonts, budget);
    g.y = 500 - (id as i64 % 10) * 40;
    g.seq("BT font place nb");
    for _ in 1..shows {
        g.seqp(&["show", "show", "geom show"])
    }
    g.seq("ET");
    let mut res = Res { fonts, forms: vec![] };
    if let Some(c) = child {
        res.forms.push((1, c));
        g.seqp(&["Do1", "Do1", "q 1_0_0_1_10_-20_cm Do1 Q", "Do1 blk"]);
    }
    let matrix = match g.r.below(4) {
        0 => Some("1 0 0 1 20 -30".to_string()),
        1 => Some(g.r.pick(&["0.5 0 0 0.5 100 100", "0 1 -1 0 400 100", "-1 0 0 1 600 0", "2 0 0 2 0 0"]).to_string()),
        _ => None,
    };
    Form { id, ops: g.ops, res, matrix }
}

/// page number `i` of a run; the number of codes the page may show is halved `shrink` times (retry
/// after the Coq case came out too large)
pub fn page(r: &mut Rng, i: usize, shrink: u32) -> Page {
    let fonts = page_fonts(r);
    let mut g = G::new(r, &fonts, 0);
    let mut store: Vec<Form> = vec![];
    let mut forms: Vec<(u32, u32)> = vec![];
    let class = if g.r.chance(8, 100) { "odd" } else { ["plain", "state", "forms", "marked", "overlap", "hyphen", "geometry", "blank"][i % 8] };
    g.budget = match class {
        "forms" => 12,
        "overlap" | "geometry" | "plain" => 16,
        "state" | "hyphen" => 20,
        _ => 24,
    } >> shrink;
    let mut form = |g: &mut G, store: &mut Vec<Form>, id: u32, child: Option<u32>, shows: usize| {
        let ff = form_fonts(&mut g.r, &fonts);
        let b = (2 + 2 * shows as i64).min(g.budget / 2).max(1);
        g.budget -= b;
        store.push(make_form(&mut g.r, id, ff, child, shows, b))
    };
    match class {
        "plain" => {
            for _ in 0..g.r.range(1, 3) {
                let n = g.r.range(1, 4) as usize;
                g.block(n)
            }
        }
        "state" => g.seqp(&[
            "BT fa place show q fb show Q geom show ET",                         // font changed inside q..Q in one text object
            "BT fa place show q fb show q fa geom show Q show Q geom show ET",   // nested
            "BT fa place show ET q 1_0_0_1_0_-40_cm BT fb place show ET Q BT place show ET", // q around text objects
            "fa q q fb blk Q BT place show ET Q BT place show show ET",          // Tf outside text objects
            "blk2 q blk q blk Q BT place show ET Q BT place show ET",
            "BT fwin place show q fmap show Q show fmap show ET",                // both kinds
        ]),
        "forms" => {
            let depth = g.r.range(1, 4) as u32; // chain 20 -> 21 -> ..
            for d in (0..depth).rev() {
                form(&mut g, &mut store, 20 + d, if d + 1 < depth { Some(21 + d) } else { None }, if depth > 2 { 1 } else { 2 })
            }
            forms.push((1, 20));
            g.seqp(&["blk Do1 BT place show ET", "blk q 1_0_0_1_0_-100_cm Do1 Q BT place show ET", "Do1 blk2"]);
            match g.r.below(3) {
                0 => g.seq("Do1"), // painted twice
                1 if depth <= 2 => {
                    form(&mut g, &mut store, 30, None, 2);
                    forms.push((2, 30));
                    g.seq("Do2 blk")
                }
                _ => {}
            }
        }
        "marked" => {
            let v = *g.r.pick(&[
                "BT font place art show EMC P geom show show EMC ET",            // artifact, MCID paragraph
                "BT font place show span nb EMC show ET",                        // ActualText around one show
                "BT font place show span nb geom show font show EMC show ET",    // .. around several
                "BT font place span nb art show EMC show EMC show ET",           // artifact inside a span
                "BT font place art show span nb EMC EMC show ET",                // span inside an artifact
                "blk span Do1 EMC blk",                                          // span containing a form
                "P BT font place show span nb EMC ET EMC art blk EMC BT place show ET", // around text objects
                "art Do1 EMC BT font place span nb EMC span nb EMC ET",          // artifact form, two spans in a row
                "BT font place art show EMC show art show EMC ET span blk EMC",
            ]);
            if v.contains("Do1") {
                form(&mut g, &mut store, 20, None, 2);
                forms.push((1, 20))
            }
            g.seq(v)
        }
        "overlap" => {
            g.seq("BT font");
            let (n, n2) = (g.len(), g.len());
            let (s1, s2) = (g.nonblank(n), g.nonblank(n2));
            match g.r.below(5) {
                0 => {
                    for _ in 0..2 {
                        g.g("1 0 0 1 100 700 Tm");
                        g.tj(s1.clone())
                    }
                }
                1 => {
                    g.g("1 0 0 1 100 700 Tm");
                    g.tj(s1);
                    g.g("1 0 0 1 100 700 Tm");
                    g.tj(s2)
                }
                2 => {
                    let (a, b, x) = (g.nonblank(6), g.nonblank(5), g.r.range(103, 130));
                    g.g("1 0 0 1 100 700 Tm");
                    g.tj(a);
                    g.g(format!("1 0 0 1 {x} 700 Tm"));
                    g.tj(b);
                    g.g("1 0 0 1 101 700.5 Tm");
                    g.tj(s2)
                }
                3 => {
                    for k in 0..g.r.range(3, 6) {
                        g.g(format!("1 0 0 1 {} 650 Tm", 460 - 70 * k as i64)); // one line, right to left
                        g.seq("show")
                    }
                }
                _ => {
                    for row in 0..g.r.range(2, 4) {
                        for x in [72, 320] {
                            g.g(format!("1 0 0 1 {x} {} Tm", 700 - 14 * row as i64)); // two columns, row by row
                            g.seq("show")
                        }
                    }
                }
            }
            g.seqp(&["ET", "ET", "ET blk"])
        }
        "hyphen" => {
            g.seqp(&["BT fwin 14_TL 72_700_Td", "BT fwin 14_TL 72_700_Td", "BT font 14_TL 72_700_Td"]);
            for _ in 0..g.r.range(1, 4) {
                let b = match g.r.below(6) {
                    0 => g.hyphen_end(1),
                    1 => [g.hyphen_end(1), g.hyphen_end(1)].concat(),
                    _ => {
                        let n = g.len().max(2);
                        g.hyphen_end(n)
                    }
                };
                g.tj(b);
                let n = g.len();
                let (c, l) = (g.nonblank(n), g.lit());
                match g.r.below(4) {
                    0 => {
                        g.g("0 -14 Td");
                        g.tj(c)
                    }
                    1 => {
                        g.g("T*");
                        g.tj(c)
                    }
                    2 => g.push(Op::Quote(c, l)),
                    _ => {
                        g.g("1 0 0 1 72 600 Tm");
                        g.push(Op::TJ(vec![El::S(c, l)]))
                    }
                }
                if g.r.chance(1, 2) {
                    g.g("T*")
                }
            }
            g.seq("ET")
        }
        "geometry" => {
            g.seq("BT font place show");
            for _ in 0..g.r.range(2, 4) {
                match g.r.below(9) {
                    0 => g.gp(&["0 1 -1 0 300 300 Tm", "0.7071 0.7071 -0.7071 0.7071 200 200 Tm", "2 0 0 3 72 500 Tm", "-1 0 0 1 500 400 Tm", "1 0 0 -1 72 300 Tm", "1 0 0.3 1 72 200 Tm"]),
                    1 => g.gp(&["50 Tz", "200 Tz"]),
                    2 => g.gp(&["5 Ts", "-4.5 Ts"]),
                    3 => {
                        let (a, b, l) = (g.nonblank(2), g.nonblank(2), g.lit());
                        let n = g.r.pick(&["-5000", "3000", "-99999", "700", "1000.5", "-0.001"]).to_string();
                        g.push(Op::TJ(vec![El::S(a, l), El::N(n), El::S(b, false), El::N("250".into())]))
                    }
                    4 => {
                        let m = *g.r.pick(&[3u32, 7, 3, 1, 2]);
                        g.push(Op::Tr(m));
                        g.seq("show");
                        g.push(Op::Tr(0))
                    }
                    5 => {
                        let (i, s) = (g.r.below(fonts.len() as u64) as usize, *g.r.pick(&["0.01", "0.5", "1000", "4000", "0", "-12"]));
                        g.tf_size(i, s)
                    }
                    6 => {
                        g.seq("ET q");
                        g.gp(&["0 1 -1 0 612 0 cm", "0.1 0 0 0.1 0 0 cm", "-1 0 0 -1 612 792 cm", "3 0 0 3 -100 -100 cm", "1 0 0 1 100000 100000 cm"]);
                        g.seq("blk Q BT place")
                    }
                    7 => {
                        let m = *g.r.pick(&[3u32, 7]);
                        g.push(Op::Tr(m))
                    }
                    _ => g.geom(),
                }
                g.seq("show")
            }
            g.seq("ET")
        }
        "blank" => {
            g.seq("BT font place");
            for _ in 0..g.r.range(2, 5) {
                match g.r.below(5) {
                    0 => g.tj(vec![]),
                    1 => {
                        let n = g.r.range(1, 3) as usize;
                        let b = g.blanks(n);
                        g.show_bytes(b)
                    }
                    2 => {
                        let (a, b, l) = (g.blanks(1), g.codes(2), g.lit());
                        g.push(Op::TJ(vec![El::S(vec![], l), El::N("-300".into()), El::S(a, false), El::S(b, l)]))
                    }
                    3 => g.seq("geom show"),
                    _ => {
                        let b = [g.blanks(1), g.codes(2), g.blanks(1)].concat();
                        g.show_bytes(b)
                    }
                }
            }
            g.seq("ET")
        }
        _ => odd(&mut g, &mut store, &mut forms),
    }
    let ops = std::mem::take(&mut g.ops);
    let split = if g.r.chance(1, 6) && ops.len() > 2 { Some(g.r.range(1, ops.len() as u64 - 1) as usize) } else { None };
    Page { class: class.into(), res: Res { fonts, forms }, ops, store, pol: g.r.below(3) as u8, split }
}

/// deliberately outside the well-formed shape: one such feature inside an ordinary page
fn odd(g: &mut G, store: &mut Vec<Form>, forms: &mut Vec<(u32, u32)>) {
    let wf = vec![(1u32, Font::Win)];
    let v = g.r.below(15);
    match v {
        0 => g.seq("font show blk2"),                              // show outside BT
        1 => g.seq("BT place 6162 Tj font show ET"),             // show before any Tf
        2 => g.seq("BT font place show F9 0041 Tj ET"),   // Tf of a name missing from the resources
        3 => g.seq("blk"),
        4 => g.seq("blk EMC blk"),                                 // EMC closing nothing
        5 => g.seq("blk art blk"),                                 // unclosed at the end
        6 => g.seq("BT font place show span show span show EMC show EMC show ET"), // nested ActualText
        7 => g.seq("BT font place show span EMC show ET"),         // span showing nothing
        8 => {
            g.seq("BT font place show");
            g.push(Op::BDC(false, None, Some(String::new())));     // empty replacement text
            g.seq("nb EMC show ET")
        }
        9 => {
            g.seq("BT font place show span");                      // span of blanks only
            let b = g.blanks(2);
            g.tj(b);
            g.seq("EMC show ET")
        }
        10 => g.seq("BT font place show Do1 show ET"),             // Do inside a text object
        11 => g.seq("blk Do1 blk"),                                // a form that paints itself
        12 => g.seq("Do1 blk"),                                    // 13 nested forms
        13 => {
            g.seq("BT fwin place");                                // codes WinAnsi leaves undefined
            for _ in 0..2 {
                let mut b = g.nonblank(2);
                if matches!(g.font(), Font::Win) {
                    for _ in 0..g.r.range(1, 2) {
                        b.insert(g.r.below(3) as usize, *g.r.pick(WIN_UNDEF))
                    }
                }
                g.tj(b)
            }
            let c = *g.r.pick(WIN_UNDEF);
            g.tj(vec![c]);
            g.seq("ET")
        }
        _ => {
            g.seq("BT fmap place show");
            let mut b = g.nonblank(2);
            if g.r.chance(1, 2) {
                b.push(0x41)                                       // odd number of bytes
            } else {
                b.extend([0xFF, 0xFE]);                            // (almost surely) not in the CMap
                b.extend(g.nonblank(1))
            }
            g.tj(b);
            g.seq("show ET")
        }
    }
    match v {
        3 => {
            g.push(Op::Qr);                                        // Q without q
            g.block(1)
        }
        10 => {
            forms.push((1, 20));
            store.push(make_form(&mut g.r, 20, wf, None, 1, 2))
        }
        11 => {
            let mut f = make_form(&mut g.r, 20, wf, None, 1, 2);
            f.res.forms.push((1, 20));
            f.ops.push(Op::Do(1));
            forms.push((1, 20));
            store.push(f)
        }
        12 => {
            forms.push((1, 20));
            for d in 0..13u32 {
                let mut f = make_form(&mut g.r, 20 + d, wf.clone(), if d < 12 { Some(21 + d) } else { None }, 1, 1);
                f.matrix = None;
                store.push(f)
            }
        }
        _ => {}
    }
}
