//! C01 input generators: PDF skeletons with numeric slots, boundary catalogue, mutations, bombs.
//! Every input is described by a JSON `spec` from which `build` regenerates the exact bytes.
use super::Case;
use crate::util::*;
use flate2::write::ZlibEncoder;
use flate2::Compression;
use serde_json::{json, Map, Value};
use std::io::Write;

#[path = "c01_shapes.rs"]
pub mod shapes;

pub const ALL: [&str; 5] = ["strict", "default", "tolerant", "lenient", "skip"];

/// boundary catalogue of the property statement
pub fn boundary() -> Vec<i128> {
    let mut v: Vec<i128> = vec![0, 1, -1, i64::MIN as i128];
    for k in [7u32, 8, 15, 16, 31, 32, 63] {
        v.push((1i128 << k) - 1);
        v.push((1i128 << k) + 1);
    }
    v.push(1i128 << 63); // 2^63 itself: one past i64::MAX
    v.push(1i128 << 40); // the /Length 2^40 of DESIGN 5a
    v
}

fn zlib(d: &[u8]) -> Vec<u8> {
    let mut e = ZlibEncoder::new(Vec::new(), Compression::default());
    e.write_all(d).unwrap();
    e.finish().unwrap()
}

fn slot<'a>(s: &'a Map<String, Value>, k: &str, dflt: &str) -> String {
    s.get(k).and_then(|v| v.as_str()).map(|x| x.to_string()).unwrap_or_else(|| dflt.to_string())
}
fn has(s: &Map<String, Value>, k: &str) -> bool {
    s.contains_key(k)
}

struct Body {
    out: Vec<u8>,
    offs: Vec<(u32, usize)>,
}
impl Body {
    fn new() -> Self {
        Body { out: b"%PDF-1.5\n%\xE2\xE3\xCF\xD3\n".to_vec(), offs: vec![] }
    }
    fn obj(&mut self, n: u32, body: &[u8]) {
        self.offs.push((n, self.out.len()));
        self.out.extend_from_slice(format!("{} 0 obj\n", n).as_bytes());
        self.out.extend_from_slice(body);
        self.out.extend_from_slice(b"\nendobj\n");
    }
    fn off(&self, n: u32) -> usize {
        self.offs.iter().find(|(m, _)| *m == n).map(|x| x.1).unwrap_or(0)
    }
}

fn content_bytes(s: &Map<String, Value>) -> Vec<u8> {
    let lit = slot(s, "str", "Hello \\101\\7\\53 World");
    let hx = slot(s, "hexstr", "48656C6C6F");
    let extra = slot(s, "content_extra", "");
    format!("BT /F1 12 Tf 72 720 Td ({}) Tj <{}> Tj ET\n{}", lit, hx, extra).into_bytes()
}

/// object 4: the page's content stream, optionally Flate + PNG predictor with slot-driven parameters
fn content_obj(s: &Map<String, Value>) -> Vec<u8> {
    let c = content_bytes(s);
    let pred = ["predictor", "colors", "columns", "bpc"].iter().any(|k| has(s, k));
    let (dict_extra, data) = if pred || has(s, "flate") {
        // rows of (filter byte 0 + `cols` bytes); pad the content to a whole number of rows
        let cols = 16usize;
        let mut rows = vec![];
        let mut padded = c.clone();
        while padded.len() % cols != 0 {
            padded.push(b' ');
        }
        for ch in padded.chunks(cols) {
            rows.push(0u8);
            rows.extend_from_slice(ch);
        }
        let parms = format!(
            "/DecodeParms << /Predictor {} /Colors {} /Columns {} /BitsPerComponent {} >>",
            slot(s, "predictor", "12"),
            slot(s, "colors", "1"),
            slot(s, "columns", "16"),
            slot(s, "bpc", "8")
        );
        (format!("/Filter /FlateDecode {}", parms), zlib(&rows))
    } else if has(s, "filter") {
        (format!("/Filter /{}", slot(s, "filter", "ASCIIHexDecode")), unhex(&slot(s, "filter_data", "")))
    } else {
        (String::new(), c)
    };
    let len = slot(s, "length", &data.len().to_string());
    let mut b = format!("<< /Length {} {} >>\nstream\n", len, dict_extra).into_bytes();
    b.extend_from_slice(&data);
    b.extend_from_slice(b"\nendstream");
    b
}

fn catalog(s: &Map<String, Value>) -> String {
    format!("<< /Type /Catalog /Pages 2 0 R /PageLabels << /Nums [0 << /S /D /St {} >>] >> >>", slot(s, "st", "1"))
}
fn pages(s: &Map<String, Value>) -> String {
    format!("<< /Type /Pages /Kids [{}] /Count {} >>", slot(s, "kids", "3 0 R"), slot(s, "count", "1"))
}
fn page(s: &Map<String, Value>) -> String {
    format!(
        "<< /Type /Page /Parent {} /MediaBox [0 0 {} 792] /Rotate {} /Contents 4 0 R /Resources << /Font << /F1 5 0 R >> >> >>",
        slot(s, "parent", "2 0 R"),
        slot(s, "mediaw", "612"),
        slot(s, "rotate", "90")
    )
}
const FONT: &str = "<< /Type /Font /Subtype /Type1 /BaseFont /Helvetica >>";

fn classic(s: &Map<String, Value>) -> Vec<u8> {
    let mut b = Body::new();
    b.obj(1, catalog(s).as_bytes());
    b.obj(2, pages(s).as_bytes());
    b.obj(3, page(s).as_bytes());
    b.obj(4, &content_obj(s));
    b.obj(5, FONT.as_bytes());
    let xref_at = b.out.len();
    let mut o = b.out.clone();
    o.extend_from_slice(format!("xref\n{} {}\n", slot(s, "sub_first", "0"), slot(s, "sub_count", "6")).as_bytes());
    let nent: u32 = slot(s, "nent", "6").parse().unwrap_or(6);
    if has(s, "ent_hex") {
        o.extend_from_slice(&unhex(&slot(s, "ent_hex", "")));
    } else if nent > 0 {
        o.extend_from_slice(format!("{} {} f \n", slot(s, "ent_off", "0000000000"), slot(s, "ent_gen", "65535")).as_bytes());
    }
    for n in 1..nent.min(6) {
        o.extend_from_slice(format!("{:010} 00000 n \n", b.off(n)).as_bytes());
    }
    let prev = if has(s, "prev") { format!(" /Prev {}", slot(s, "prev", "0").replace("SELF", &xref_at.to_string())) } else { String::new() };
    o.extend_from_slice(format!("trailer\n<< /Size {} /Root {} 0 R{} >>\nstartxref\n{}\n%%EOF\n", slot(s, "size", "6"), slot(s, "root", "1"), prev, slot(s, "startxref", &xref_at.to_string())).as_bytes());
    o
}

fn be(v: u64, w: usize) -> Vec<u8> {
    (0..w).map(|i| (v >> (8 * (w - 1 - i))) as u8).collect()
}

/// objects 1..5 direct, object 6 = cross-reference stream (W 1 2 1 by default, unfiltered)
fn xrefstm(s: &Map<String, Value>) -> Vec<u8> {
    let mut b = Body::new();
    b.obj(1, catalog(s).as_bytes());
    b.obj(2, pages(s).as_bytes());
    b.obj(3, page(s).as_bytes());
    b.obj(4, &content_obj(s));
    b.obj(5, FONT.as_bytes());
    let at = b.out.len();
    let mut data = vec![];
    data.extend(be(0, 1));
    data.extend(be(0, 2));
    data.extend(be(255, 1));
    for n in 1..=5u32 {
        data.extend(be(1, 1));
        data.extend(be(b.off(n) as u64, 2));
        data.extend(be(0, 1));
    }
    data.extend(be(1, 1));
    data.extend(be(at as u64, 2));
    data.extend(be(0, 1));
    let index = if has(s, "index_first") || has(s, "index_count") { format!(" /Index [{} {}]", slot(s, "index_first", "0"), slot(s, "index_count", "7")) } else { String::new() };
    let prev = if has(s, "prev") { format!(" /Prev {}", slot(s, "prev", "0").replace("SELF", &at.to_string())) } else { String::new() };
    let (filt, payload) = if has(s, "xs_flate") { (" /Filter /FlateDecode".to_string(), zlib(&data)) } else { (String::new(), data) };
    let mut body = format!(
        "<< /Type /XRef /Size {} /W [{} {} {}]{} /Root 1 0 R{}{} /Length {} >>\nstream\n",
        slot(s, "size", "7"),
        slot(s, "w0", "1"),
        slot(s, "w1", "2"),
        slot(s, "w2", "1"),
        index,
        prev,
        filt,
        slot(s, "xs_length", &payload.len().to_string())
    )
    .into_bytes();
    body.extend_from_slice(&payload);
    body.extend_from_slice(b"\nendstream");
    b.obj(6, &body);
    let mut o = b.out;
    o.extend_from_slice(format!("startxref\n{}\n%%EOF\n", slot(s, "startxref", &at.to_string())).as_bytes());
    o
}

/// objects 1,2,3 inside object stream 7; 4,5 direct; 6 = xref stream with type-2 entries
fn objstm(s: &Map<String, Value>) -> Vec<u8> {
    let mut b = Body::new();
    b.obj(4, &content_obj(s));
    b.obj(5, FONT.as_bytes());
    let bodies = [catalog(s), pages(s), page(s)];
    let mut objs = String::new();
    let mut hdr = String::new();
    for (i, bd) in bodies.iter().enumerate() {
        let off = slot(s, &format!("os_off{}", i), &objs.len().to_string());
        hdr.push_str(&format!("{} {} ", i + 1, off));
        objs.push_str(bd);
        objs.push('\n');
    }
    let first = hdr.len();
    let payload = format!("{}{}", hdr, objs).into_bytes();
    let (filt, payload) = if has(s, "os_flate") { (" /Filter /FlateDecode".to_string(), zlib(&payload)) } else { (String::new(), payload) };
    let mut body = format!("<< /Type /ObjStm /N {} /First {}{} /Length {} >>\nstream\n", slot(s, "os_n", "3"), slot(s, "os_first", &first.to_string()), filt, payload.len()).into_bytes();
    body.extend_from_slice(&payload);
    body.extend_from_slice(b"\nendstream");
    b.obj(7, &body);
    let at = b.out.len();
    let mut data = vec![];
    data.extend([0u8, 0, 0, 255]);
    for i in 0..3u64 {
        data.extend(be(2, 1));
        data.extend(be(7, 2));
        data.extend(be(i, 1));
    }
    for n in [4u32, 5] {
        data.extend(be(1, 1));
        data.extend(be(b.off(n) as u64, 2));
        data.extend(be(0, 1));
    }
    data.extend(be(1, 1));
    data.extend(be(at as u64, 2));
    data.extend(be(0, 1));
    data.extend(be(1, 1));
    data.extend(be(b.off(7) as u64, 2));
    data.extend(be(0, 1));
    let index = if has(s, "index_first") || has(s, "index_count") { format!(" /Index [{} {}]", slot(s, "index_first", "0"), slot(s, "index_count", "8")) } else { String::new() };
    let mut xb = format!(
        "<< /Type /XRef /Size {} /W [{} {} {}]{} /Root 1 0 R /Length {} >>\nstream\n",
        slot(s, "size", "8"),
        slot(s, "w0", "1"),
        slot(s, "w1", "2"),
        slot(s, "w2", "1"),
        index,
        data.len()
    )
    .into_bytes();
    xb.extend_from_slice(&data);
    xb.extend_from_slice(b"\nendstream");
    b.obj(6, &xb);
    let mut o = b.out;
    o.extend_from_slice(format!("startxref\n{}\n%%EOF\n", at).as_bytes());
    o
}

pub fn skeleton(kind: &str, s: &Map<String, Value>) -> Vec<u8> {
    match kind {
        "xrefstm" => xrefstm(s),
        "objstm" => objstm(s),
        _ => classic(s),
    }
}

/// pre + unit*n + mid + unit2*n + post
pub fn expand(a: &Value) -> Vec<u8> {
    let g = |k: &str| a[k].as_str().unwrap_or("").as_bytes().to_vec();
    let n = a["n"].as_u64().unwrap_or(0) as usize;
    let mut o = g("pre");
    let u = g("unit");
    for _ in 0..n {
        o.extend_from_slice(&u);
    }
    o.extend(g("mid"));
    let u2 = g("unit2");
    for _ in 0..n {
        o.extend_from_slice(&u2);
    }
    o.extend(g("post"));
    o
}

fn mutate(base: &[u8], seed: u64, nmut: u64) -> Vec<u8> {
    let mut r = Rng::new(seed);
    let mut b = base.to_vec();
    let bnd = boundary();
    for _ in 0..nmut {
        if b.is_empty() {
            break;
        }
        match r.below(8) {
            0 => {
                let i = r.below(b.len() as u64) as usize;
                b[i] ^= 1 << r.below(8);
            }
            1 => {
                let i = r.below(b.len() as u64) as usize;
                b[i] = r.next() as u8;
            }
            2 => {
                let i = r.below(b.len() as u64) as usize;
                b.truncate(i);
            }
            3 => {
                // structure mutation: replace one integer token by a boundary integer
                let starts: Vec<usize> = (0..b.len()).filter(|&i| b[i].is_ascii_digit() && (i == 0 || !b[i - 1].is_ascii_digit())).collect();
                if !starts.is_empty() {
                    let st = *r.pick(&starts);
                    let mut en = st;
                    while en < b.len() && b[en].is_ascii_digit() {
                        en += 1;
                    }
                    let v = r.pick(&bnd).to_string();
                    b.splice(st..en, v.bytes());
                }
            }
            4 => {
                // duplicate a slice
                let i = r.below(b.len() as u64) as usize;
                let l = (r.below(64) as usize).min(b.len() - i);
                let sl = b[i..i + l].to_vec();
                let j = r.below(b.len() as u64) as usize;
                b.splice(j..j, sl);
            }
            5 => {
                // delete a slice
                let i = r.below(b.len() as u64) as usize;
                let l = (r.below(48) as usize).min(b.len() - i);
                b.drain(i..i + l);
            }
            6 => {
                // swap a delimiter
                let d = b"[]<>()/%;{}";
                let pos: Vec<usize> = (0..b.len()).filter(|&i| d.contains(&b[i])).collect();
                if !pos.is_empty() {
                    let p = *r.pick(&pos);
                    b[p] = *r.pick(&d[..]);
                }
            }
            _ => {
                // insert a keyword
                let kws: [&[u8]; 8] = [b"endobj", b"stream\n", b"endstream", b"xref\n", b"trailer", b"startxref\n", b" R ", b"obj"];
                let j = r.below(b.len() as u64) as usize;
                b.splice(j..j, r.pick(&kws).iter().copied());
            }
        }
    }
    b
}

/// whole-file bombs
fn bomb(a: &Value) -> Vec<u8> {
    let n = a["n"].as_u64().unwrap_or(1000) as usize;
    let kind = a["kind"].as_str().unwrap_or("");
    let mut s = Map::new();
    match kind {
        // nested arrays / dictionaries inside an indirect object the reader loads (the page's /Resources sibling)
        "obj_array" | "obj_dict" | "obj_semis" | "obj_comments" | "obj_parens" | "obj_ctrl" => {
            let (u, u2) = match kind {
                "obj_array" => ("[".to_string(), "]".to_string()),
                "obj_dict" => ("<</A ".to_string(), ">>".to_string()),
                "obj_semis" => (";".to_string(), String::new()),
                "obj_comments" => ("%c\n".to_string(), String::new()),
                "obj_parens" => ("(".to_string(), ")".to_string()),
                _ => ("\u{1}".to_string(), String::new()),
            };
            let mid = if kind == "obj_parens" { "x" } else { " 1 " };
            let mut body = String::from("<< /Type /Font /Subtype /Type1 /BaseFont /Helvetica /X ");
            body.push_str(&u.repeat(n));
            body.push_str(mid);
            body.push_str(&u2.repeat(n));
            body.push_str(" >>");
            // classic skeleton with object 5 replaced
            let mut b = Body::new();
            b.obj(1, catalog(&s).as_bytes());
            b.obj(2, pages(&s).as_bytes());
            b.obj(3, page(&s).as_bytes());
            b.obj(4, &content_obj(&s));
            b.obj(5, body.as_bytes());
            let at = b.out.len();
            let mut o = b.out.clone();
            o.extend_from_slice(b"xref\n0 6\n0000000000 65535 f \n");
            for k in 1..=5u32 {
                o.extend_from_slice(format!("{:010} 00000 n \n", b.off(k)).as_bytes());
            }
            o.extend_from_slice(format!("trailer\n<< /Size 6 /Root 1 0 R >>\nstartxref\n{}\n%%EOF\n", at).as_bytes());
            o
        }
        // the same units in the trailer dictionary
        "trailer_array" => {
            let mut o = classic(&s);
            let t = String::from_utf8_lossy(&o).to_string();
            let t = t.replace("/Root 1 0 R", &format!("/Root 1 0 R /X {} 1 {}", "[".repeat(n), "]".repeat(n)));
            o = t.into_bytes();
            o
        }
        // content-stream repetition bombs
        "content_rparen" | "content_semis" | "content_braces" | "content_q" | "content_lparen" | "content_array" | "content_dict" => {
            let extra = match kind {
                "content_rparen" => ")".repeat(n),
                "content_semis" => ";".repeat(n),
                "content_braces" => "{}".repeat(n),
                "content_q" => "q ".repeat(n),
                "content_lparen" => format!("{}x{} Tj", "(".repeat(n), ")".repeat(n)),
                "content_array" => format!("{}1{} TJ", "[".repeat(n), "]".repeat(n)),
                _ => format!("/P {}/A 1{} DP", "<<".repeat(n), ">>".repeat(n)),
            };
            s.insert("content_extra".into(), json!(extra));
            classic(&s)
        }
        // /Prev chains: a cycle of two sections, a self loop, and a long chain
        "prev_self" => {
            s.insert("prev".into(), json!("SELF"));
            if a["skel"].as_str() == Some("xrefstm") {
                xrefstm(&s)
            } else {
                classic(&s)
            }
        }
        "prev_cycle2" => {
            // two classic sections pointing at each other
            let mut b = Body::new();
            b.obj(1, catalog(&s).as_bytes());
            b.obj(2, pages(&s).as_bytes());
            b.obj(3, page(&s).as_bytes());
            b.obj(4, &content_obj(&s));
            b.obj(5, FONT.as_bytes());
            let mut o = b.out.clone();
            let sect = |o: &mut Vec<u8>, prev: usize| {
                let at = o.len();
                o.extend_from_slice(b"xref\n0 6\n0000000000 65535 f \n");
                for k in 1..=5u32 {
                    o.extend_from_slice(format!("{:010} 00000 n \n", b.off(k)).as_bytes());
                }
                o.extend_from_slice(format!("trailer\n<< /Size 6 /Root 1 0 R /Prev {:>10} >>\n", prev).as_bytes());
                at
            };
            let a1 = o.len();
            // length of one section is fixed: compute by emitting once into a scratch buffer
            let mut scratch = vec![];
            sect(&mut scratch, 0);
            let a2 = a1 + scratch.len();
            sect(&mut o, a2);
            let at2 = sect(&mut o, a1);
            o.extend_from_slice(format!("startxref\n{}\n%%EOF\n", at2).as_bytes());
            o
        }
        "prev_chain" => {
            // n sections, each pointing at the previous one
            let mut b = Body::new();
            b.obj(1, catalog(&s).as_bytes());
            b.obj(2, pages(&s).as_bytes());
            b.obj(3, page(&s).as_bytes());
            b.obj(4, &content_obj(&s));
            b.obj(5, FONT.as_bytes());
            let mut o = b.out.clone();
            let mut prev: Option<usize> = None;
            let mut at = 0;
            for _ in 0..n.max(1) {
                at = o.len();
                o.extend_from_slice(b"xref\n0 6\n0000000000 65535 f \n");
                for k in 1..=5u32 {
                    o.extend_from_slice(format!("{:010} 00000 n \n", b.off(k)).as_bytes());
                }
                let p = prev.map(|p| format!(" /Prev {}", p)).unwrap_or_default();
                o.extend_from_slice(format!("trailer\n<< /Size 6 /Root 1 0 R{} >>\n", p).as_bytes());
                prev = Some(at);
            }
            o.extend_from_slice(format!("startxref\n{}\n%%EOF\n", at).as_bytes());
            o
        }
        // page tree: a node that is its own kid, huge /Count, a page whose /Parent loops
        "kids_cycle" => {
            s.insert("kids".into(), json!("2 0 R 3 0 R 2 0 R"));
            s.insert("count".into(), json!(n.to_string()));
            classic(&s)
        }
        // `xref` keyword followed by nothing but blank/comment lines until EOF
        "xref_eof" => {
            let mut o = b"%PDF-1.4\n1 0 obj\n<< /Type /Catalog >>\nendobj\n".to_vec();
            let at = o.len() + format!("startxref\n{:010}\n", 0).len();
            o.extend_from_slice(format!("startxref\n{:010}\n", at).as_bytes());
            o.extend_from_slice(b"xref\n");
            o.extend_from_slice("% c\n".repeat(n.min(50)).as_bytes());
            o
        }
        // flate bomb as the page content (bounded by the decoder's cap, must end in an error or a value)
        "flate_bomb" => {
            let z = zlib(&vec![b' '; n]);
            let mut b = Body::new();
            b.obj(1, catalog(&s).as_bytes());
            b.obj(2, pages(&s).as_bytes());
            b.obj(3, page(&s).as_bytes());
            let mut st = format!("<< /Length {} /Filter /FlateDecode >>\nstream\n", z.len()).into_bytes();
            st.extend_from_slice(&z);
            st.extend_from_slice(b"\nendstream");
            b.obj(4, &st);
            b.obj(5, FONT.as_bytes());
            let at = b.out.len();
            let mut o = b.out.clone();
            o.extend_from_slice(b"xref\n0 6\n0000000000 65535 f \n");
            for k in 1..=5u32 {
                o.extend_from_slice(format!("{:010} 00000 n \n", b.off(k)).as_bytes());
            }
            o.extend_from_slice(format!("trailer\n<< /Size 6 /Root 1 0 R >>\nstartxref\n{}\n%%EOF\n", at).as_bytes());
            o
        }
        _ => classic(&s),
    }
}

pub fn build(spec: &Value) -> Vec<u8> {
    let empty = Map::new();
    if let Some(b) = shapes::build_shape(spec) {
        return b;
    }
    match spec["gen"].as_str().unwrap_or("") {
        "skel" => skeleton(spec["skel"].as_str().unwrap_or("classic"), spec["slots"].as_object().unwrap_or(&empty)),
        "direct" => format!("{{\"direct\":{},\"args\":{}}}", spec["direct"], spec["args"]).into_bytes(),
        "bomb" => bomb(spec),
        "hex" => unhex(spec["hex"].as_str().unwrap_or("")),
        "random" => {
            let mut r = Rng::new(spec["seed"].as_u64().unwrap_or(0));
            let n = spec["len"].as_u64().unwrap_or(0) as usize;
            let mut b = r.bytes(n);
            if spec["header"].as_bool().unwrap_or(false) && n >= 9 {
                b[..9].copy_from_slice(b"%PDF-1.4\n");
            }
            b
        }
        "mutate" => mutate(&build(&spec["base"]), spec["seed"].as_u64().unwrap_or(0), spec["nmut"].as_u64().unwrap_or(1)),
        _ => vec![],
    }
}

fn presets_of(v: &Value) -> Vec<&'static str> {
    match v["preset"].as_str() {
        Some(p) => ALL.iter().copied().filter(|q| *q == p).collect(),
        None => ALL.to_vec(),
    }
}

pub fn case_from_json(v: &Value) -> Option<Case> {
    let mut spec = v.clone();
    let o = spec.as_object_mut()?;
    let kernel = o.remove("kernel").and_then(|k| k.as_str().map(|s| s.to_string())).unwrap_or_else(|| "KNone".into());
    let args: Vec<i128> = o.remove("kargs").and_then(|a| a.as_array().map(|a| a.iter().filter_map(|x| x.as_str().and_then(|s| s.parse().ok())).collect())).unwrap_or_default();
    let class = o.remove("class").and_then(|k| k.as_str().map(|s| s.to_string())).unwrap_or_else(|| "replay".into());
    o.remove("observed");
    let presets = presets_of(v);
    o.remove("preset");
    Some(Case { spec, kernel, args, presets, class })
}

fn skel_case(skel: &str, slots: &[(&str, String)], kernel: &str, args: Vec<i128>, class: &str) -> Case {
    let mut m = Map::new();
    for (k, v) in slots {
        m.insert(k.to_string(), json!(v));
    }
    Case { spec: json!({"gen":"skel","skel":skel,"slots":m}), kernel: kernel.into(), args, presets: ALL.to_vec(), class: class.into() }
}
fn direct_case(kind: &str, args_js: Value, kernel: &str, args: Vec<i128>, class: &str, presets: Vec<&'static str>) -> Case {
    Case { spec: json!({"gen":"direct","direct":kind,"args":args_js}), kernel: kernel.into(), args, presets, class: class.into() }
}
fn rep(kind: &str, pre: &str, unit: &str, n: u64, mid: &str, unit2: &str, post: &str) -> Value {
    let _ = kind;
    json!({"pre":pre,"unit":unit,"n":n,"mid":mid,"unit2":unit2,"post":post})
}

/// the slot table: (slot name, skeletons it exists in, kernel, position of the value among the kernel's args + defaults)
fn slot_cases(out: &mut Vec<Case>, thorough: bool) {
    let bnd = boundary();
    let s = |v: i128| v.to_string();
    for &v in &bnd {
        // classic subsection header: `first count`; the kernel sees (first, count, entries present = 6)
        if v >= 0 {
            out.push(skel_case("classic", &[("sub_first", s(v))], "KXrefSub", vec![v, 6, 6], "slot:sub_first"));
            out.push(skel_case("classic", &[("sub_count", s(v))], "KXrefSub", vec![0, v, 6], "slot:sub_count"));
            out.push(skel_case("classic", &[("sub_first", s(v)), ("sub_count", "1".into())], "KXrefSub", vec![v, 1, 6], "slot:sub_first+count1"));
            out.push(skel_case("classic", &[("sub_first", s(v)), ("sub_count", "2".into())], "KXrefSub", vec![v, 2, 6], "slot:sub_first+count2"));
        } else {
            out.push(skel_case("classic", &[("sub_first", s(v))], "KNone", vec![], "slot:sub_first"));
        }
        for sk in ["classic", "xrefstm", "objstm"] {
            out.push(skel_case(sk, &[("size", s(v))], "KSize", vec![v], "slot:size"));
        }
        for sk in ["classic", "xrefstm"] {
            out.push(skel_case(sk, &[("prev", s(v))], "KPrev", vec![v], "slot:prev"));
        }
        // xref stream /W and /Index (data length of the skeleton's table: 28 bytes xrefstm, 32 objstm)
        for (i, w) in ["w0", "w1", "w2"].iter().enumerate() {
            let mut a = vec![1, 2, 1, 0, 7, 7, 28];
            a[i] = v;
            out.push(skel_case("xrefstm", &[(w, s(v))], "KXrefStm", a, "slot:W"));
        }
        out.push(skel_case("xrefstm", &[("w0", s(v)), ("w1", s(v)), ("w2", s(v))], "KXrefStm", vec![v, v, v, 0, 7, 7, 28], "slot:W3"));
        out.push(skel_case("xrefstm", &[("index_first", s(v))], "KXrefStm", vec![1, 2, 1, v, 7, 7, 28], "slot:index_first"));
        out.push(skel_case("xrefstm", &[("index_first", s(v)), ("index_count", "2".into())], "KXrefStm", vec![1, 2, 1, v, 2, 7, 28], "slot:index_first+count2"));
        out.push(skel_case("xrefstm", &[("index_count", s(v))], "KXrefStm", vec![1, 2, 1, 0, v, 7, 28], "slot:index_count"));
        out.push(skel_case("objstm", &[("index_first", s(v))], "KXrefStm", vec![1, 2, 1, v, 8, 8, 32], "slot:index_first"));
        // object stream /N /First and an offset inside the header
        out.push(skel_case("objstm", &[("os_n", s(v))], "KObjStm", vec![v, 14, 0], "slot:N"));
        out.push(skel_case("objstm", &[("os_first", s(v))], "KObjStm", vec![3, v, 100], "slot:First"));
        out.push(skel_case("objstm", &[("os_off1", s(v))], "KObjStm", vec![3, 14, v], "slot:objstm_offset"));
        out.push(skel_case("objstm", &[("os_first", s(v)), ("os_off1", s(v))], "KObjStm", vec![3, v, v], "slot:First+offset"));
        // stream /Length (content stream and xref stream)
        for sk in ["classic", "xrefstm", "objstm"] {
            out.push(skel_case(sk, &[("length", s(v))], "KLength", vec![v, 400], "slot:Length"));
        }
        out.push(skel_case("xrefstm", &[("xs_length", s(v))], "KLength", vec![v, 60], "slot:Length_xrefstm"));
        // predictor parameters (5 rows of 17 bytes = 85 bytes of filtered data)
        out.push(skel_case("classic", &[("predictor", s(v))], "KPredictor", vec![16, 1, 8, 85], "slot:Predictor"));
        out.push(skel_case("classic", &[("colors", s(v))], "KPredictor", vec![16, v, 8, 85], "slot:Colors"));
        out.push(skel_case("classic", &[("columns", s(v))], "KPredictor", vec![v, 1, 8, 85], "slot:Columns"));
        out.push(skel_case("classic", &[("bpc", s(v))], "KPredictor", vec![16, 1, v, 85], "slot:BitsPerComponent"));
        out.push(skel_case("xrefstm", &[("colors", s(v)), ("columns", s(v))], "KPredictor", vec![v, v, 8, 85], "slot:Colors+Columns"));
        // /Rotate, page label /St, /Count, MediaBox
        for sk in ["classic", "objstm"] {
            out.push(skel_case(sk, &[("rotate", s(v))], "KRotate", vec![v, 90], "slot:Rotate"));
        }
        out.push(skel_case("classic", &[("st", s(v))], "KPageLabel", vec![v, 0], "slot:St"));
        out.push(skel_case("classic", &[("count", s(v))], "KNone", vec![], "slot:Count"));
        out.push(skel_case("classic", &[("mediaw", s(v))], "KNone", vec![], "slot:MediaBox"));
        out.push(skel_case("classic", &[("startxref", s(v))], "KNone", vec![], "slot:startxref"));
        out.push(skel_case("classic", &[("ent_off", format!("{:010}", v.max(0)))], "KNone", vec![], "slot:entry_offset"));
        // kernel-level entries
        // kernel-level entries take i64 arguments (PdfObject::Integer)
        let fits_i64 = v >= i64::MIN as i128 && v <= i64::MAX as i128;
        if fits_i64 && (thorough || v.unsigned_abs() > 200 || v <= 1) {
            for (i, w) in ["w0", "w1", "w2"].iter().enumerate() {
                let mut a = vec![1i128, 2, 1, 0, 3, 3, 12];
                a[i] = v;
                let mut js = json!({"w0":"1","w1":"2","w2":"1","if":"0","ic":"3","size":"3","data":"010000000100100001002000"});
                js[*w] = json!(s(v));
                out.push(direct_case("xrefstm", js, "KXrefStmP", a, "direct:xrefstm_W", vec!["default"]));
            }
            out.push(direct_case("xrefstm", json!({"w0":"1","w1":"2","w2":"1","if":s(v),"ic":"3","size":"3","data":"010000000100100001002000"}), "KXrefStmP", vec![1, 2, 1, v, 3, 3, 12], "direct:xrefstm_index", vec!["default"]));
            out.push(direct_case("xrefstm", json!({"w0":"1","w1":"2","w2":"1","if":"0","ic":s(v),"size":"3","data":"010000000100100001002000"}), "KXrefStmP", vec![1, 2, 1, 0, v, 3, 12], "direct:xrefstm_count", vec!["default"]));
            out.push(direct_case("xrefstm", json!({"w0":"1","w1":"2","w2":"1","size":s(v),"data":"010000000100100001002000"}), "KXrefStmP", vec![1, 2, 1, 0, (v as i64 as u32) as i128, v, 12], "direct:xrefstm_size", vec!["default"]));
            out.push(direct_case("objstm", json!({"n":"2","first":s(v),"data":hex(b"1 0 2 3 10 20 ")}), "KObjStm", vec![2, v, 3], "direct:objstm_first", vec!["default", "tolerant"]));
            out.push(direct_case("objstm", json!({"n":s(v),"first":"8","data":hex(b"1 0 2 3 10 20 ")}), "KObjStm", vec![v, 8, 3], "direct:objstm_n", vec!["default", "tolerant"]));
            for f in ["colors", "columns", "bpc"] {
                let mut js = json!({"filter":"FlateDecode","predictor":"12","colors":"1","columns":"4","bpc":"8","data":hex(&zlib(&[0,1,2,3,4,0,5,6,7,8]))});
                js[f] = json!(s(v));
                let a = match f {
                    "colors" => vec![4, v, 8, 10],
                    "columns" => vec![v, 1, 8, 10],
                    _ => vec![4, 1, v, 10],
                };
                out.push(direct_case("decode", js, "KPredictor", a, "direct:predictor", vec!["default", "tolerant"]));
            }
        }
    }
    // octal and hex escapes (every 1..3 digit octal boundary, odd hex digits, non-hex)
    for e in ["\\0", "\\7", "\\77", "\\377", "\\400", "\\777", "\\7777", "\\8", "\\", "\\\\\\", "\\377\\400\\777\\1\\18"] {
        let v = e.trim_start_matches('\\').chars().take(3).take_while(|c| ('0'..='7').contains(c)).collect::<String>();
        let z = i128::from_str_radix(if v.is_empty() { "0" } else { &v }, 8).unwrap_or(0);
        out.push(skel_case("classic", &[("str", format!("a{}b", e))], "KOctal", vec![z], "slot:octal"));
        out.push(direct_case("content", json!({"pre": format!("BT (a{}b) Tj ET", e)}), "KOctal", vec![z], "direct:octal_content", vec!["default"]));
        out.push(direct_case("object", json!({"pre": format!("(a{}b)", e)}), "KOctal", vec![z], "direct:octal_lexer", vec!["default", "tolerant"]));
    }
    for h in ["", "4", "4G", "FFF", "zz", "48 65 6C", "4865>>", "<48"] {
        out.push(skel_case("classic", &[("hexstr", h.to_string())], "KNone", vec![], "slot:hexstr"));
        out.push(direct_case("content", json!({"pre": format!("BT <{}> Tj ET", h)}), "KNone", vec![], "direct:hex_content", vec!["default"]));
    }
}

fn png(width: u32, height: u32, depth: u8, ctype: u8, raw: &[u8]) -> Vec<u8> {
    fn chunk(o: &mut Vec<u8>, t: &[u8; 4], d: &[u8]) {
        o.extend_from_slice(&(d.len() as u32).to_be_bytes());
        o.extend_from_slice(t);
        o.extend_from_slice(d);
        o.extend_from_slice(&[0, 0, 0, 0]); // CRC (not checked by the decoder)
    }
    let mut o = vec![0x89, b'P', b'N', b'G', 0x0D, 0x0A, 0x1A, 0x0A];
    let mut ih = vec![];
    ih.extend_from_slice(&width.to_be_bytes());
    ih.extend_from_slice(&height.to_be_bytes());
    ih.extend_from_slice(&[depth, ctype, 0, 0, 0]);
    chunk(&mut o, b"IHDR", &ih);
    chunk(&mut o, b"IDAT", &zlib(raw));
    chunk(&mut o, b"IEND", &[]);
    o
}

fn kernel_witness_cases(out: &mut Vec<Case>) {
    // the witnesses of the refuted (pre-fix) kernels, through the public entry that reaches each
    out.push(skel_case("classic", &[("sub_first", "4294967295".into()), ("sub_count", "2".into())], "KXrefSub", vec![4294967295, 2, 6], "witness:xref_first_plus_i"));
    out.push(skel_case("classic", &[("sub_first", "4294967295".into()), ("sub_count", "1".into()), ("nent", "1".into())], "KXrefSub", vec![4294967295, 1, 1], "witness:xref_max_plus_1"));
    // a non-ASCII byte inside an entry line: the lossy conversion puts a 3-byte U+FFFD across the fixed positions
    for pos in [9usize, 10, 14, 15, 16, 17] {
        let mut l = b"0000000000 65535 f \n".to_vec();
        l[pos] = 0xE9;
        out.push(skel_case("classic", &[("ent_hex", hex(&l))], "KStrSlice", vec![pos as i128], "witness:xref_entry_char_boundary"));
    }
    out.push(skel_case("xrefstm", &[("w0", "-1".into()), ("w1", "-1".into()), ("w2", "-1".into())], "KXrefStm", vec![-1, -1, -1, 0, 7, 7, 28], "witness:W_sum"));
    out.push(skel_case("xrefstm", &[("w0", "9223372036854775807".into()), ("w1", "9223372036854775807".into()), ("w2", "2".into())], "KXrefStm", vec![i64::MAX as i128, i64::MAX as i128, 2, 0, 7, 7, 28], "witness:W_sum"));
    out.push(skel_case("xrefstm", &[("index_first", "4294967295".into()), ("index_count", "2".into())], "KXrefStm", vec![1, 2, 1, 4294967295, 2, 7, 28], "witness:index_first_plus_i"));
    out.push(skel_case("objstm", &[("os_first", "4294967295".into())], "KObjStm", vec![3, 4294967295, 1], "witness:objstm_first_plus_offset"));
    out.push(skel_case("objstm", &[("os_first", "4294967295".into()), ("os_off0", "1".into())], "KObjStm", vec![3, 4294967295, 1], "witness:objstm_first_plus_offset"));
    for l in ["1099511627776", "9223372036854775807", "4294967296", "2147483648"] {
        for sk in ["classic", "xrefstm"] {
            out.push(skel_case(sk, &[("length", l.to_string())], "KLength", vec![l.parse().unwrap(), 400], "witness:length_alloc"));
        }
    }
    out.push(Case { spec: json!({"gen":"bomb","kind":"xref_eof","n":3}), kernel: "KNone".into(), args: vec![], presets: ALL.to_vec(), class: "witness:xref_eof_loop".into() });
    out.push(Case { spec: json!({"gen":"bomb","kind":"xref_eof","n":0}), kernel: "KNone".into(), args: vec![], presets: ALL.to_vec(), class: "witness:xref_eof_loop".into() });
    // CMap range arithmetic: 8-byte codes (carry add) and 9-byte codes (fold)
    let cm = |lo: &str, hi: &str, dst: &str| format!("begincodespacerange\n<{}> <{}>\nendcodespacerange\n1 beginbfrange\n<{}> <{}> <{}>\nendbfrange\n", lo, hi, lo, hi, dst);
    out.push(direct_case("cmap", json!({"data":hex(cm("0000000000000000","FFFFFFFFFFFFFFFF","0001").as_bytes()),"code":"ffffffffffffffff"}), "KCMap", vec![8, 0xFFFF_FFFF_FFFF_FFFF, 0, 1], "witness:cmap_carry", vec!["default"]));
    out.push(direct_case("cmap", json!({"data":hex(cm("000000000000000000","FFFFFFFFFFFFFFFFFF","0001").as_bytes()),"code":"ffffffffffffffffff"}), "KCMap", vec![9, 0xFFFF_FFFF_FFFF_FFFF, 0, 1], "witness:cmap_fold", vec!["default"]));
    out.push(direct_case("cmap", json!({"data":hex(cm("0000","FFFF","0041").as_bytes()),"code":"0102"}), "KCMap", vec![2, 0x0102, 0, 0x41], "direct:cmap_ok", vec!["default"]));
    // PNG sizing
    out.push(direct_case("png", json!({"data":hex(&png(0xFFFF_FFFF, 0xFFFF_FFFF, 8, 6, &[0; 8]))}), "KPng", vec![0xFFFF_FFFF, 0xFFFF_FFFF, 8, 4, 8], "witness:png_height_times_row", vec!["default"]));
    out.push(direct_case("png", json!({"data":hex(&png(0xFFFF_FFFF, 0x8000_0000, 255, 6, &[0; 8]))}), "KPng", vec![0xFFFF_FFFF, 0x8000_0000, 255, 4, 8], "witness:png_height_times_row", vec!["default"]));
    out.push(direct_case("png", json!({"data":hex(&png(2, 2, 8, 2, &[0, 1, 2, 3, 4, 5, 6, 0, 1, 2, 3, 4, 5, 6]))}), "KPng", vec![2, 2, 8, 3, 14], "direct:png_ok", vec!["default"]));
    // filters: LZW / RunLength / ASCII85 boundary streams
    for (f, d) in [("LZWDecode", "80ffffffffffff"), ("LZWDecode", "ffffff"), ("LZWDecode", "800b6050220c0c8501"), ("RunLengthDecode", "7f00"), ("RunLengthDecode", "81"), ("RunLengthDecode", "ff41fe4280"), ("RunLengthDecode", "8000"), ("ASCII85Decode", hex_s("uuuuu~>")), ("ASCII85Decode", hex_s("s8W-!~>")), ("ASCII85Decode", hex_s("s8W-\"~>")), ("ASCII85Decode", hex_s("zzzz~>"))] {
        out.push(direct_case("decode", json!({"filter":f,"data":d}), "KFilter", vec![], "direct:filter", vec!["default", "tolerant"]));
    }
}
fn hex_s(s: &str) -> &'static str {
    Box::leak(hex(s.as_bytes()).into_boxed_str())
}

fn bomb_cases(out: &mut Vec<Case>, thorough: bool) {
    let big: u64 = if thorough { 200_000 } else { 20_000 };
    // object-level nesting through PdfObject::parse (precise: Err beyond the depth guard, Ok below)
    for n in [1u64, 2, 50, 255, 256, 257, 499, 500, 501, 999, 1000, 1001, 5000, big] {
        for (k, u, m, u2) in [("array", "[", " 1 ", "]"), ("dict", "<</A ", " 1 ", ">>"), ("mixed", "[<</A ", " 1 ", ">>]")] {
            let lv = if k == "mixed" { 2 * n } else { n };
            out.push(direct_case("object", rep(k, "", u, n, m, u2, ""), "KNestP", vec![lv as i128], &format!("bomb:nest_{}", k), vec!["default", "tolerant"]));
        }
        // unbalanced: opening brackets only
        out.push(direct_case("object", rep("open", "", "[", n, "", "", ""), "KNestOpen", vec![n as i128], "bomb:nest_open", vec!["default", "tolerant"]));
    }
    for n in [1u64, 100, 10_000, big, 10 * big] {
        // lexer skip runs: `;` (all presets), control and 0x80.. bytes (lenient skip / encoding recovery), comments
        for (k, u) in [("semis", ";"), ("ctrl", "\u{1}"), ("excl", "!"), ("comments", "%c\n")] {
            out.push(direct_case("object", rep(k, "", u, n, " 42 ", "", ""), "KLexRun", vec![n as i128], &format!("bomb:lexer_{}", k), vec!["strict", "default", "tolerant", "skip"]));
            out.push(direct_case("tokens", rep(k, "", u, n, " 42 ", "", ""), "KLexRun", vec![n as i128], &format!("bomb:tokens_{}", k), vec!["default", "tolerant"]));
        }
        out.push(direct_case("object", rep("parens", "", "(", n, "x", ")", ""), "KLexRun", vec![n as i128], "bomb:string_parens", vec!["default", "tolerant"]));
        // content tokenizer runs
        for (k, u) in [("rparen", ")"), ("semis", ";"), ("braces", "{}"), ("rbrace", "}"), ("excl", "!")] {
            out.push(direct_case("content", rep(k, "q ", u, n, " Q", "", ""), "KContentRun", vec![n as i128], &format!("bomb:content_{}", k), vec!["default"]));
        }
        out.push(direct_case("content", rep("array", "", "[", n, "1", "]", " TJ"), "KContentNest", vec![n as i128], "bomb:content_array", vec!["default"]));
        out.push(direct_case("content", rep("dict", "/P ", "<<", n, "/A 1", ">>", " DP"), "KContentNest", vec![n as i128], "bomb:content_dict", vec!["default"]));
        out.push(direct_case("content", rep("q", "", "q ", n, "", "Q ", ""), "KNone", vec![], "bomb:content_q", vec!["default"]));
    }
    // whole-file bombs
    for (kind, ns) in [
        ("obj_array", vec![300u64, 2000, big]),
        ("obj_dict", vec![300, 2000, big]),
        ("obj_semis", vec![10_000, 10 * big]),
        ("obj_comments", vec![10_000, big]),
        ("obj_parens", vec![10_000, big]),
        ("obj_ctrl", vec![10_000, big]),
        ("trailer_array", vec![300, 2000, big]),
        ("content_rparen", vec![1000, 100 * big]),
        ("content_semis", vec![1000, 10 * big]),
        ("content_braces", vec![1000, 10 * big]),
        ("content_q", vec![1000, big]),
        ("content_lparen", vec![1000, big]),
        ("content_array", vec![300, big]),
        ("content_dict", vec![300, big]),
        ("prev_chain", vec![2, 50, 400]),
        ("kids_cycle", vec![3, 100_000, 4_000_000_000]),
        ("flate_bomb", vec![1 << 20, 16 << 20]),
    ] {
        for n in ns {
            let (k, a): (&str, Vec<i128>) = match kind {
                "obj_array" | "obj_dict" | "trailer_array" => ("KNest", vec![n as i128]),
                "obj_semis" | "obj_comments" | "obj_ctrl" | "obj_parens" => ("KLexRun", vec![n as i128]),
                "content_rparen" | "content_semis" | "content_braces" => ("KContentRun", vec![n as i128]),
                "content_array" | "content_dict" => ("KContentNest", vec![n as i128]),
                "prev_chain" => ("KPrevChain", vec![n as i128]),
                _ => ("KNone", vec![]),
            };
            out.push(Case { spec: json!({"gen":"bomb","kind":kind,"n":n}), kernel: k.into(), args: a, presets: ALL.to_vec(), class: format!("bomb:{}", kind) });
        }
    }
    for sk in ["classic", "xrefstm"] {
        out.push(Case { spec: json!({"gen":"bomb","kind":"prev_self","skel":sk,"n":1}), kernel: "KPrevChain".into(), args: vec![1], presets: ALL.to_vec(), class: "bomb:prev_self".into() });
    }
    out.push(Case { spec: json!({"gen":"bomb","kind":"prev_cycle2","n":2}), kernel: "KPrevChain".into(), args: vec![2], presets: ALL.to_vec(), class: "bomb:prev_cycle2".into() });
}

pub fn generate(ctx: &Ctx) -> Vec<Case> {
    let mut out = vec![];
    let th = ctx.thorough();
    kernel_witness_cases(&mut out);
    slot_cases(&mut out, th);
    bomb_cases(&mut out, th);
    let mut r = Rng::new(ctx.seed ^ 0xC01);
    shapes::shape_cases(&mut out, th, &mut r.fork());
    // valid skeletons as they are
    for sk in ["classic", "xrefstm", "objstm"] {
        out.push(skel_case(sk, &[], "KNone", vec![], "valid"));
        out.push(skel_case(sk, &[("flate", "1".into())], "KNone", vec![], "valid"));
    }
    out.push(skel_case("xrefstm", &[("xs_flate", "1".into())], "KNone", vec![], "valid"));
    out.push(skel_case("objstm", &[("os_flate", "1".into())], "KNone", vec![], "valid"));
    // byte and structure mutations of valid files
    let nmut = if th { 2400 } else { 420 };
    for i in 0..nmut {
        let sk = ["classic", "xrefstm", "objstm"][i % 3];
        let mut slots = Map::new();
        if i % 4 == 1 {
            slots.insert("flate".into(), json!("1"));
        }
        if i % 5 == 2 && sk == "xrefstm" {
            slots.insert("xs_flate".into(), json!("1"));
        }
        if i % 5 == 3 && sk == "objstm" {
            slots.insert("os_flate".into(), json!("1"));
        }
        let base = json!({"gen":"skel","skel":sk,"slots":slots});
        let spec = json!({"gen":"mutate","base":base,"seed":r.next() >> 12,"nmut":1 + r.below(4)});
        // two presets per mutant (rotating), all five on every 8th
        let presets: Vec<&'static str> = if i % 8 == 0 { ALL.to_vec() } else { vec![ALL[i % 5], ALL[(i / 5 + 2) % 5]] };
        out.push(Case { spec, kernel: "KNone".into(), args: vec![], presets, class: "mutation".into() });
    }
    // plain random bytes, with and without a header
    let nrand = if th { 600 } else { 120 };
    for i in 0..nrand {
        let len = [0u64, 1, 8, 64, 300, 1024, 1025, 5000, 70_000][i % 9] + r.below(7);
        let spec = json!({"gen":"random","seed":r.next() >> 12,"len":len,"header":i % 2 == 0});
        out.push(Case { spec, kernel: "KNone".into(), args: vec![], presets: vec![ALL[i % 5], ALL[(i + 2) % 5]], class: "random".into() });
    }
    out
}
