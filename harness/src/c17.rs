//! C17 — incremental updates are append-only and take effect.
//! fin: IncrementalUpdate::finish driven through the hook `verif_incremental_finish` over raw
//!      bases (classic / xref-stream / object-stream, with and without a final EOL) and
//!      library-written bases; output compared byte for byte with the Gallina `finish`, prefix
//!      and re-read checked by the spec predicate.
//! api: public editing APIs (form fill, text notes) over library-written bases in several
//!      WriterConfigs, histories of 1..K edits; prefix / structure / re-read after every edit.
use crate::c04::rawpdf::*;
use crate::c04::{options, read_all, res_coq, Res, AUX, OBJ0};
use crate::util::*;
use oxidize_pdf::forms::{FormManager, TextField, Widget, WidgetAppearance};
use oxidize_pdf::geometry::{Point, Rectangle};
use oxidize_pdf::parser::objects::PdfObject;
use oxidize_pdf::parser::PdfReader;
use oxidize_pdf::writer::{IncrementalFormFiller, IncrementalTextNoteEditor, TextNoteId, TextNoteMutation, WriterConfig};
use oxidize_pdf::{Document, Font, Page};
use serde_json::{json, Value};
use std::collections::BTreeMap;
use std::io::Cursor;

// ------------------------------------------------------------------ helpers
fn last_startxref(b: &[u8]) -> Option<u64> {
    let p = rfind(b, b"startxref")?;
    let s: String = b[p + 9..].iter().map(|c| *c as char).skip_while(|c| c.is_whitespace()).take_while(|c| c.is_ascii_digit()).collect();
    s.parse().ok()
}

/// Minimal independent reading of an appended classic revision: returns the rewritten
/// (number, generation, offset) triples when the tail is structurally what ISO 32000-1 7.5.6 asks.
fn parse_tail(prev_file: &[u8], out: &[u8]) -> Option<Vec<(u32, u16, u64)>> {
    if !out.ends_with(b"\n%%EOF\n") {
        return None;
    }
    let x = last_startxref(out)? as usize;
    if x < prev_file.len() || !out[x..].starts_with(b"xref\n") {
        return None;
    }
    let text = String::from_utf8_lossy(&out[x + 5..]).into_owned();
    let mut res = vec![];
    let mut lines = text.split('\n');
    let mut trailer = String::new();
    while let Some(l) = lines.next() {
        if l == "trailer" {
            trailer = lines.next()?.to_string();
            break;
        }
        let mut it = l.split(' ');
        let first: u32 = it.next()?.parse().ok()?;
        let count: u32 = it.next()?.parse().ok()?;
        for i in 0..count {
            let e = lines.next()?;
            if e.len() != 19 || !e.ends_with(" n ") {
                return None;
            }
            let off: u64 = e[0..10].parse().ok()?;
            let gen: u16 = e[11..16].parse().ok()?;
            let n = first + i;
            if (off as usize) < prev_file.len() || !out[off as usize..].starts_with(format!("{} {} obj", n, gen).as_bytes()) {
                return None;
            }
            res.push((n, gen, off));
        }
    }
    let prev = last_startxref(prev_file)?;
    if !trailer.contains(&format!("/Prev {} ", prev)) || !trailer.contains("/Root ") || !trailer.contains("/Size ") {
        return None;
    }
    Some(res)
}

/// order-independent rendering of a parsed object (dictionaries are hash maps)
fn canon(o: &PdfObject) -> String {
    match o {
        PdfObject::Dictionary(d) => {
            let mut v: Vec<String> = d.0.iter().map(|(k, v)| format!("/{} {}", k.0, canon(v))).collect();
            v.sort();
            format!("<<{}>>", v.join(" "))
        }
        PdfObject::Array(a) => format!("[{}]", a.0.iter().map(canon).collect::<Vec<_>>().join(" ")),
        PdfObject::Stream(s) => format!("stream {} {}", canon(&PdfObject::Dictionary(s.dict.clone())), hex(&s.data)),
        other => format!("{:?}", other),
    }
}

fn obj_dump(bytes: &[u8], upto: u32) -> Option<Vec<String>> {
    let b = bytes.to_vec();
    catch(std::panic::AssertUnwindSafe(move || {
        let mut rd = PdfReader::new(Cursor::new(b)).ok()?;
        Some((1..upto).map(|n| match rd.get_object(n, 0) { Ok(o) => canon(o), Err(e) => format!("ERR {e}") }).collect::<Vec<_>>())
    }))
    .ok()
    .flatten()
}

// ------------------------------------------------------------------ channel fin
#[derive(Clone)]
struct FinStep {
    fresh: u64,
    repl: Vec<u32>,
}
fn fin_base(spec: &Value) -> Option<(Vec<u8>, BTreeMap<u32, u64>, Vec<u32>)> {
    // returns bytes, generation to use per object, object numbers worth querying
    match spec["kind"].as_str().unwrap_or("raw") {
        "raw" => {
            let revs: Vec<RevSpec> = spec["revs"].as_array()?.iter().map(crate::c04::rev_from).collect();
            let b = build(&revs, AUX);
            let mut bytes = b.buf.clone();
            match spec["tail"].as_str().unwrap_or("n") {
                "none" => {
                    bytes.pop();
                }
                "cr" => {
                    bytes.pop();
                    bytes.push(b'\r');
                }
                _ => {}
            }
            let objs: Vec<u32> = (0..4).map(|i| OBJ0 + i).collect();
            Some((bytes, b.live_gen.clone(), objs))
        }
        _ => {
            let cfg = lib_config(spec["cfg"].as_u64().unwrap_or(0));
            let mut doc = Document::new();
            doc.set_title("base");
            let mut page = Page::a4();
            page.text().set_font(Font::Helvetica, 12.0).at(50.0, 700.0).write("base text").ok()?;
            doc.add_page(page);
            let bytes = doc.to_bytes_with_config(cfg).ok()?;
            Some((bytes, BTreeMap::new(), vec![]))
        }
    }
}
fn lib_config(i: u64) -> WriterConfig {
    match i % 4 {
        0 => WriterConfig::default(),
        1 => WriterConfig::legacy(),
        2 => WriterConfig::modern(),
        _ => {
            let mut c = WriterConfig::default();
            c.use_xref_streams = true;
            c.pdf_version = "1.5".into();
            c
        }
    }
}

fn upd_coq(prev: u64, root: (u32, u16), orig: u32, next: u32, id: &Option<(Vec<u8>, Vec<u8>)>, objs: &[(u32, u16, Vec<u8>)]) -> String {
    format!(
        "{{| u_prev := {}; u_root := ({}, {}); u_orig_size := {}; u_next_id := {}; u_id := {}; u_objs := {} |}}",
        prev,
        root.0,
        root.1,
        orig,
        next,
        match id {
            Some((a, b)) => format!("Some ({}, {})", coq_bytes(a), coq_bytes(b)),
            None => "None".into(),
        },
        coq_list(objs.iter().map(|(n, g, b)| format!("({}, {}, {})", n, g, coq_bytes(b))))
    )
}

fn second_id(out: &[u8]) -> Option<Vec<u8>> {
    let p = rfind(out, b"/ID [<")?;
    let rest = &out[p + 6..];
    let q = find(rest, b"> <")?;
    let rest2 = &rest[q + 3..];
    let e = find(rest2, b">")?;
    Some(unhex(std::str::from_utf8(&rest2[..e]).ok()?))
}

fn run_fin(out: &mut Out, base_spec: &Value, steps: &[FinStep], class: &str) {
    let Some((mut cur, gens, mut qobjs)) = fin_base(base_spec) else {
        out.count("base_not_built");
        return;
    };
    let opts = options("new");
    for (si, st) in steps.iter().enumerate() {
        // what from_base sees
        let info = {
            let b = cur.clone();
            catch(std::panic::AssertUnwindSafe(move || {
                let rd = PdfReader::new(Cursor::new(b)).ok()?;
                let t = rd.trailer();
                let first = match t.id() {
                    Some(PdfObject::Array(a)) => a.0.first().and_then(|o| o.as_string()).map(|s| s.as_bytes().to_vec()),
                    _ => None,
                };
                Some((t.xref_offset, t.root().ok()?, t.size().ok()?, first))
            }))
            .ok()
            .flatten()
        };
        let Some((prev, root, size, first_id)) = info else {
            out.count("base_not_readable");
            return;
        };
        let val = |n: u32| (si as u64 + 1) * 100000 + n as u64;
        let fresh_ids: Vec<u32> = (0..st.fresh as u32).map(|i| size + i).collect();
        let fresh_objs: Vec<PdfObject> = fresh_ids.iter().map(|n| PdfObject::Integer(val(*n) as i64)).collect();
        // only numbers below the base /Size are "existing" objects (fresh ids start at /Size)
        let st_repl: Vec<u32> = st.repl.iter().copied().filter(|n| *n < size).collect();
        let repl: Vec<(u32, u16, PdfObject)> = st_repl.iter().map(|n| (*n, *gens.get(n).unwrap_or(&0) as u16, PdfObject::Integer(val(*n) as i64))).collect();
        let mut queries: Vec<(u32, u16)> = qobjs.iter().map(|n| (*n, *gens.get(n).unwrap_or(&0) as u16)).collect();
        for n in &fresh_ids {
            queries.push((*n, 0));
        }
        queries.sort();
        queries.dedup();
        let before = read_all(&cur, &opts, &queries);
        let base_c = cur.clone();
        let r = catch(std::panic::AssertUnwindSafe(move || oxidize_pdf::writer::verif_incremental_finish(&base_c, fresh_objs, repl)));
        let (outb, got_fresh) = match r {
            Ok(Ok(x)) => x,
            Ok(Err(e)) => {
                out.impl_failures.push(json!({"what": format!("finish failed: {e}"), "case": {"chan":"fin","base":base_spec,"steps":steps_json(&steps[..=si])}}));
                return;
            }
            Err(m) => {
                out.impl_failures.push(json!({"what": format!("panic: {m}"), "case": {"chan":"fin","base":base_spec,"steps":steps_json(&steps[..=si])}}));
                return;
            }
        };
        let after = read_all(&outb, &opts, &queries);
        let mut objs: Vec<(u32, u16, Vec<u8>)> = vec![];
        let mut newv: Vec<(u32, u64)> = vec![];
        for n in &got_fresh {
            objs.push((*n, 0, val(*n).to_string().into_bytes()));
            newv.push((*n, val(*n)));
        }
        for n in &st_repl {
            objs.push((*n, *gens.get(n).unwrap_or(&0) as u16, val(*n).to_string().into_bytes()));
            newv.push((*n, val(*n)));
        }
        let id = first_id.map(|f| (f, second_id(&outb).unwrap_or_default()));
        let coq = format!(
            "{{| f_base := {}; f_upd := {}; f_out := {}; f_new := {}; f_queries := {} |}}",
            coq_bytes(&cur),
            upd_coq(prev, root, size, size + st.fresh as u32, &id, &objs),
            coq_bytes(&outb),
            coq_list(newv.iter().map(|(n, v)| format!("({n}, {v})"))),
            coq_list(queries.iter().zip(before.iter().zip(&after)).map(|(q, (b, a))| format!("({}, {}, {})", q.0, res_coq(b), res_coq(a))))
        );
        let js = json!({"chan":"fin","base":base_spec,"steps":steps_json(&steps[..=si]),
                        "after": after.iter().map(|r| match r { Res::Err(m) => format!("Err({m})"), o => res_coq(o) }).collect::<Vec<_>>()});
        out.push(coq, js, class, !st_repl.is_empty());
        for n in got_fresh {
            qobjs.push(n);
        }
        cur = outb;
    }
}
fn steps_json(s: &[FinStep]) -> Value {
    json!(s.iter().map(|x| json!({"fresh": x.fresh, "repl": x.repl})).collect::<Vec<_>>())
}
fn steps_from(v: &Value) -> Vec<FinStep> {
    v.as_array().map(|a| a.iter().map(|x| FinStep { fresh: x["fresh"].as_u64().unwrap_or(0), repl: x["repl"].as_array().map(|r| r.iter().map(|n| n.as_u64().unwrap() as u32).collect()).unwrap_or_default() }).collect()).unwrap_or_default()
}

// ------------------------------------------------------------------ channel api
#[derive(Clone, Debug)]
enum Edit {
    Fill(Vec<(String, String)>),
    NoteAdd(String, f64, f64),
    NoteUpdate(usize, String), // index into the sorted list of live notes (modulo)
    NoteRemove(usize),
}
fn edit_json(e: &Edit) -> Value {
    match e {
        Edit::Fill(v) => json!({"fill": v.iter().map(|(a,b)| json!([a,b])).collect::<Vec<_>>()}),
        Edit::NoteAdd(c, x, y) => json!({"add": c, "x": x, "y": y}),
        Edit::NoteUpdate(i, c) => json!({"upd": i, "c": c}),
        Edit::NoteRemove(i) => json!({"rm": i}),
    }
}
fn edit_from(v: &Value) -> Edit {
    if let Some(f) = v.get("fill") {
        Edit::Fill(f.as_array().unwrap().iter().map(|p| (p[0].as_str().unwrap().to_string(), p[1].as_str().unwrap().to_string())).collect())
    } else if let Some(c) = v.get("add") {
        Edit::NoteAdd(c.as_str().unwrap().into(), v["x"].as_f64().unwrap_or(100.0), v["y"].as_f64().unwrap_or(100.0))
    } else if let Some(i) = v.get("upd") {
        Edit::NoteUpdate(i.as_u64().unwrap() as usize, v["c"].as_str().unwrap().into())
    } else {
        Edit::NoteRemove(v["rm"].as_u64().unwrap_or(0) as usize)
    }
}

/// cfg 0 default, 1 legacy, 3 xref streams (library writer); 2 / 4 hand-assembled base whose
/// AcroForm, fields and page live in an object stream (plain / Flate); 5 hand-assembled classic;
/// 6 library "modern" (xref + object streams; its /Size 1000001 makes every open take seconds)
fn api_base(cfg: u64, names: &[String]) -> Option<Vec<u8>> {
    match cfg {
        2 => return Some(build_form_base(Form::Stream { flate: false, w0zero: false }, true, names)),
        4 => return Some(build_form_base(Form::Stream { flate: true, w0zero: false }, true, names)),
        5 => return Some(build_form_base(Form::Classic, false, names)),
        _ => {}
    }
    let cfg = if cfg == 6 { 2 } else { cfg };
    let mut doc = Document::new();
    let mut page = Page::a4();
    let mut fm = FormManager::new();
    let mut y = 700.0;
    for name in names {
        let rect = Rectangle::new(Point::new(100.0, y), Point::new(300.0, y + 20.0));
        let widget = Widget::new(rect).with_appearance(WidgetAppearance::default());
        let field_ref = fm.add_text_field(TextField::new(name.as_str()), widget.clone(), None).ok()?;
        page.add_form_widget_with_ref(widget, field_ref).ok()?;
        y -= 40.0;
    }
    page.text().set_font(Font::Helvetica, 12.0).at(50.0, 750.0).write("form").ok()?;
    doc.add_page(page);
    doc.set_form_manager(fm);
    doc.to_bytes_with_config(lib_config(cfg)).ok()
}

/// field name -> raw bytes of /V, read back through the library's reader
fn read_fields(bytes: &[u8]) -> Option<Vec<(String, Option<Vec<u8>>)>> {
    let b = bytes.to_vec();
    catch(std::panic::AssertUnwindSafe(move || {
        let mut rd = PdfReader::new(Cursor::new(b)).ok()?;
        let cat = rd.catalog().ok()?.clone();
        let acro = match cat.get("AcroForm")? {
            PdfObject::Reference(n, g) => rd.get_object(*n, *g).ok()?.as_dict()?.clone(),
            PdfObject::Dictionary(d) => d.clone(),
            _ => return None,
        };
        let refs: Vec<(u32, u16)> = match acro.get("Fields")? {
            PdfObject::Array(a) => a.0.iter().filter_map(|o| o.as_reference()).collect(),
            _ => vec![],
        };
        let mut res = vec![];
        for (n, g) in refs {
            let d = rd.get_object(n, g).ok()?.as_dict()?.clone();
            let t = d.get("T").and_then(|o| o.as_string()).map(|s| String::from_utf8_lossy(s.as_bytes()).into_owned())?;
            // the value as TEXT (since the C10 repair non-ASCII values are written as UTF-16BE with BOM)
            let v = d.get("V").and_then(|o| o.as_string()).map(|s| s.to_text().into_bytes());
            res.push((t, v));
        }
        res.sort();
        Some(res)
    }))
    .ok()
    .flatten()
}
fn read_notes(bytes: &[u8]) -> Option<Vec<(TextNoteId, String)>> {
    let b = bytes.to_vec();
    catch(std::panic::AssertUnwindSafe(move || IncrementalTextNoteEditor::new(&b).notes().ok().map(|v| v.into_iter().map(|n| (n.id, n.contents)).collect::<Vec<_>>())))
        .ok()
        .flatten()
}

fn run_api(out: &mut Out, cfg: u64, names: &[String], edits: &[Edit], class: &str) {
    let Some(base) = api_base(cfg, names) else {
        out.count("api_base_not_built");
        return;
    };
    let mut cur = base;
    let mut fields: BTreeMap<String, Option<Vec<u8>>> = names.iter().map(|n| (n.clone(), None)).collect();
    let mut notes: BTreeMap<(u32, u16), String> = BTreeMap::new();
    let mut steps = vec![];
    let case_js = json!({"chan":"api","cfg":cfg,"fields":names,"edits":edits.iter().map(edit_json).collect::<Vec<_>>()});
    for e in edits {
        let live: Vec<(u32, u16)> = notes.keys().copied().collect();
        let prev = cur.clone();
        let res: Result<Result<Vec<u8>, String>, String> = match e {
            Edit::Fill(v) => {
                let pairs: Vec<(&str, &str)> = v.iter().map(|(a, b)| (a.as_str(), b.as_str())).collect();
                let r = catch(std::panic::AssertUnwindSafe(|| IncrementalFormFiller::new(&prev).fill_many(&pairs).map_err(|e| e.to_string())));
                if matches!(r, Ok(Ok(_))) {
                    for (a, b) in v {
                        fields.insert(a.clone(), Some(b.as_bytes().to_vec()));
                    }
                }
                r
            }
            Edit::NoteAdd(c, x, y) => {
                let m = [TextNoteMutation::Add { page_index: 0, position: Point::new(*x, *y), contents: c.clone() }];
                let r = catch(std::panic::AssertUnwindSafe(|| IncrementalTextNoteEditor::new(&prev).apply(&m).map_err(|e| e.to_string())));
                match r {
                    Ok(Ok(u)) => {
                        for n in &u.added_notes {
                            notes.insert((n.id.object_number, n.id.generation_number), c.clone());
                        }
                        Ok(Ok(u.pdf_bytes))
                    }
                    Ok(Err(e)) => Ok(Err(e)),
                    Err(m) => Err(m),
                }
            }
            Edit::NoteUpdate(i, c) => {
                if live.is_empty() {
                    continue;
                }
                let id = live[*i % live.len()];
                let m = [TextNoteMutation::Update { id: TextNoteId::new(id.0, id.1), position: Point::new(120.0, 130.0), contents: c.clone() }];
                let r = catch(std::panic::AssertUnwindSafe(|| IncrementalTextNoteEditor::new(&prev).apply(&m).map(|u| u.pdf_bytes).map_err(|e| e.to_string())));
                if matches!(r, Ok(Ok(_))) {
                    notes.insert(id, c.clone());
                }
                r
            }
            Edit::NoteRemove(i) => {
                if live.is_empty() {
                    continue;
                }
                let id = live[*i % live.len()];
                let m = [TextNoteMutation::Remove { id: TextNoteId::new(id.0, id.1) }];
                let r = catch(std::panic::AssertUnwindSafe(|| IncrementalTextNoteEditor::new(&prev).apply(&m).map(|u| u.pdf_bytes).map_err(|e| e.to_string())));
                if matches!(r, Ok(Ok(_))) {
                    notes.remove(&id);
                }
                r
            }
        };
        let outb = match res {
            Ok(Ok(b)) => b,
            Ok(Err(msg)) if msg.contains("must not be empty") || msg.contains("not representable in WinAnsiEncoding") => {
                // documented refusal of the input: nothing was written, the history goes on
                out.count("edit_refused_by_design");
                continue;
            }
            Ok(Err(msg)) => {
                out.impl_failures.push(json!({"what": format!("edit rejected: {msg}"), "case": case_js, "edit": edit_json(e)}));
                return;
            }
            Err(m) => {
                out.impl_failures.push(json!({"what": format!("panic: {m}"), "case": case_js, "edit": edit_json(e)}));
                return;
            }
        };
        let prefix = outb.len() >= prev.len() && outb[..prev.len()] == prev[..];
        let tail = parse_tail(&prev, &outb);
        let got_fields = read_fields(&outb);
        let got_notes = read_notes(&outb);
        let reopens = got_fields.is_some() && got_notes.is_some();
        // untouched objects
        let size_before = catch(std::panic::AssertUnwindSafe(|| PdfReader::new(Cursor::new(prev.clone())).ok().and_then(|r| r.trailer().size().ok()))).ok().flatten().unwrap_or(0);
        let upto = size_before.min(400);
        let untouched = match (&tail, obj_dump(&prev, upto), obj_dump(&outb, upto)) {
            (Some(t), Some(a), Some(b)) => (1..upto).all(|n| t.iter().any(|x| x.0 == n) || a[(n - 1) as usize] == b[(n - 1) as usize]),
            _ => false,
        };
        let kv = |name: &str, v: &Option<Vec<u8>>| format!("({}, {})", coq_bytes(name.as_bytes()), match v { Some(b) => format!("Some {}", coq_bytes(b)), None => "None".into() });
        let mut expected: Vec<String> = fields.iter().map(|(k, v)| kv(k, v)).collect();
        for (id, c) in &notes {
            expected.push(kv(&format!("note {} {}", id.0, id.1), &Some(c.as_bytes().to_vec())));
        }
        let mut actual: Vec<String> = got_fields.unwrap_or_default().iter().map(|(k, v)| kv(k, v)).collect();
        let mut gn = got_notes.unwrap_or_default();
        gn.sort_by_key(|(id, _)| (id.object_number, id.generation_number));
        for (id, c) in &gn {
            actual.push(kv(&format!("note {} {}", id.object_number, id.generation_number), &Some(c.as_bytes().to_vec())));
        }
        steps.push(format!(
            "{{| a_prefix := {}; a_reopens := {}; a_classic_tail := {}; a_expected := {}; a_actual := {}; a_untouched_same := {} |}}",
            coq_bool(prefix),
            coq_bool(reopens),
            coq_bool(tail.is_some()),
            coq_list(expected),
            coq_list(actual),
            coq_bool(untouched)
        ));
        cur = outb;
    }
    let nt = steps.len() >= 2;
    out.push(coq_list(steps), case_js, class, nt);
}

fn rand_text(r: &mut Rng, unicode: bool) -> String {
    let n = r.range(if unicode { 1 } else { 0 }, 12);
    (0..n)
        .map(|_| match r.below(if unicode { 12 } else { 9 }) {
            0 => '(',
            1 => ')',
            2 => '\\',
            3 => ' ',
            4..=7 => (b'a' + r.below(26) as u8) as char,
            8 => 'é',
            9 if !unicode => 'x',
            9 => 'Ω',
            10 => '日',
            _ => '😀',
        })
        .collect()
}

pub fn run(ctx: &Ctx) {
    let header = "From OxVerif Require Import Base.Util C04.Model C17.Model.\nSet Printing Width 1000000.";
    let replay = ctx.replay_cases();
    let thorough = ctx.thorough();
    // ---------------- fin
    let mut out = Out::new(ctx, header, "fcase", "fin_code");
    out.shard_size = 60;
    if let Some(cases) = &replay {
        for c in cases {
            if c["chan"].as_str() == Some("fin") {
                run_fin(&mut out, &c["base"], &steps_from(&c["steps"]), "replay");
            }
        }
    } else {
        let mut r = Rng::new(ctx.seed ^ 0xC17);
        let n = if thorough { 500 } else { 110 };
        for i in 0..n {
            let base_spec = if i % 6 == 5 {
                {
                    let c = [0u64, 1, 3][r.below(3) as usize];
                    json!({"kind":"lib","cfg": c})
                }
            } else {
                let k = r.range(1, 3) as usize;
                let revs = crate::c04::random_history(&mut r, 4, k, false);
                let tail = ["n", "none", "cr", "n"][r.below(4) as usize];
                json!({"kind":"raw","revs": revs.iter().map(crate::c04::rev_json).collect::<Vec<_>>(), "tail": tail})
            };
            let ksteps = r.range(1, 3);
            let steps: Vec<FinStep> = (0..ksteps)
                .map(|_| {
                    let mut repl: Vec<u32> = (0..4).filter(|_| r.chance(1, 2)).map(|j| OBJ0 + j).collect();
                    if base_spec["kind"] == "lib" {
                        repl.clear();
                    }
                    // registration order is not sorted: finish must sort
                    if r.chance(1, 2) {
                        repl.reverse();
                    }
                    let fresh = if repl.is_empty() { r.range(1, 2) } else { r.range(0, 2) };
                    FinStep { fresh, repl }
                })
                .collect();
            let class = format!("fin_{}_{}", base_spec["kind"].as_str().unwrap(), base_spec["tail"].as_str().unwrap_or("lib"));
            run_fin(&mut out, &base_spec, &steps, &class);
        }
    }
    out.finish("fin");
    // ---------------- api
    let mut out = Out::new(ctx, header, "list astep", "api_code");
    out.shard_size = 100;
    if let Some(cases) = &replay {
        for c in cases {
            if c["chan"].as_str() == Some("api") {
                let names: Vec<String> = c["fields"].as_array().unwrap().iter().map(|s| s.as_str().unwrap().to_string()).collect();
                let edits: Vec<Edit> = c["edits"].as_array().unwrap().iter().map(edit_from).collect();
                run_api(&mut out, c["cfg"].as_u64().unwrap_or(0), &names, &edits, "replay");
            }
        }
    } else {
        let mut r = Rng::new(ctx.seed ^ 0xA17);
        let n = if thorough { 400 } else { 80 };
        for i in 0..n {
            let cfg = if thorough && i % 150 == 149 { 6 } else { [0u64, 2, 1, 4, 3, 5, 2][i % 7] };
            let nf = r.range(1, 3);
            let names: Vec<String> = (0..nf).map(|j| format!("f{}", j)).collect();
            let k = r.range(1, 4);
            let edits: Vec<Edit> = (0..k)
                .map(|_| match r.below(10) {
                    0..=4 => {
                        let m = r.range(1, nf);
                        Edit::Fill((0..m).map(|_| (names[r.below(nf) as usize].clone(), rand_text(&mut r, false))).collect())
                    }
                    5..=6 => Edit::NoteAdd(rand_text(&mut r, true), r.range(20, 500) as f64, r.range(20, 700) as f64),
                    7..=8 => Edit::NoteUpdate(r.below(4) as usize, rand_text(&mut r, true)),
                    _ => Edit::NoteRemove(r.below(4) as usize),
                })
                .collect();
            run_api(&mut out, cfg, &names, &edits, &format!("api_cfg{}", cfg));
        }
    }
    out.finish("api");
}
