//! C24 — embedded raster images decode to the pixels that were supplied.
//! The harness writes PNG files itself (every colour type x bit depth x per-row filter type x PLTE/tRNS x
//! Adam7), embeds them through the public API (Image::from_png_data -> Page::add_image -> Document::to_bytes),
//! re-reads the written document with the library's reader and reports the image XObject (dictionary entries +
//! decoded stream + /SMask) to Coq, where Png.v (ISO/IEC 15948-shaped decoder) computes the reference pixels.
use crate::util::*;
use oxidize_pdf::graphics::{ColorSpace, Image};
use oxidize_pdf::parser::objects::PdfObject;
use oxidize_pdf::parser::{ParseOptions, PdfDocument, PdfReader};
use oxidize_pdf::{Document, Page};
use serde_json::{json, Value};
use std::io::{Cursor, Write};

// ---------------------------------------------------------------- PNG encoder
#[derive(Clone, Debug)]
pub struct Png {
    pub w: u32,
    pub h: u32,
    pub ct: u8,
    pub bd: u8,
    pub il: bool,
    /// one value per sample, row-major, `channels` per pixel, each < 2^bd
    pub samples: Vec<u16>,
    /// filter type per emitted scanline (cycled)
    pub filters: Vec<u8>,
    pub plte: Option<Vec<u8>>,
    pub trns: Option<Vec<u8>>,
    /// maximal IDAT chunk payload (0 = one chunk)
    pub split: usize,
    /// add ancillary chunks (gAMA, tEXt) around the critical ones
    pub extra: bool,
    /// value of the unused low bits of the last byte of a row (PNG leaves them unspecified)
    pub pad: u8,
}

pub fn channels(ct: u8) -> usize {
    match ct {
        0 | 3 => 1,
        2 => 3,
        4 => 2,
        6 => 4,
        _ => 1,
    }
}

fn crc32(data: &[u8]) -> u32 {
    let mut c: u32 = 0xFFFF_FFFF;
    for &b in data {
        c ^= b as u32;
        for _ in 0..8 {
            c = if c & 1 != 0 { 0xEDB8_8320 ^ (c >> 1) } else { c >> 1 };
        }
    }
    !c
}
fn chunk(out: &mut Vec<u8>, ty: &[u8; 4], data: &[u8]) {
    out.extend_from_slice(&(data.len() as u32).to_be_bytes());
    let mut td = ty.to_vec();
    td.extend_from_slice(data);
    out.extend_from_slice(&td);
    out.extend_from_slice(&crc32(&td).to_be_bytes());
}
fn paeth(a: u8, b: u8, c: u8) -> u8 {
    let (ia, ib, ic) = (a as i32, b as i32, c as i32);
    let p = ia + ib - ic;
    let (pa, pb, pc) = ((p - ia).abs(), (p - ib).abs(), (p - ic).abs());
    if pa <= pb && pa <= pc {
        a
    } else if pb <= pc {
        b
    } else {
        c
    }
}
/// pack `vals` (each < 2^bd) into bytes, MSB first, 16-bit big-endian
fn pack(vals: &[u16], bd: u8, pad: u8) -> Vec<u8> {
    match bd {
        16 => vals.iter().flat_map(|v| v.to_be_bytes()).collect(),
        8 => vals.iter().map(|v| *v as u8).collect(),
        _ => {
            let per = (8 / bd) as usize;
            let mut out = vec![];
            for ch in vals.chunks(per) {
                let mut b = 0u8;
                for (k, v) in ch.iter().enumerate() {
                    b |= (*v as u8) << (8 - bd as usize * (k + 1));
                }
                if ch.len() < per {
                    let free = 8 - bd as usize * ch.len();
                    b |= pad & ((1u16 << free) - 1) as u8;
                }
                out.push(b);
            }
            out
        }
    }
}
const ADAM7: [(u32, u32, u32, u32); 7] = [(0, 0, 8, 8), (4, 0, 8, 8), (0, 4, 4, 8), (2, 0, 4, 4), (0, 2, 2, 4), (1, 0, 2, 2), (0, 1, 1, 2)];

impl Png {
    /// the filtered scanline stream (what zlib compresses)
    pub fn raw(&self) -> Vec<u8> {
        let ch = channels(self.ct);
        let bpp = std::cmp::max(1, ch * self.bd as usize / 8);
        let passes: Vec<(u32, u32, u32, u32)> = if self.il { ADAM7.to_vec() } else { vec![(0, 0, 1, 1)] };
        let mut out = vec![];
        let mut line = 0usize;
        for (xs, ys, dx, dy) in passes {
            if self.w <= xs || self.h <= ys {
                continue;
            }
            let pw = (self.w - xs + dx - 1) / dx;
            let ph = (self.h - ys + dy - 1) / dy;
            let mut prior: Vec<u8> = vec![];
            for py in 0..ph {
                let y = ys + py * dy;
                let mut vals = vec![];
                for px in 0..pw {
                    let x = xs + px * dx;
                    let base = ((y * self.w + x) as usize) * ch;
                    vals.extend_from_slice(&self.samples[base..base + ch]);
                }
                let row = pack(&vals, self.bd, self.pad);
                if prior.is_empty() {
                    prior = vec![0; row.len()];
                }
                let ft = if self.filters.is_empty() { 0 } else { self.filters[line % self.filters.len()] };
                line += 1;
                out.push(ft);
                for i in 0..row.len() {
                    let a = if i >= bpp { row[i - bpp] } else { 0 };
                    let b = prior[i];
                    let c = if i >= bpp { prior[i - bpp] } else { 0 };
                    let pred = match ft {
                        0 => 0,
                        1 => a,
                        2 => b,
                        3 => ((a as u16 + b as u16) / 2) as u8,
                        4 => paeth(a, b, c),
                        _ => 0, // invalid filter types: bytes passed through
                    };
                    out.push(row[i].wrapping_sub(pred));
                }
                prior = row;
            }
        }
        out
    }
    pub fn ihdr(&self) -> Vec<u8> {
        let mut d = vec![];
        d.extend_from_slice(&self.w.to_be_bytes());
        d.extend_from_slice(&self.h.to_be_bytes());
        d.extend_from_slice(&[self.bd, self.ct, 0, 0, self.il as u8]);
        d
    }
    pub fn file(&self) -> Vec<u8> {
        let mut f = b"\x89PNG\r\n\x1a\n".to_vec();
        chunk(&mut f, b"IHDR", &self.ihdr());
        if self.extra {
            chunk(&mut f, b"gAMA", &45455u32.to_be_bytes());
        }
        if let Some(p) = &self.plte {
            chunk(&mut f, b"PLTE", p);
        }
        if let Some(t) = &self.trns {
            chunk(&mut f, b"tRNS", t);
        }
        if self.extra {
            chunk(&mut f, b"tEXt", b"Comment\0IDAT IEND PLTE");
        }
        let mut enc = flate2::write::ZlibEncoder::new(Vec::new(), flate2::Compression::default());
        enc.write_all(&self.raw()).unwrap();
        let z = enc.finish().unwrap();
        if self.split == 0 {
            chunk(&mut f, b"IDAT", &z);
        } else {
            for part in z.chunks(self.split) {
                chunk(&mut f, b"IDAT", part);
            }
        }
        chunk(&mut f, b"IEND", &[]);
        f
    }
    pub fn to_json(&self) -> Value {
        json!({"kind":"png","w":self.w,"h":self.h,"ct":self.ct,"bd":self.bd,"il":self.il as u8,
               "samples":hex(&self.samples.iter().flat_map(|v| v.to_be_bytes()).collect::<Vec<u8>>()),
               "filters":self.filters,"plte":self.plte.as_ref().map(|p| hex(p)),"trns":self.trns.as_ref().map(|p| hex(p)),
               "split":self.split,"extra":self.extra,"pad":self.pad})
    }
    pub fn from_json(v: &Value) -> Png {
        let s = unhex(v["samples"].as_str().unwrap());
        Png {
            w: v["w"].as_u64().unwrap() as u32,
            h: v["h"].as_u64().unwrap() as u32,
            ct: v["ct"].as_u64().unwrap() as u8,
            bd: v["bd"].as_u64().unwrap() as u8,
            il: v["il"].as_u64().unwrap_or(0) != 0,
            samples: s.chunks(2).map(|c| u16::from_be_bytes([c[0], c[1]])).collect(),
            filters: v["filters"].as_array().map(|a| a.iter().map(|x| x.as_u64().unwrap() as u8).collect()).unwrap_or_default(),
            plte: v["plte"].as_str().map(unhex),
            trns: v["trns"].as_str().map(unhex),
            split: v["split"].as_u64().unwrap_or(0) as usize,
            extra: v["extra"].as_bool().unwrap_or(false),
            pad: v["pad"].as_u64().unwrap_or(0) as u8,
        }
    }
}

// ---------------------------------------------------------------- observing the implementation
#[derive(Clone, Debug)]
struct XObj {
    w: i64,
    h: i64,
    cs: u8, // 1 DeviceGray, 3 DeviceRGB, 4 DeviceCMYK, 0 anything else
    bpc: i64,
    plain: bool, // no /Decode /Mask /ImageMask /Matte /Intent-independent surprises
    data: Vec<u8>,
    smask: Option<Box<XObj>>,
}
enum Impl {
    Err(String),
    Panic(String),
    Ok(XObj),
}

fn read_xobj(pd: &PdfDocument<Cursor<Vec<u8>>>, obj: &PdfObject, depth: u8) -> Result<XObj, String> {
    let o = pd.resolve(obj).map_err(|e| format!("resolve: {e:?}"))?;
    let st = match o {
        PdfObject::Stream(s) => s,
        other => return Err(format!("image XObject is not a stream: {:?}", other)),
    };
    let int = |k: &str| -> i64 {
        match st.dict.get(k) {
            Some(PdfObject::Integer(i)) => *i,
            _ => -1,
        }
    };
    let cs = match st.dict.get("ColorSpace") {
        Some(PdfObject::Name(n)) => match n.0.as_str() {
            "DeviceGray" => 1,
            "DeviceRGB" => 3,
            "DeviceCMYK" => 4,
            _ => 0,
        },
        _ => 0,
    };
    let subtype_ok = matches!(st.dict.get("Subtype"), Some(PdfObject::Name(n)) if n.0 == "Image");
    let plain = subtype_ok && ["Decode", "Mask", "ImageMask", "Matte", "SMaskInData"].iter().all(|k| st.dict.get(k).is_none());
    let data = st.decode(&ParseOptions::default()).map_err(|e| format!("stream decode: {e:?}"))?;
    let smask = match st.dict.get("SMask") {
        None => None,
        Some(m) if depth == 0 => Some(Box::new(read_xobj(pd, m, 1)?)),
        Some(_) => return Err("SMask of an SMask".into()),
    };
    Ok(XObj { w: int("Width"), h: int("Height"), cs, bpc: int("BitsPerComponent"), plain, data, smask })
}

/// embed through the public API, write, re-read, return the image XObject as the reader sees it
fn embed(img: Image) -> Result<XObj, String> {
    let mut doc = Document::new();
    let mut page = Page::a4();
    page.add_image("Im1", img);
    page.draw_image("Im1", 10.0, 10.0, 20.0, 20.0).map_err(|e| format!("draw_image: {e:?}"))?;
    doc.add_page(page);
    let bytes = doc.to_bytes().map_err(|e| format!("to_bytes: {e:?}"))?;
    let reader = PdfReader::new(Cursor::new(bytes)).map_err(|e| format!("reopen: {e:?}"))?;
    let pd = PdfDocument::new(reader);
    let pg = pd.get_page(0).map_err(|e| format!("get_page: {e:?}"))?;
    let res = pg.get_resources().ok_or("no resources")?.clone();
    let xo = match res.get("XObject").map(|o| pd.resolve(o)) {
        Some(Ok(PdfObject::Dictionary(d))) => d,
        _ => return Err("no /XObject dictionary".into()),
    };
    let im = xo.get("Im1").ok_or("no /Im1")?.clone();
    read_xobj(&pd, &im, 0)
}

fn run_png(file: Vec<u8>) -> Impl {
    match catch(std::panic::AssertUnwindSafe(move || match Image::from_png_data(file) {
        Err(e) => Impl::Err(format!("{e:?}")),
        Ok(img) => match embed(img) {
            Ok(x) => Impl::Ok(x),
            Err(e) => Impl::Err(format!("embed: {e}")),
        },
    })) {
        Ok(i) => i,
        Err(m) => Impl::Panic(m),
    }
}

fn coq_xobj(x: &XObj) -> String {
    let m = match &x.smask {
        None => "None".to_string(),
        Some(m) => format!("(Some (mkM {} {} {} {} {} {}))", coq_z(m.w as i128), coq_z(m.h as i128), m.cs, coq_z(m.bpc as i128), coq_bool(m.plain && m.smask.is_none()), coq_bytes(&m.data)),
    };
    format!("(mkX {} {} {} {} {} {} {})", coq_z(x.w as i128), coq_z(x.h as i128), x.cs, coq_z(x.bpc as i128), coq_bool(x.plain), coq_bytes(&x.data), m)
}
fn coq_impl(i: &Impl) -> String {
    match i {
        Impl::Err(_) => "IErr".into(),
        Impl::Panic(_) => "IPanic".into(),
        Impl::Ok(x) => format!("(IOk {})", coq_xobj(x)),
    }
}
fn impl_json(i: &Impl) -> Value {
    match i {
        Impl::Err(e) => json!({"err":e}),
        Impl::Panic(e) => json!({"panic":e}),
        Impl::Ok(x) => json!({"ok":{"w":x.w,"h":x.h,"cs":x.cs,"bpc":x.bpc,"len":x.data.len(),"smask":x.smask.as_ref().map(|m| json!({"w":m.w,"h":m.h,"cs":m.cs,"bpc":m.bpc,"len":m.data.len()}))}}),
    }
}

fn emit_png(out: &mut Out, p: &Png, class: &str) {
    let file = p.file();
    let raw = p.raw();
    let res = run_png(file);
    let coq = format!(
        "(PngCase {} {} {} {} {} {})",
        coq_bytes(&p.ihdr()),
        coq_opt(p.plte.as_ref().map(|x| coq_bytes(x))),
        coq_opt(p.trns.as_ref().map(|x| coq_bytes(x))),
        coq_bytes(&raw),
        coq_bytes(&if p.filters.iter().all(|f| *f < 5) { p.samples.iter().flat_map(|v| v.to_be_bytes()).collect::<Vec<u8>>() } else { vec![] }),
        coq_impl(&res)
    );
    let mut js = p.to_json();
    js["impl"] = impl_json(&res);
    // does some pixel match the tRNS colour (only then is losing tRNS visible)?
    let ch = channels(p.ct);
    let trns_hit = match (&p.trns, p.ct) {
        (Some(t), 0) if t.len() >= 2 => p.samples.iter().any(|s| *s == u16::from_be_bytes([t[0], t[1]])),
        (Some(t), 2) if t.len() >= 6 => p.samples.chunks(ch).any(|s| (0..3).all(|k| s[k] == u16::from_be_bytes([t[2 * k], t[2 * k + 1]]))),
        (Some(_), 3) => true,
        _ => false,
    };
    js["trns_hit"] = json!(trns_hit);
    let nontrivial = p.w as usize * p.h as usize > 1 && p.filters.iter().any(|f| *f != 0);
    out.push(coq, js, class, nontrivial);
}

// ---------------------------------------------------------------- generators
fn gen_png(r: &mut Rng, ct: u8, bd: u8, il: bool, w: u32, h: u32, style: u64) -> Png {
    let ch = channels(ct);
    let maxv: u32 = (1u32 << bd) - 1;
    let plte_n = if ct == 3 { r.range(1, std::cmp::min(1u64 << bd, 16)) as usize } else { 0 };
    let plte = if ct == 3 {
        Some(r.bytes(plte_n * 3))
    } else {
        None
    };
    let n = (w * h) as usize * ch;
    let samples: Vec<u16> = (0..n)
        .map(|i| {
            if ct == 3 {
                r.below(plte_n as u64) as u16
            } else {
                match style {
                    0 => (r.next() as u32 & maxv) as u16,                                  // noise
                    1 => (if r.chance(1, 2) { maxv } else { maxv - (r.below(3) as u32).min(maxv) }) as u16, // large neighbours
                    2 => ((i as u32 * 37 + 11) & maxv) as u16,                                // ramp
                    _ => (if r.chance(1, 2) { 0 } else { maxv }) as u16,                     // extremes
                }
            }
        })
        .collect();
    let trns = match ct {
        0 if r.chance(1, 4) => {
            let v = if r.chance(2, 3) { samples[r.below(samples.len() as u64) as usize] } else { (r.next() as u32 & maxv) as u16 };
            Some(v.to_be_bytes().to_vec())
        }
        2 if r.chance(1, 4) => {
            let px = r.below((w * h) as u64) as usize;
            let v: Vec<u16> = if r.chance(2, 3) { samples[px * 3..px * 3 + 3].to_vec() } else { (0..3).map(|_| (r.next() as u32 & maxv) as u16).collect() };
            Some(v.iter().flat_map(|x| x.to_be_bytes()).collect())
        }
        3 if r.chance(1, 2) => {
            let k = r.range(1, plte_n as u64) as usize;
            Some(r.bytes(k))
        }
        _ => None,
    };
    let nf = r.range(1, 9) as usize;
    let filters: Vec<u8> = match r.below(8) {
        0 => vec![0],
        1 => vec![r.range(1, 4) as u8],
        _ => (0..nf).map(|_| r.below(5) as u8).collect(),
    };
    Png { w, h, ct, bd, il, samples, filters, plte, trns, split: if r.chance(1, 4) { r.range(1, 40) as usize } else { 0 }, extra: r.chance(1, 3), pad: if r.chance(1, 3) { r.next() as u8 } else { 0 } }
}

const COMBOS: [(u8, u8); 15] = [(0, 1), (0, 2), (0, 4), (0, 8), (0, 16), (2, 8), (2, 16), (3, 1), (3, 2), (3, 4), (3, 8), (4, 8), (4, 16), (6, 8), (6, 16)];

fn max_dim(ct: u8, bd: u8) -> u32 {
    // keep w*h*channels*bd/8 <= ~700 bytes so that a case stays below ~9 KB of literal text
    let bits = channels(ct) as u32 * bd as u32;
    match bits {
        0..=8 => 16,
        9..=24 => 13,
        25..=32 => 11,
        33..=48 => 9,
        _ => 8,
    }
}

// ---------------------------------------------------------------- raw buffers
fn emit_raw(out: &mut Out, kind: &str, w: u32, h: u32, cs: u8, bpc: u8, buf: &[u8], class: &str) {
    let b = buf.to_vec();
    let k = kind.to_string();
    let res = match catch(std::panic::AssertUnwindSafe(move || {
        let img = match k.as_str() {
            "rgba" => Image::from_rgba_data(b, w, h),
            "gray" => Image::from_gray_data(b, w, h),
            _ => Ok(Image::from_raw_data(b, w, h, match cs { 1 => ColorSpace::DeviceGray, 3 => ColorSpace::DeviceRGB, _ => ColorSpace::DeviceCMYK }, bpc)),
        };
        match img {
            Err(e) => Impl::Err(format!("{e:?}")),
            Ok(img) => match embed(img) {
                Ok(x) => Impl::Ok(x),
                Err(e) => Impl::Err(format!("embed: {e}")),
            },
        }
    })) {
        Ok(i) => i,
        Err(m) => Impl::Panic(m),
    };
    let ck = match kind { "rgba" => "KRgba", "gray" => "KGray", _ => "KRaw" };
    let coq = format!("(RawCase {} {} {} {} {} {} {})", ck, w, h, cs, bpc, coq_bytes(buf), coq_impl(&res));
    let js = json!({"kind":kind,"w":w,"h":h,"cs":cs,"bpc":bpc,"buf":hex(buf),"impl":impl_json(&res)});
    out.push(coq, js, class, buf.len() > 1);
}

pub fn run(ctx: &Ctx) {
    let header = "From OxVerif Require Import Base.Util C24.Png C24.Model C24.Check.";
    let mut out = Out::new(ctx, header, "png_case", "png_code");
    out.shard_size = 60;
    let mut rout = Out::new(ctx, header, "raw_case", "raw_code");
    rout.shard_size = 200;
    if let Some(cases) = ctx.replay_cases() {
        for c in cases {
            match c["kind"].as_str().unwrap_or("png") {
                "png" => emit_png(&mut out, &Png::from_json(&c), "replay"),
                k => emit_raw(&mut rout, k, c["w"].as_u64().unwrap() as u32, c["h"].as_u64().unwrap() as u32, c["cs"].as_u64().unwrap_or(3) as u8, c["bpc"].as_u64().unwrap_or(8) as u8, &unhex(c["buf"].as_str().unwrap()), "replay"),
            }
        }
    } else {
        let mut r = Rng::new(ctx.seed ^ 0xC24);
        // (a) every colour type x bit depth x interlace on fixed small sizes incl. 1x1 and widths not multiple of 8
        let sizes: [(u32, u32); 7] = [(1, 1), (1, 3), (2, 2), (3, 1), (5, 4), (8, 2), (9, 3)];
        for &(ct, bd) in COMBOS.iter() {
            for il in [false, true] {
                for (k, &(w, h)) in sizes.iter().enumerate() {
                    let p = gen_png(&mut r, ct, bd, il, w, h, k as u64 % 4);
                    emit_png(&mut out, &p, &format!("grid_ct{ct}_bd{bd}_il{}", il as u8));
                }
            }
        }
        // (b) each single filter type on 8-bit images with large neighbour values (u8 overflow in Average, Paeth ties)
        for ft in 0..5u8 {
            for &ct in &[0u8, 2, 4, 6] {
                for style in [1u64, 3] {
                    let mut p = gen_png(&mut r, ct, 8, false, 6, 5, style);
                    p.filters = vec![ft];
                    p.trns = None;
                    emit_png(&mut out, &p, &format!("filter{ft}"));
                }
            }
        }
        // Paeth tie patterns: rows built from a few values so that pa==pb, pb==pc occur
        for k in 0..12u32 {
            let mut p = gen_png(&mut r, 0, 8, false, 8, 4, 0);
            let vals = [[10u16, 20, 30], [200, 100, 150], [0, 255, 128], [5, 5, 9]][(k % 4) as usize];
            p.samples = (0..32).map(|_| vals[r.below(3) as usize]).collect();
            p.filters = vec![4, 4, 3, 4];
            p.trns = None;
            emit_png(&mut out, &p, "paeth_ties");
        }
        // exact Paeth ties that discriminate the order of the tests: (left a, up b, upleft c) with
        // 2a+b=3c (pb==pc<pa: the standard picks b) and a+2b=3c (pa==pc<=pb: the standard picks a)
        for k in 0..16u32 {
            let w = 8usize;
            let mut row0 = vec![0i32; w];
            let mut row1 = vec![0i32; w];
            row0[0] = r.range(60, 190) as i32;
            for x in 1..w {
                let c = row0[x - 1];
                let mut d = r.range(1, 3) as i32 * if r.chance(1, 2) { 1 } else { -1 };
                let fam1 = (k + x as u32) % 2 == 0;
                let (a, b) = if fam1 { (c + d, c - 2 * d) } else { (c - 2 * d, c + d) };
                let (a, b) = if (0..=255).contains(&a) && (0..=255).contains(&b) { (a, b) } else { d = 0; (c + d, c) };
                row1[x - 1] = a;
                row0[x] = b;
            }
            row1[w - 1] = r.below(256) as i32;
            let mut p = gen_png(&mut r, 0, 8, false, w as u32, 2, 0);
            p.samples = row0.iter().chain(row1.iter()).map(|v| *v as u16).collect();
            p.filters = vec![(k % 5) as u8, 4];
            p.trns = None;
            emit_png(&mut out, &p, "paeth_exact_ties");
        }
        // (c) random
        let n = if ctx.thorough() { 1500 } else { 260 };
        for i in 0..n {
            let (ct, bd) = if i % 2 == 0 { *r.pick(&[(0u8, 8u8), (2, 8), (4, 8), (6, 8)]) } else { *r.pick(&COMBOS) };
            let md = max_dim(ct, bd) as u64;
            let w = if r.chance(1, 8) { 1 } else { r.range(1, md) as u32 };
            let h = if r.chance(1, 8) { 1 } else { r.range(1, md) as u32 };
            let il = i % 2 == 1 && r.chance(1, 3);
            let style = r.below(4);
            let p = gen_png(&mut r, ct, bd, il, w, h, style);
            emit_png(&mut out, &p, if i % 2 == 0 { "random_8bit" } else { "random_any" });
        }
        // (d) invalid scanline filter type / truncated data: only the model tie is checked
        for k in 0..6u32 {
            let ct = *r.pick(&[0u8, 2, 4, 6]);
            let mut p = gen_png(&mut r, ct, 8, false, 3, 3, 0);
            p.filters = vec![0, (5 + k) as u8, 1];
            p.trns = None;
            emit_png(&mut out, &p, "bad_filter_type");
        }

        // ---------- raw buffers ----------
        let nr = if ctx.thorough() { 600 } else { 150 };
        for i in 0..nr {
            let w = r.range(1, 12) as u32;
            let h = r.range(1, 12) as u32;
            match i % 3 {
                0 => {
                    let good = !r.chance(1, 6);
                    let len = if good { (w * h * 4) as usize } else { r.below((w * h * 4 + 9) as u64) as usize };
                    emit_raw(&mut rout, "rgba", w, h, 3, 8, &r.bytes(len), if good { "rgba" } else { "rgba_badlen" });
                }
                1 => {
                    let good = !r.chance(1, 6);
                    let len = if good { (w * h) as usize } else { r.below((w * h + 5) as u64) as usize };
                    emit_raw(&mut rout, "gray", w, h, 1, 8, &r.bytes(len), if good { "gray" } else { "gray_badlen" });
                }
                _ => {
                    let cs = *r.pick(&[1u8, 3, 4]);
                    let bpc = *r.pick(&[1u8, 2, 4, 8, 8, 8, 16]);
                    let rowb = (w as usize * cs as usize * bpc as usize + 7) / 8;
                    emit_raw(&mut rout, "raw", w, h, cs, bpc, &r.bytes(rowb * h as usize), "raw");
                }
            }
        }
        // huge dimensions with a small buffer: the size test must not overflow u32
        for &(w, h) in &[(65536u32, 65536u32), (1u32 << 31, 2), (1 << 30, 4), (4_294_967_295, 4_294_967_295), (65536, 16384)] {
            emit_raw(&mut rout, "rgba", w, h, 3, 8, &[1, 2, 3, 4], "rgba_huge");
            emit_raw(&mut rout, "gray", w, h, 1, 8, &[1, 2, 3, 4], "gray_huge");
        }
    }
    out.finish("png");
    rout.finish("raw");
}
