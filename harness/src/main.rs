//! oxh — correspondence harness: runs the real oxidize-pdf code on generated cases and
//! writes Coq case files (evaluated against the Gallina models by the driver).
mod util;
include!(concat!(env!("OUT_DIR"), "/props.rs"));

use util::Ctx;

fn main() {
    let args: Vec<String> = std::env::args().collect();
    if args.len() < 2 {
        eprintln!("usage: oxh <prop> --seed N --tier quick|thorough --out DIR [--cases-from FILE]");
        std::process::exit(2);
    }
    let get = |f: &str| args.iter().position(|a| a == f).and_then(|i| args.get(i + 1).cloned());
    let ctx = Ctx {
        prop: args[1].clone(),
        seed: get("--seed").and_then(|s| s.parse().ok()).unwrap_or(1),
        tier: get("--tier").unwrap_or_else(|| "quick".into()),
        out: get("--out").map(Into::into).unwrap_or_else(|| "/verif/build/run/tmp".into()),
        cases_from: get("--cases-from").map(Into::into),
        args: args.clone(),
    };
    // silence panic messages from caught panics unless asked
    if std::env::var("OXH_PANIC_TRACE").is_err() {
        std::panic::set_hook(Box::new(|_| {}));
    }
    if !dispatch(&ctx) {
        eprintln!("unknown property {}", ctx.prop);
        std::process::exit(2);
    }
}
