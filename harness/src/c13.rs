//! C13 — text drawn with embedded custom fonts: Document -> written PDF -> (a) the library's extractor,
//! (b) /W, /CIDToGIDMap, /ToUnicode, the embedded font program and the show operands pulled out of the
//! written file; Coq judges widths, glyph presence, ToUnicode reference semantics and compares /W, the
//! ToUnicode definitions and the shown codes with the models of C13/Model.v.
use crate::util::*;
use oxidize_pdf::parser::objects::{PdfDictionary, PdfObject};
use oxidize_pdf::parser::{ParseOptions, PdfDocument, PdfReader};
use oxidize_pdf::writer::WriterConfig;
use oxidize_pdf::{Document, Font, Page};
use serde_json::{json, Value};
use std::collections::{BTreeMap, BTreeSet};
use std::io::Cursor;

#[path = "c12_sfnt.rs"]
mod sfnt;
use sfnt::Sfnt;

const FONTS: &[(&str, &str)] = &[
    ("Roboto", "/repo/test-pdfs/Roboto-Regular.ttf"),
    ("DejaVuSans", "/usr/share/fonts/truetype/dejavu/DejaVuSans.ttf"),
    ("SourceSans3", "/repo/test-pdfs/SourceSans3-Regular.otf"),
    ("DejaVuSerif", "/usr/share/fonts/truetype/dejavu/DejaVuSerif.ttf"),
];

fn resolve<'a>(r: &mut PdfReader<Cursor<Vec<u8>>>, o: &PdfObject) -> Option<PdfObject> {
    match o {
        PdfObject::Reference(n, g) => r.get_object(*n, *g).ok().cloned(),
        x => Some(x.clone()),
    }
}
fn dget(r: &mut PdfReader<Cursor<Vec<u8>>>, d: &PdfDictionary, k: &str) -> Option<PdfObject> {
    let v = d.0.iter().find(|(n, _)| n.0 == k).map(|(_, v)| v.clone())?;
    resolve(r, &v)
}
fn name_of(o: &PdfObject) -> Option<String> {
    if let PdfObject::Name(n) = o {
        Some(n.0.clone())
    } else {
        None
    }
}
fn stream_data(o: &PdfObject) -> Option<Vec<u8>> {
    if let PdfObject::Stream(s) = o {
        s.decode(&ParseOptions::default()).ok()
    } else {
        None
    }
}

struct FontParts {
    truetype: bool,
    w: String,
    gidmap: Vec<u8>,
    program: Vec<u8>,
    tounicode: Vec<u8>,
}

fn pull_font(r: &mut PdfReader<Cursor<Vec<u8>>>, size: u32, base: &str) -> Result<FontParts, String> {
    for n in 1..size {
        let Ok(o) = r.get_object(n, 0).map(|o| o.clone()) else { continue };
        let PdfObject::Dictionary(d) = o else { continue };
        if dget(r, &d, "Subtype").and_then(|x| name_of(&x)).as_deref() != Some("Type0") {
            continue;
        }
        if dget(r, &d, "BaseFont").and_then(|x| name_of(&x)).as_deref() != Some(base) {
            continue;
        }
        let tounicode = dget(r, &d, "ToUnicode").and_then(|s| stream_data(&s)).ok_or("no /ToUnicode stream")?;
        let PdfObject::Array(desc) = dget(r, &d, "DescendantFonts").ok_or("no DescendantFonts")? else { return Err("DescendantFonts".into()) };
        let PdfObject::Dictionary(cid) = resolve(r, &desc.0[0]).ok_or("descendant")? else { return Err("descendant dict".into()) };
        let truetype = dget(r, &cid, "Subtype").and_then(|x| name_of(&x)).as_deref() == Some("CIDFontType2");
        let PdfObject::Array(w) = dget(r, &cid, "W").ok_or("no /W")? else { return Err("/W not an array".into()) };
        let mut ws = String::new();
        let mut i = 0;
        let int = |o: &PdfObject| -> Option<i64> {
            match o {
                PdfObject::Integer(i) => Some(*i),
                PdfObject::Real(f) if f.fract() == 0.0 => Some(*f as i64),
                _ => None,
            }
        };
        while i < w.0.len() {
            let c = int(&w.0[i]).ok_or("/W: cid expected")?;
            match w.0.get(i + 1) {
                Some(PdfObject::Array(a)) => {
                    let l: Vec<String> = a.0.iter().map(|x| int(x).map(|v| v.to_string()).unwrap_or("0".into())).collect();
                    ws.push_str(&format!("WList {} ({} :: nil) :: ", c, l.join(" :: ")));
                    i += 2;
                }
                Some(x) => {
                    let c2 = int(x).ok_or("/W: number expected")?;
                    let wv = w.0.get(i + 2).and_then(int).ok_or("/W: width expected")?;
                    ws.push_str(&format!("WRange {} {} {} :: ", c, c2, wv));
                    i += 3;
                }
                None => return Err("/W truncated".into()),
            }
        }
        ws.push_str("nil");
        let gidmap = dget(r, &cid, "CIDToGIDMap").and_then(|s| stream_data(&s)).unwrap_or_default();
        let PdfObject::Dictionary(fd) = dget(r, &cid, "FontDescriptor").ok_or("no FontDescriptor")? else { return Err("FontDescriptor".into()) };
        let program = dget(r, &fd, "FontFile2").or_else(|| dget(r, &fd, "FontFile3")).and_then(|s| stream_data(&s)).ok_or("no embedded font program")?;
        return Ok(FontParts { truetype, w: ws, gidmap, program, tounicode });
    }
    Err(format!("no Type0 font with BaseFont {base}"))
}

/// ToUnicode text -> (code space, sections) in Coq syntax
fn parse_tounicode(t: &[u8]) -> (String, String) {
    let s = String::from_utf8_lossy(t);
    let toks: Vec<&str> = s.split_whitespace().collect();
    let hx = |t: &str| coq_bytes(&unhex(t.trim_matches(|c| c == '<' || c == '>')));
    let (mut cs, mut secs) = (String::new(), String::new());
    let mut i = 0;
    while i < toks.len() {
        match toks[i] {
            "begincodespacerange" => {
                i += 1;
                while i + 1 < toks.len() && toks[i] != "endcodespacerange" {
                    cs.push_str(&format!("({}, {}) :: ", hx(toks[i]), hx(toks[i + 1])));
                    i += 2;
                }
            }
            "beginbfchar" => {
                i += 1;
                secs.push_str("BfChar (");
                while i + 1 < toks.len() && toks[i] != "endbfchar" {
                    secs.push_str(&format!("({}, {}) :: ", hx(toks[i]), hx(toks[i + 1])));
                    i += 2;
                }
                secs.push_str("nil) :: ");
            }
            "beginbfrange" => {
                i += 1;
                secs.push_str("BfRange (");
                while i + 2 < toks.len() && toks[i] != "endbfrange" {
                    secs.push_str(&format!("({}, {}, RHex {}) :: ", hx(toks[i]), hx(toks[i + 1]), hx(toks[i + 2])));
                    i += 3;
                }
                secs.push_str("nil) :: ");
            }
            _ => {}
        }
        i += 1;
    }
    (cs + "nil", secs + "nil")
}

/// (font resource name, 2-byte codes) of every show operator, in stream order
fn shown(content: &[u8]) -> Vec<(String, Vec<u8>)> {
    let s = String::from_utf8_lossy(content);
    let toks: Vec<&str> = s.split_whitespace().collect();
    let mut cur = String::new();
    let mut out = vec![];
    for (i, t) in toks.iter().enumerate() {
        if *t == "Tf" && i >= 2 {
            cur = toks[i - 2].trim_start_matches('/').to_string();
        }
        if *t == "Tj" && i >= 1 && toks[i - 1].starts_with('<') {
            out.push((cur.clone(), unhex(toks[i - 1].trim_matches(|c| c == '<' || c == '>'))));
        }
    }
    out
}

fn cps(v: &[u32]) -> String {
    v.iter().map(|c| format!("{c} :: ")).collect::<String>() + "nil"
}

struct Line {
    font: usize,
    text: Vec<u32>,
}

fn run_case(lines: &[Line], compress: bool) -> Result<(String, bool), String> {
    let mut doc = Document::new();
    let mut used_fonts = BTreeSet::new();
    for l in lines {
        used_fonts.insert(l.font);
    }
    let mut data: BTreeMap<usize, Vec<u8>> = BTreeMap::new();
    for &f in &used_fonts {
        let d = std::fs::read(FONTS[f].1).map_err(|e| e.to_string())?;
        doc.add_font_from_bytes(FONTS[f].0, d.clone()).map_err(|e| format!("add_font: {e:?}"))?;
        data.insert(f, d);
    }
    let mut page = Page::a4();
    for (i, l) in lines.iter().enumerate() {
        let s: String = l.text.iter().filter_map(|&c| char::from_u32(c)).collect();
        page.text().set_font(Font::Custom(FONTS[l.font].0.to_string()), 9.0).at(30.0, 800.0 - 22.0 * i as f64).write(&s).map_err(|e| format!("write: {e:?}"))?;
    }
    doc.add_page(page);
    let mut cfg = WriterConfig::default();
    cfg.compress_streams = compress;
    let bytes = doc.to_bytes_with_config(cfg).map_err(|e| format!("to_bytes: {e:?}"))?;
    // (a) library extraction
    let extracted: Vec<u32> = {
        let reader = PdfReader::new(Cursor::new(bytes.clone())).map_err(|e| format!("reopen: {e:?}"))?;
        let pd = PdfDocument::new(reader);
        // hyphen merging is a layout option whose documented meaning is to DROP a line-final '-';
        // C13 is about recovering the drawn characters, so it is switched off (a generated line
        // ending in '-' made the thorough tier raise a false alarm with the default options)
        let opts = oxidize_pdf::text::ExtractionOptions { merge_hyphenated: false, ..Default::default() };
        pd.extract_text_from_page_with_options(0, opts).map_err(|e| format!("extract: {e:?}"))?.text.chars().map(|c| c as u32).collect()
    };
    // (b) structures
    let mut r = PdfReader::new(Cursor::new(bytes.clone())).map_err(|e| format!("reopen: {e:?}"))?;
    let size = r.trailer().size().unwrap_or(0) as u32;
    let mut content = vec![];
    for n in 1..size {
        if let Ok(o) = r.get_object(n, 0).map(|o| o.clone()) {
            if let PdfObject::Stream(s) = &o {
                if s.dict.0.keys().all(|k| k.0 == "Length" || k.0 == "Filter") {
                    if let Some(d) = stream_data(&o) {
                        if d.windows(2).any(|w| w == b"BT") && d.windows(3).any(|w| w == b" Tj") {
                            content.extend_from_slice(&d);
                            content.push(b'\n');
                        }
                    }
                }
            }
        }
    }
    let shows = shown(&content);
    let mut fcases = vec![];
    let mut astral = false;
    for &f in &used_fonts {
        let fp = pull_font(&mut r, size, FONTS[f].0)?;
        let orig = Sfnt::parse(&data[&f])?;
        let ocmap = orig.cmap()?;
        let text: Vec<u32> = lines.iter().filter(|l| l.font == f).flat_map(|l| l.text.iter().copied()).collect();
        astral |= text.iter().any(|&c| c > 0xFFFF);
        let used: BTreeSet<u32> = text.iter().copied().collect();
        let mut widths = String::new();
        let mut adv = String::new();
        for &c in &used {
            if let Some(&g) = ocmap.get(&c) {
                let a = orig.metrics(g as usize)?.0 as u64;
                let sc = if orig.upem > 0 { (a * 1000 / orig.upem as u64) % 65536 } else { a };
                widths.push_str(&format!("({c}, {sc}) :: "));
                adv.push_str(&format!("({c}, {a}, {}) :: ", orig.upem));
            }
        }
        let (numglyphs, emb_adv) = if fp.truetype {
            let emb = Sfnt::parse(&fp.program).map_err(|e| format!("embedded program: {e}"))?;
            let mut s = String::new();
            for &c in &used {
                if c <= 0xFFFF && ocmap.contains_key(&c) {
                    let g = fp.gidmap.get(2 * c as usize..2 * c as usize + 2).map(|b| u16::from_be_bytes([b[0], b[1]])).unwrap_or(0);
                    let a = emb.metrics(g as usize).map(|m| m.0).unwrap_or(0xFFFF);
                    s.push_str(&format!("({c}, {a}) :: "));
                }
            }
            (emb.ng, s)
        } else {
            // raw CFF: number of charstrings through the harness CFF reader is not needed for the glyph test
            // (CIDFontType0 has no CIDToGIDMap; CIDs are matched by the charset) — only the count is reported
            (0, String::new())
        };
        let gm: String = fp.gidmap.chunks(2).enumerate().filter(|(_, b)| b.len() == 2 && (b[0] != 0 || b[1] != 0)).map(|(i, b)| format!("({}, {}) :: ", i, u16::from_be_bytes([b[0], b[1]]))).collect();
        let (cs, secs) = parse_tounicode(&fp.tounicode);
        let codes: String = shows.iter().filter(|(n, _)| n == FONTS[f].0).flat_map(|(_, b)| b.chunks(2).map(|c| format!("{} :: ", coq_bytes(c))).collect::<Vec<_>>()).collect();
        fcases.push(format!(
            "{{| f_text := {}; f_used := {}; f_truetype := {}; f_widths := {}nil; f_adv := {}nil; f_w := {}; f_gidmap := {}nil; f_gidlen := {}; f_numglyphs := {}; f_emb_adv := {}nil; f_cs := {}; f_tu := {}; f_shown := {}nil |}}",
            cps(&text), cps(&used.iter().copied().collect::<Vec<_>>()), coq_bool(fp.truetype), widths, adv, fp.w, gm, fp.gidmap.len(), numglyphs, emb_adv, cs, secs, codes
        ));
    }
    let expected: Vec<u32> = lines.iter().flat_map(|l| l.text.iter().copied()).collect();
    Ok((format!("({} :: nil, {}, {})", fcases.join(" :: "), cps(&expected), cps(&extracted)), astral))
}

/// maximal runs (start, length >= 100) of consecutive mapped BMP code points inside letter blocks
fn long_runs(f: usize) -> Vec<(u32, u32)> {
    let d = std::fs::read(FONTS[f].1).expect("font file");
    let s = Sfnt::parse(&d).expect("font");
    let m = s.cmap().expect("cmap");
    let ok = |c: u32| m.contains_key(&c) && ((0xAE..0x250).contains(&c) || (0x388..0x3CF).contains(&c) || (0x400..0x530).contains(&c) || (0x1E00..0x1F00).contains(&c));
    let mut v = vec![];
    let mut c = 0xAEu32;
    while c < 0x1F00 {
        if ok(c) {
            let st = c;
            while ok(c) {
                c += 1;
            }
            if c - st >= 100 {
                v.push((st, c - st));
            }
        } else {
            c += 1;
        }
    }
    v
}

fn repertoire(f: usize) -> (Vec<u32>, Vec<u32>) {
    let d = std::fs::read(FONTS[f].1).expect("font file");
    let s = Sfnt::parse(&d).expect("font");
    let m = s.cmap().expect("cmap");
    let bmp: Vec<u32> = m.keys().copied().filter(|&c| (0x21..0x7F).contains(&c) || ((0xA1..0x180).contains(&c) && c != 0xAD) || (0x391..0x3CA).contains(&c) || (0x410..0x450).contains(&c)).collect();
    let astral: Vec<u32> = m.keys().copied().filter(|&c| c > 0xFFFF).collect();
    (bmp, astral)
}

pub fn run(ctx: &Ctx) {
    let header = "From OxVerif Require Import Base.Util C26.Model C13.Model.";
    let mut out = Out::new(ctx, header, "list fcase * list N * list N", "case_code");
    out.shard_size = 6;
    let mut emit = |out: &mut Out, lines: &[Line], compress: bool, class: &str| {
        let js = json!({"lines": lines.iter().map(|l| json!({"font": l.font, "text": l.text})).collect::<Vec<_>>(), "compress": compress});
        match catch(std::panic::AssertUnwindSafe(|| run_case(lines, compress))) {
            Ok(Ok((coq, _astral))) => {
                let fonts: BTreeSet<usize> = lines.iter().map(|l| l.font).collect();
                let nt = lines.iter().map(|l| l.text.len()).sum::<usize>() >= 4;
                out.push(coq, js, &format!("{}{}", class, if fonts.len() > 1 { "/2fonts" } else { "" }), nt);
            }
            Ok(Err(e)) => out.impl_failures.push(json!({"case": js, "what": e})),
            Err(p) => out.impl_failures.push(json!({"case": js, "what": format!("panic: {p}")})),
        }
    };
    if let Some(cases) = ctx.replay_cases() {
        for c in cases {
            let lines: Vec<Line> = c["lines"].as_array().map(|a| a.iter().map(|l| Line { font: l["font"].as_u64().unwrap_or(0) as usize, text: l["text"].as_array().map(|t| t.iter().filter_map(|x| x.as_u64()).map(|x| x as u32).collect()).unwrap_or_default() }).collect()).unwrap_or_default();
            emit(&mut out, &lines, c["compress"].as_bool().unwrap_or(true), "replay");
        }
    } else {
        let mut r = Rng::new(ctx.seed ^ 0xC13);
        let nf = if ctx.thorough() { 4 } else { 3 };
        let reps: Vec<(Vec<u32>, Vec<u32>)> = (0..nf).map(repertoire).collect();
        // long consecutive runs: one ToUnicode bfrange holds at most 100 codes, the next range must pick up the rest
        let runs: Vec<Vec<(u32, u32)>> = (0..nf).map(long_runs).collect();
        let lens: &[u32] = if ctx.thorough() { &[100, 101, 102, 150, 199, 200, 201, 256, 300, 100, 101, 256] } else { &[100, 101, 150, 201, 256, 300] };
        for (i, &want) in lens.iter().enumerate() {
            let f = (0..nf).map(|d| (i + d) % nf).find(|&f| !runs[f].is_empty());
            let Some(f) = f else { continue };
            let fit: Vec<(u32, u32)> = runs[f].iter().copied().filter(|r| r.1 >= want).collect();
            let (st, len) = if fit.is_empty() { *runs[f].iter().max_by_key(|r| r.1).unwrap() } else { *r.pick(&fit) };
            let l = want.min(len);
            let start = st + r.below((len - l + 1) as u64) as u32;
            let mut cps: Vec<u32> = (start..start + l).collect();
            if r.chance(1, 2) {
                for i in (1..cps.len()).rev() {
                    let j = r.below(i as u64 + 1) as usize;
                    cps.swap(i, j);
                }
            }
            let lines: Vec<Line> = cps.chunks(50).map(|c| Line { font: f, text: c.to_vec() }).collect();
            emit(&mut out, &lines, r.chance(1, 2), "consecutive_run");
        }
        let n = if ctx.thorough() { 260 } else { 60 };
        for k in 0..n {
            let two = r.chance(1, 3);
            let f1 = r.below(nf as u64) as usize;
            let mut lines = vec![];
            let gen = |r: &mut Rng, f: usize, class: u64| -> Vec<u32> {
                let (bmp, astral) = &reps[f];
                let len = r.range(1, if class == 3 { 60 } else { 24 }) as usize;
                let pool: Vec<u32> = match class {
                    0 => bmp.iter().copied().filter(|c| *c < 0x80).collect(),
                    1 => bmp.iter().copied().filter(|c| *c >= 0x391).collect(),
                    2 => bmp.iter().copied().filter(|c| *c >= 0xA1 && *c < 0x180).collect(),
                    _ => bmp.clone(),
                };
                let mut t: Vec<u32> = (0..len).map(|_| *r.pick(&pool)).collect();
                if r.chance(1, 2) && t.len() > 2 {
                    // repeats and spaces
                    let x = t[0];
                    t.push(x);
                    t.insert(t.len() / 2, 32);
                    t.push(x);
                }
                if class == 4 && !astral.is_empty() {
                    t.push(*r.pick(astral));
                }
                t
            };
            let class = if k % 12 == 11 { 4 } else { r.below(4) };
            lines.push(Line { font: f1, text: gen(&mut r, f1, class) });
            if r.chance(1, 2) {
                let cl = r.below(4);
                lines.push(Line { font: f1, text: gen(&mut r, f1, cl) });
            }
            if two {
                let f2 = (f1 + 1 + r.below(nf as u64 - 1) as usize) % nf;
                let cl = r.below(4);
                lines.push(Line { font: f2, text: gen(&mut r, f2, cl) });
            }
            let label = ["ascii", "greekcyr", "latin1ext", "mixed", "astral"][class as usize];
            emit(&mut out, &lines, r.chance(1, 2), label);
        }
    }
    out.finish("doc");
}
