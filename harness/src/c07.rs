//! C07 / C08 — stream filters: reference encodings (re-implemented here and re-checked in Coq
//! against the Gallina reference encoders/relations) decoded by the REAL PdfStream::decode /
//! decode_with_limit; results written as Coq cases for C07/Check.v.
//! One JSON case = everything needed to re-run it (`emit_case`), so replay = the same path.
use crate::util::*;
use oxidize_pdf::parser::filters::{decode_stream, decode_stream_with_limit};
use oxidize_pdf::parser::objects::{PdfArray, PdfDictionary, PdfName, PdfObject, PdfStream};
use oxidize_pdf::parser::ParseOptions;
use serde_json::{json, Value};
use std::io::{Read, Write};
use std::panic::AssertUnwindSafe;

// ------------------------------------------------------------------ reference encoders
const WS: [u8; 6] = [0, 9, 10, 12, 13, 32];

fn sprinkle_ws(r: &mut Rng, s: &[u8], density: u64) -> Vec<u8> {
    let mut o = Vec::with_capacity(s.len() * 2);
    for &b in s {
        while density > 0 && r.below(100) < density {
            o.push(*r.pick(&WS));
        }
        o.push(b);
    }
    while density > 0 && r.below(100) < density {
        o.push(*r.pick(&WS));
    }
    o
}

pub fn enc_hex(r: &mut Rng, x: &[u8], style: u64) -> Vec<u8> {
    // style bit0: lower case / bit1: mixed case / bit2: no EOD / bit3: drop a final 0 digit / bits 4..: ws density
    let mut s = Vec::new();
    for &b in x {
        for d in [b >> 4, b & 15] {
            let up = if style & 2 != 0 { r.chance(1, 2) } else { style & 1 == 0 };
            s.push(if d < 10 { b'0' + d } else if up { b'A' + d - 10 } else { b'a' + d - 10 });
        }
    }
    if style & 8 != 0 && x.last().map_or(false, |b| b & 15 == 0) {
        s.pop();
    }
    if style & 4 == 0 {
        s.push(b'>');
    }
    sprinkle_ws(r, &s, (style >> 4) % 4 * 12)
}

pub fn enc_a85(r: &mut Rng, x: &[u8], style: u64) -> Vec<u8> {
    // style bit0: no `z`; bit1: `<~` lead-in; bits 4..: ws density
    let mut s = Vec::new();
    if style & 2 != 0 {
        s.extend_from_slice(b"<~");
    }
    for ch in x.chunks(4) {
        let mut g = [0u8; 4];
        g[..ch.len()].copy_from_slice(ch);
        let mut v = u32::from_be_bytes(g) as u64;
        if ch.len() == 4 && v == 0 && style & 1 == 0 {
            s.push(b'z');
            continue;
        }
        let mut d = [0u8; 5];
        for i in (0..5).rev() {
            d[i] = (v % 85) as u8 + 33;
            v /= 85;
        }
        s.extend_from_slice(&d[..ch.len() + 1]);
    }
    s.extend_from_slice(b"~>");
    sprinkle_ws(r, &s, (style >> 4) % 4 * 12)
}

pub fn enc_rl(r: &mut Rng, x: &[u8], style: u64) -> Vec<u8> {
    // style 0: literal runs only (max length); 1: greedy repeats; 2: random segmentation; bit 2: no EOD
    let mut o = Vec::new();
    let mut i = 0;
    while i < x.len() {
        let mut run = 1;
        while i + run < x.len() && x[i + run] == x[i] && run < 128 {
            run += 1;
        }
        let mode = style & 3;
        let use_rep = run >= 2 && (mode == 1 || (mode >= 2 && r.chance(2, 3)));
        if use_rep {
            let k = if mode >= 2 { r.range(2, run as u64) as usize } else { run };
            o.push((257 - k) as u8);
            o.push(x[i]);
            i += k;
        } else {
            let maxl = (x.len() - i).min(128);
            let k = if mode == 0 { maxl } else if mode == 1 {
                // literal until the next run of >= 2
                let mut k = 1;
                while k < maxl && !(i + k + 1 < x.len() && x[i + k] == x[i + k + 1]) {
                    k += 1;
                }
                k
            } else {
                r.range(1, maxl as u64) as usize
            };
            o.push((k - 1) as u8);
            o.extend_from_slice(&x[i..i + k]);
            i += k;
        }
    }
    if style & 4 == 0 {
        o.push(128);
    }
    o
}

/// The LZW encoder of Codecs.v (`lzw_encode`), line by line.
pub fn enc_lzw(x: &[u8], ec: bool) -> Vec<u8> {
    fn widen(ec: bool, next: u32, cs: u32) -> u32 {
        let th = if ec { 1u32 << cs } else { (1u32 << cs) + 1 };
        if th <= next && cs < 12 { cs + 1 } else { cs }
    }
    let mut codes: Vec<(u32, u32)> = vec![(256, 9)];
    if x.is_empty() {
        codes.push((257, 9));
    } else {
        let mut tbl: std::collections::HashMap<(u32, u8), u32> = Default::default();
        let (mut w, mut next, mut cs) = (x[0] as u32, 258u32, 9u32);
        for &k in &x[1..] {
            if let Some(&c) = tbl.get(&(w, k)) {
                w = c;
            } else if next == 4096 {
                codes.push((w, cs));
                codes.push((256, cs));
                tbl.clear();
                next = 258;
                cs = 9;
                w = k as u32;
            } else {
                codes.push((w, cs));
                tbl.insert((w, k), next);
                next += 1;
                cs = widen(ec, next, cs);
                w = k as u32;
            }
        }
        codes.push((w, cs));
        codes.push((257, widen(ec, next + 1, cs)));
    }
    let mut out = Vec::new();
    let (mut acc, mut nb) = (0u64, 0u32);
    for (c, wdt) in codes {
        acc = (acc << wdt) | c as u64;
        nb += wdt;
        while nb >= 8 {
            out.push((acc >> (nb - 8)) as u8);
            nb -= 8;
            acc &= (1u64 << nb) - 1;
        }
    }
    if nb > 0 {
        out.push((acc << (8 - nb)) as u8);
    }
    out
}

pub fn enc_flate(x: &[u8], level: u32) -> Vec<u8> {
    let mut e = flate2::write::ZlibEncoder::new(Vec::new(), flate2::Compression::new(level));
    e.write_all(x).unwrap();
    e.finish().unwrap()
}
fn zlib_dec(d: &[u8]) -> Option<Vec<u8>> {
    let mut o = Vec::new();
    flate2::read::ZlibDecoder::new(d).read_to_end(&mut o).ok().map(|_| o)
}

fn paeth(a: u8, b: u8, c: u8) -> u8 {
    let p = a as i32 + b as i32 - c as i32;
    let (pa, pb, pc) = ((p - a as i32).abs(), (p - b as i32).abs(), (p - c as i32).abs());
    if pa <= pb && pa <= pc { a } else if pb <= pc { b } else { c }
}
pub fn png_forward(x: &[u8], tags: &[u8], bpp: usize, rb: usize) -> Vec<u8> {
    let mut o = Vec::new();
    let zero = vec![0u8; rb];
    for (ri, &t) in tags.iter().enumerate() {
        let row = &x[ri * rb..(ri + 1) * rb];
        let prior: &[u8] = if ri == 0 { &zero } else { &x[(ri - 1) * rb..ri * rb] };
        o.push(t);
        for i in 0..rb {
            let a = if i < bpp { 0 } else { row[i - bpp] };
            let b = prior[i];
            let c = if i < bpp { 0 } else { prior[i - bpp] };
            let p = match t { 0 => 0, 1 => a, 2 => b, 3 => ((a as u16 + b as u16) / 2) as u8, _ => paeth(a, b, c) };
            o.push(row[i].wrapping_sub(p));
        }
    }
    o
}
/// TIFF 6.0 section 14 horizontal differencing, written over the row as a bit string (independent of the
/// library's byte/shift code and of the Coq digit spec): sample k of a row occupies bits [k*bpc, (k+1)*bpc),
/// most significant bit first; padding bits of the output are zero.
pub fn tiff_forward(x: &[u8], colors: usize, samples: usize, bpc: usize, rb: usize) -> Vec<u8> {
    let mut o = Vec::new();
    if rb == 0 { return o; }
    let get = |row: &[u8], k: usize| -> u32 {
        let mut v = 0u32;
        for b in k * bpc..(k + 1) * bpc { v = (v << 1) | ((row[b / 8] >> (7 - b % 8)) & 1) as u32; }
        v
    };
    for row in x.chunks(rb) {
        let mut out = vec![0u8; row.len()];
        for k in 0..samples {
            let cur = get(row, k);
            let left = if k < colors { 0 } else { get(row, k - colors) };
            let d = cur.wrapping_sub(left) & ((1u32 << bpc) - 1);
            for t in 0..bpc {
                let b = k * bpc + t;
                if (d >> (bpc - 1 - t)) & 1 == 1 { out[b / 8] |= 0x80 >> (b % 8); }
            }
        }
        o.extend_from_slice(&out);
    }
    o
}
/// clear the padding bits after the last sample of every row (the reference form of sub-byte image data)
pub fn tiff_canon(x: &mut [u8], bits: usize, rb: usize) {
    if rb == 0 { return; }
    for row in x.chunks_mut(rb) {
        for b in bits..row.len() * 8 { row[b / 8] &= !(0x80u8 >> (b % 8)); }
    }
}

// ------------------------------------------------------------------ case plumbing
fn hx(v: &Value) -> Vec<u8> { unhex(v.as_str().unwrap_or("")) }

fn parms_obj(p: &Value) -> PdfObject {
    if p.is_null() { return PdfObject::Null; }
    let mut d = PdfDictionary::new();
    for (k, name) in [("pr", "Predictor"), ("co", "Columns"), ("cl", "Colors"), ("bp", "BitsPerComponent"), ("ec", "EarlyChange")] {
        if let Some(v) = p.get(k).and_then(|v| v.as_i64()) {
            d.insert(name.to_string(), PdfObject::Integer(v));
        }
    }
    PdfObject::Dictionary(d)
}
fn parms_rec_coq(p: &Value) -> String {
    let f = |k: &str| coq_opt(p.get(k).and_then(|v| v.as_i64()).map(|z| coq_z(z as i128)));
    format!("(mkP {} {} {} {} {})", f("pr"), f("co"), f("cl"), f("bp"), f("ec"))
}
fn parms_coq(p: &Value) -> String {
    if p.is_null() { return "None".into(); }
    format!("(Some {})", parms_rec_coq(p))
}
fn filt_coq(n: &str) -> &'static str {
    match n {
        "ASCIIHexDecode" => "FHex", "ASCII85Decode" => "F85", "LZWDecode" => "FLzw",
        "FlateDecode" => "FFlate", "RunLengthDecode" => "FRl", _ => "FUnknown",
    }
}
fn build_dict(c: &Value) -> PdfDictionary {
    let mut d = PdfDictionary::new();
    if let Some(fs) = c["filters"].as_array() {
        let names: Vec<PdfObject> = fs.iter().map(|f| PdfObject::Name(PdfName(f.as_str().unwrap().to_string()))).collect();
        if c["fname"].as_bool().unwrap_or(false) && names.len() == 1 {
            d.insert("Filter".into(), names[0].clone());
        } else {
            d.insert("Filter".into(), PdfObject::Array(PdfArray(names)));
        }
    }
    match &c["dp"] {
        Value::Array(a) => d.insert("DecodeParms".into(), PdfObject::Array(PdfArray(a.iter().map(parms_obj).collect()))),
        Value::Object(_) => d.insert("DecodeParms".into(), parms_obj(&c["dp"])),
        _ => {}
    }
    d
}
fn res_coq(r: &Result<Vec<u8>, ()>) -> String {
    match r { Ok(b) => format!("(Some {})", coq_bytes(b)), Err(_) => "None".into() }
}

pub struct Sink { pub out: Out, pub want_lims: bool, pub inner: Option<Out> }

/// channel "inner": the private bounded decoder of the case's FIRST filter on the case's data
#[cfg(oxidizepdf_verif)]
fn emit_inner(s: &mut Sink, c: &Value, data: &[u8]) {
    use oxidize_pdf::parser::filters::verif_decode_with_limit;
    let Some(f) = c["filters"].as_array().and_then(|a| a.first()).and_then(|f| f.as_str()) else { return };
    if f == "FlateDecode" { return; }
    let p0 = match &c["dp"] { Value::Array(a) => a.first().cloned().unwrap_or(Value::Null), Value::Object(_) => c["dp"].clone(), _ => Value::Null };
    let ec = p0.get("ec").and_then(|v| v.as_i64());
    let mut lims: Vec<u64> = c["lims"].as_array().map(|a| a.iter().filter_map(|v| v.as_u64()).collect()).unwrap_or_default();
    if !lims.contains(&(1u64 << 63)) { lims.push(1u64 << 63); }
    let mut res = vec![];
    for &l in &lims {
        match catch(AssertUnwindSafe(|| verif_decode_with_limit(f, data, ec, l as usize).map_err(|_| ()))) {
            Ok(r) => res.push((l, r)),
            Err(m) => {
                if let Some(o) = s.inner.as_mut() { o.impl_failures.push(json!({"what": format!("panic in private bounded decoder {f} (limit {l})"), "msg": m, "case": c})); }
                return;
            }
        }
    }
    let big = res.iter().find(|(l, _)| *l == 1u64 << 63).map(|(_, r)| r.clone()).unwrap();
    let lc = coq_list(res.iter().map(|(l, r)| format!("({}, {})", l, match (r, &big) { (Err(_), _) => "OErr".to_string(), (Ok(x), Ok(y)) if x == y => "ORef".to_string(), (Ok(x), _) => format!("(OBytes {})", coq_bytes(x)) })));
    let coq = format!("({}, {}, {}, {})", filt_coq(f), coq_opt(ec.map(|z| coq_z(z as i128))), coq_bytes(data), lc);
    if let Some(o) = s.inner.as_mut() { o.push(coq, c.clone(), &format!("inner_{f}"), big.as_ref().map_or(false, |b| !b.is_empty())); }
}
#[cfg(not(oxidizepdf_verif))]
fn emit_inner(_s: &mut Sink, _c: &Value, _data: &[u8]) {}

/// runs the real code on one JSON case and appends the Coq case
pub fn emit_case(s: &mut Sink, c: &Value, class: &str) {
    let data = hx(&c["data"]);
    let dict = build_dict(c);
    let opts = ParseOptions::default();
    let stream = PdfStream { dict: dict.clone(), data: data.clone() };
    let run = |f: &dyn Fn() -> Result<Vec<u8>, ()>| catch(AssertUnwindSafe(f));
    let fail = |s: &mut Sink, what: &str, msg: String| {
        s.out.impl_failures.push(json!({"what": what, "msg": msg, "case": c}));
    };
    let unb = match run(&|| stream.decode(&opts).map_err(|_| ())) {
        Ok(r) => r,
        Err(m) => return fail(s, "panic in PdfStream::decode", m),
    };
    match run(&|| decode_stream(&data, &dict, &opts).map_err(|_| ())) {
        Ok(r2) if r2 == unb => {}
        Ok(_) => return fail(s, "PdfStream::decode and filters::decode_stream disagree", String::new()),
        Err(m) => return fail(s, "panic in decode_stream", m),
    }
    if s.want_lims {
        emit_inner(s, c, &data);
    }
    let mut lims_coq = vec![];
    if s.want_lims {
        for l in c["lims"].as_array().cloned().unwrap_or_default() {
            let lim = l.as_u64().unwrap();
            let a = match run(&|| stream.decode_with_limit(&opts, lim as usize).map_err(|_| ())) {
                Ok(r) => r,
                Err(m) => return fail(s, &format!("panic in PdfStream::decode_with_limit({lim})"), m),
            };
            match run(&|| decode_stream_with_limit(&data, &dict, &opts, lim as usize).map_err(|_| ())) {
                Ok(b) if b == a => {}
                Ok(_) => return fail(s, "the two bounded entry points disagree", format!("limit {lim}")),
                Err(m) => return fail(s, "panic in decode_stream_with_limit", m),
            }
            let oc = match (&a, &unb) { (Err(_), _) => "OErr".to_string(), (Ok(x), Ok(y)) if x == y => "ORef".to_string(), (Ok(x), _) => format!("(OBytes {})", coq_bytes(x)) };
            lims_coq.push(format!("({}, {})", lim, oc));
        }
    }
    // Flate oracle: every input a Flate stage can see (the reference intermediates, and what the
    // library itself feeds into the stage on this data)
    let filters: Vec<String> = c["filters"].as_array().map(|a| a.iter().map(|f| f.as_str().unwrap().to_string()).collect()).unwrap_or_default();
    let mut tbl: Vec<(Vec<u8>, Option<Vec<u8>>, Vec<u8>)> = vec![];
    let mut add = |inp: Vec<u8>| {
        if tbl.iter().any(|t| t.0 == inp) { return; }
        let z = zlib_dec(&inp);
        let mut fd = PdfDictionary::new();
        fd.insert("Filter".into(), PdfObject::Name(PdfName("FlateDecode".into())));
        let rec = catch(AssertUnwindSafe(|| decode_stream(&inp, &fd, &opts).unwrap_or_default())).unwrap_or_default();
        tbl.push((inp, z, rec));
    };
    for (i, f) in filters.iter().enumerate() {
        if f != "FlateDecode" { continue; }
        if let Some(st) = c["ref"]["stages"].as_array() {
            if let Some(sg) = st.get(i) { add(hx(&sg["e"])); }
        }
        // input as the library computes it: decode with the first i filters only
        let mut pc = c.clone();
        pc["filters"] = json!(filters[..i].to_vec());
        pc["fname"] = json!(false);
        if let Value::Object(_) = c["dp"] {
            pc["dp"] = json!((0..i).map(|_| c["dp"].clone()).collect::<Vec<_>>());
        }
        let pd = build_dict(&pc);
        if let Ok(Ok(inp)) = catch(AssertUnwindSafe(|| decode_stream(&data, &pd, &opts))) { add(inp); }
        if let Ok(Ok(inp)) = catch(AssertUnwindSafe(|| decode_stream_with_limit(&data, &pd, &opts, usize::MAX))) { add(inp); }
    }
    let tbl_coq = coq_list(tbl.iter().map(|(k, z, r)| format!("({}, ({}, {}))", coq_bytes(k), coq_opt(z.as_ref().map(|b| coq_bytes(b))), coq_bytes(r))));
    let fk = if c["filters"].is_array() { format!("(Some {})", coq_list(filters.iter().map(|f| filt_coq(f).to_string()))) } else { "None".into() };
    let dp = match &c["dp"] {
        Value::Array(a) => format!("(DPArray {})", coq_list(a.iter().map(parms_coq))),
        Value::Object(_) => format!("(DPDict {})", parms_rec_coq(&c["dp"])),
        _ => "DPNone".into(),
    };
    let refx = if c["ref"].is_object() { Some(hx(&c["ref"]["x"])) } else { None };
    let rf = if let Some(rx) = &refx {
        let st = c["ref"]["stages"].as_array().cloned().unwrap_or_default();
        format!("(Some ({}, {}))", coq_bytes(rx), coq_list(st.iter().zip(&filters).map(|(sg, f)| {
            let (m, x) = (hx(&sg["mid"]), hx(&sg["x"]));
            format!("mkS {} {} {} {}", filt_coq(f),
                    if m == x { "None".to_string() } else { format!("(Some {})", coq_bytes(&m)) },
                    if &x == rx { "None".to_string() } else { format!("(Some {})", coq_bytes(&x)) },
                    coq_list(sg["tags"].as_array().cloned().unwrap_or_default().iter().map(|t| t.as_u64().unwrap().to_string())))
        })))
    } else { "None".into() };
    let out_c = match (&unb, &refx) { (Err(_), _) => "OErr".to_string(), (Ok(x), Some(y)) if x == y => "ORef".to_string(), (Ok(x), _) => format!("(OBytes {})", coq_bytes(x)) };
    let coq = format!("mkK {} {} {} {} {} {} {}", fk, dp, coq_bytes(&data), tbl_coq, rf, out_c, coq_list(lims_coq));
    let nontrivial = c["ref"].is_object() && !hx(&c["ref"]["x"]).is_empty() && !filters.is_empty();
    s.out.push(coq, c.clone(), class, nontrivial);
}

// ------------------------------------------------------------------ generators
pub fn gen_bytes(r: &mut Rng, n: usize) -> Vec<u8> {
    match r.below(8) {
        0 => vec![0u8; n],
        1 => (0..n).map(|i| (i % 251) as u8).collect(),
        2 => { // runs
            let mut v = Vec::with_capacity(n);
            while v.len() < n { let b = r.next() as u8; let k = r.range(1, 200) as usize; for _ in 0..k.min(n - v.len()) { v.push(b); } }
            v
        }
        3 => { let a = r.range(1, 3) as u8; (0..n).map(|_| (r.below(a as u64 + 1)) as u8 * 85).collect() } // few symbols
        4 => { // text-like, repeated phrases
            let words: [&[u8]; 6] = [b"stream ", b"endobj ", b"TTTT", b"<<", b"\0\0\0\0", b"WXYZ"];
            let mut v = Vec::with_capacity(n + 8);
            while v.len() < n { v.extend_from_slice(*r.pick(&words)); }
            v.truncate(n);
            v
        }
        5 => (0..n).map(|_| if r.chance(1, 3) { 0xFF } else { 0 }).collect(),
        _ => r.bytes(n),
    }
}

struct Stage { f: &'static str, p: Value, e: Vec<u8>, mid: Vec<u8>, x: Vec<u8>, tags: Vec<u8> }

const FILTERS: [&str; 5] = ["ASCIIHexDecode", "ASCII85Decode", "LZWDecode", "FlateDecode", "RunLengthDecode"];

/// encode x through one filter (with optional predictor params) -> stage witness
fn encode_stage(r: &mut Rng, f: &'static str, x: &[u8], pred: Option<(i64, i64, i64, i64)>, ec: Option<i64>, style: u64) -> Stage {
    let mut p = serde_json::Map::new();
    let mut tags = vec![];
    let mut mid = x.to_vec();
    if let Some((pr, co, cl, bp)) = pred {
        p.insert("pr".into(), json!(pr));
        if !(co == 1 && r.chance(1, 2)) { p.insert("co".into(), json!(co)); }
        if !(cl == 1 && r.chance(1, 2)) { p.insert("cl".into(), json!(cl)); }
        if !(bp == 8 && r.chance(1, 2)) { p.insert("bp".into(), json!(bp)); }
        let rb = ((co * cl * bp + 7) / 8) as usize;
        let bpp = (((cl * bp + 7) / 8) as usize).max(1);
        if (10..=15).contains(&pr) {
            let rows = x.len() / rb;
            tags = (0..rows).map(|_| if pr == 15 || r.chance(1, 3) { r.below(5) as u8 } else { (pr - 10).min(4) as u8 }).collect();
            mid = png_forward(x, &tags, bpp, rb);
        } else if pr == 2 {
            mid = tiff_forward(x, cl as usize, (co * cl) as usize, bp as usize, rb);
        }
    }
    if let Some(e) = ec { p.insert("ec".into(), json!(e)); }
    let ecb = ec.map_or(true, |e| e != 0);
    let e = match f {
        "ASCIIHexDecode" => enc_hex(r, &mid, style),
        "ASCII85Decode" => enc_a85(r, &mid, style),
        "RunLengthDecode" => enc_rl(r, &mid, style),
        "LZWDecode" => enc_lzw(&mid, ecb),
        _ => enc_flate(&mid, (style % 10) as u32),
    };
    Stage { f, p: if p.is_empty() { Value::Null } else { Value::Object(p) }, e, mid, x: x.to_vec(), tags }
}

fn limits_for(x: &[u8], stages: &[Stage]) -> Vec<u64> {
    let n = x.len() as u64;
    let peak = stages.iter().map(|s| s.mid.len().max(s.x.len()) as u64).max().unwrap_or(n);
    let mut l = vec![0, 1, n.saturating_sub(1), n, n + 1, 2 * n, 1u64 << 63, peak.saturating_sub(1), peak, peak + 1];
    l.sort();
    l.dedup();
    l
}

/// chain = filters in DECODING order; encoding runs from the last to the first
fn ref_case(r: &mut Rng, x: &[u8], chain: &[&'static str], pred: Option<(i64, i64, i64, i64)>, ec: Option<i64>, style: Option<u64>) -> Value {
    let style = style.unwrap_or_else(|| r.next());
    let mut stages: Vec<Stage> = vec![];
    let mut cur = x.to_vec();
    for (i, f) in chain.iter().enumerate().rev() {
        let last = i == chain.len() - 1;
        let can_pred = last && (*f == "LZWDecode" || *f == "FlateDecode");
        let sty = if last { style } else { r.next() };
        let st = encode_stage(r, f, &cur, if can_pred { pred } else { None }, if *f == "LZWDecode" { ec } else { None }, sty);
        cur = st.e.clone();
        stages.insert(0, st);
    }
    let single_dict = chain.len() == 1 && r.chance(1, 2);
    let dp = if stages.iter().all(|s| s.p.is_null()) && r.chance(2, 3) { Value::Null }
             else if single_dict && !stages[0].p.is_null() { stages[0].p.clone() }
             else { json!(stages.iter().map(|s| s.p.clone()).collect::<Vec<_>>()) };
    json!({
        "filters": chain, "fname": r.chance(1, 2), "dp": dp, "data": hex(&cur),
        "lims": limits_for(x, &stages),
        "ref": {"x": hex(x), "stages": stages.iter().map(|s| json!({"e": hex(&s.e), "mid": hex(&s.mid), "x": hex(&s.x), "tags": s.tags})).collect::<Vec<_>>()}
    })
}

fn pred_params(r: &mut Rng, full: bool) -> (i64, i64, i64, i64) {
    let pr = *r.pick(&[2i64, 10, 11, 12, 13, 14, 15, 15, 12]);
    let cl = r.range(1, 4) as i64;
    let bp = *r.pick(&[1i64, 2, 4, 8, 8, 16]);
    let co = if full { r.range(1, 64) } else { r.range(1, 9) } as i64;
    (pr, co, cl, bp)
}

pub fn generate(ctx: &Ctx, s: &mut Sink) {
    let mut r = Rng::new(ctx.seed ^ 0xC07);
    let th = ctx.thorough();
    // 1. every single filter x structured lengths 0..64
    for f in FILTERS {
        for n in 0..=64usize {
            for k in 0..(if th { 4 } else { 2 }) {
                let x = if k == 0 && n <= 8 { vec![0u8; n] } else { gen_bytes(&mut r, n) };
                let ec = if f == "LZWDecode" { *r.pick(&[None, Some(1), Some(0), Some(0)]) } else { None };
                let c = ref_case(&mut r, &x, &[f], None, ec, None);
                emit_case(s, &c, &format!("single_{f}"));
            }
        }
    }
    // 2. ASCII85 first-character classes (every leading byte value) and hex digit sweep
    for b in 0..=255u8 {
        let x = vec![b, r.next() as u8, r.next() as u8, r.next() as u8, b];
        let c = ref_case(&mut r, &x, &["ASCII85Decode"], None, None, Some((b as u64) & 1));
        emit_case(s, &c, "a85_lead");
        let c = ref_case(&mut r, &[b], &["ASCIIHexDecode"], None, None, None);
        emit_case(s, &c, "hex_byte");
    }
    // 3. chains up to length 3
    let nchain = if th { 1500 } else { 350 };
    for _ in 0..nchain {
        let len = r.range(2, 3) as usize;
        let chain: Vec<&'static str> = (0..len).map(|_| *r.pick(&FILTERS)).collect();
        let n = if r.chance(1, 10) { r.range(200, 1500) } else { r.range(0, 64) } as usize;
        let mut x = gen_bytes(&mut r, n);
        let last = chain[len - 1];
        let pred = if (last == "LZWDecode" || last == "FlateDecode") && r.chance(1, 2) { Some(pred_params(&mut r, false)) } else { None };
        if let Some((pr, co, cl, bp)) = pred {
            let rb = ((co * cl * bp + 7) / 8) as usize;
            x.truncate(x.len() / rb * rb);
            if pr == 2 { tiff_canon(&mut x, (co * cl * bp) as usize, rb); }
        }
        let ec = *r.pick(&[None, Some(1), Some(0)]);
        let c = ref_case(&mut r, &x, &chain, pred, ec, None);
        emit_case(s, &c, &format!("chain{len}"));
    }
    // 4. predictors: {2,10..15} x colours 1..4 x bpc {1,2,4,8,16} x columns 1..64
    let npred = if th { 3000 } else { 700 };
    for i in 0..npred {
        let (pr, co, cl, bp) = pred_params(&mut r, true);
        let rb = ((co * cl * bp + 7) / 8) as usize;
        let rows = r.range(0, if rb > 100 { 3 } else { 6 }) as usize;
        let mut x = gen_bytes(&mut r, rows * rb);
        if pr == 2 { tiff_canon(&mut x, (co * cl * bp) as usize, rb); }
        let f = if i % 2 == 0 { "FlateDecode" } else { "LZWDecode" };
        let ecp = if f == "LZWDecode" { *r.pick(&[None, Some(0)]) } else { None };
        let c = ref_case(&mut r, &x, &[f], Some((pr, co, cl, bp)), ecp, None);
        emit_case(s, &c, &format!("pred{}", if pr == 2 { format!("_tiff_bpc{bp}") } else { format!("_png_bpc{bp}") }));
    }
    // TIFF predictor 2, small and systematic: every depth x colours 1..4 x columns 1..5 x wrap-prone rows
    // (all ones: every difference but the first wraps; ramps; alternating extremes; random)
    for bp in [1i64, 2, 4, 8, 16] {
        for cl in 1..=4i64 { for co in 1..=5i64 {
            let rb = ((co * cl * bp + 7) / 8) as usize;
            for pat in 0..(if th { 6 } else { 4 }) {
                let rows = 1 + (pat as usize + co as usize) % 3;
                let mut x: Vec<u8> = match pat {
                    0 => vec![0xFF; rows * rb],
                    1 => (0..rows * rb).map(|i| (i * 37 + 1) as u8).collect(),
                    2 => (0..rows * rb).map(|i| if i % 2 == 0 { 0 } else { 0xFF }).collect(),
                    _ => r.bytes(rows * rb),
                };
                tiff_canon(&mut x, (co * cl * bp) as usize, rb);
                let f = if (pat + co as u64 + cl as u64) % 2 == 0 { "FlateDecode" } else { "LZWDecode" };
                let c = ref_case(&mut r, &x, &[f], Some((2, co, cl, bp)), None, None);
                emit_case(s, &c, &format!("tiff_small_bpc{bp}"));
            }
        }}
    }
    // TIFF predictor 2 on data that is not an image of the declared shape (row size does not divide the length,
    // unsupported depth, zero/negative sizes): unbounded keeps the undecoded data, bounded reports the error
    for (co, cl, bp, n) in [(3i64, 1i64, 8i64, 7usize), (2, 2, 4, 5), (1, 1, 3, 4), (1, 1, 0, 4), (0, 1, 8, 4), (1, 0, 8, 4), (1, -1, 8, 4),
                            (i64::MAX, 2, 8, 4), (1 << 40, 1 << 30, 16, 6), (4, 1, 16, 8), (4, 1, 16, 9), (1, 1, 32, 4), (5, 1, 1, 0)] {
        let d = r.bytes(n);
        let e = enc_flate(&d, 6);
        emit_case(s, &json!({"filters": ["FlateDecode"], "fname": true, "dp": {"pr": 2, "co": co, "cl": cl, "bp": bp}, "data": hex(&e),
                             "lims": [0, 1, n as u64, n as u64 + 1, 64]}), "tiff_not_an_image");
    }
    // exhaustive small: all 5 tags x tie-prone rows (Paeth ties, Average carries)
    for t in 0..5u8 {
        for a in [0u8, 1, 2, 127, 128, 255] { for b in [0u8, 1, 2, 128, 255] { for cc in [0u8, 1, 3, 255] {
            let x = vec![cc, b, a, a.wrapping_add(b), b, cc];
            let rb = 3; let tags = vec![t, t];
            let mid = png_forward(&x, &tags, 1, rb);
            let e = enc_flate(&mid, 6);
            let c = json!({"filters": ["FlateDecode"], "fname": true, "dp": {"pr": 12, "co": 3}, "data": hex(&e), "lims": [0, 5, 6, 7, 8, 9],
                "ref": {"x": hex(&x), "stages": [{"e": hex(&e), "mid": hex(&mid), "x": hex(&x), "tags": tags}]}});
            emit_case(s, &c, "png_small_exhaustive");
        }}}
    }
    // 5. LZW: lengths crossing the 9->10->11->12-bit boundaries and the 4096 reset
    let big: Vec<usize> = if th { vec![300, 520, 700, 1100, 1600, 2300, 3200, 5000, 6000, 7000, 8000, 9000] } else { vec![300, 520, 800, 1600, 3300, 5200] };
    for n in big {
        for ec in [Some(1), Some(0), None] {
            if ec.is_none() && n > 2000 { continue; }
            let x = if n % 2 == 0 { r.bytes(n) } else { gen_bytes(&mut r, n) };
            let c = ref_case(&mut r, &x, &["LZWDecode"], None, ec, Some(0));
            emit_case(s, &c, "lzw_boundaries");
        }
    }
    // exactly at the widening points: random data creates one entry per byte after the first two
    for ec in [Some(1), Some(0)] {
        for n in (250..262).chain(506..518).chain(762..774).chain(1018..1030) {
            let x: Vec<u8> = (0..n).map(|i| ((i * 7 + i / 256 * 13) % 256) as u8).collect();
            let c = ref_case(&mut r, &x, &["LZWDecode"], None, ec, Some(0));
            emit_case(s, &c, "lzw_threshold_sweep");
        }
    }
    // 6. malformed / random data (C08: must not panic, must respect the limit; also ties the model's error paths)
    let nbad = if th { 4000 } else { 700 };
    for i in 0..nbad {
        let len = r.range(1, if i % 7 == 0 { 3 } else { 1 }) as usize;
        let chain: Vec<&'static str> = (0..len).map(|_| *r.pick(&FILTERS)).collect();
        let n = r.range(0, 48) as usize;
        let mut data = match r.below(6) {
            0 => r.bytes(n),
            1 => { // printable soup in the hex / a85 alphabets
                let alpha: &[u8] = b"0123456789abcdefABCDEF>  \n\0~<zuts!\"#Gg";
                (0..n).map(|_| *r.pick(alpha)).collect()
            }
            _ => { // a reference encoding with a few mutations
                let x = gen_bytes(&mut r, n);
                let mut e = ref_case(&mut r, &x, &chain, None, None, None)["data"].as_str().map(unhex).unwrap();
                for _ in 0..r.range(1, 3) {
                    if e.is_empty() { break; }
                    let k = r.below(e.len() as u64) as usize;
                    match r.below(3) { 0 => e[k] = r.next() as u8, 1 => { e.remove(k); } _ => e.insert(k, *r.pick(b"z~><u\0 \x80\xff")) }
                }
                e
            }
        };
        if r.chance(1, 20) { data.clear(); }
        let with_p = r.chance(1, 3);
        let dp = if with_p {
            let (pr, co, cl, bp) = pred_params(&mut r, false);
            let weird = [-1i64, 0, 1, 2, 3, 4294967308, i64::MAX, i64::MIN, 1 << 32, 65536];
            let pick = |r: &mut Rng, v: i64| if r.chance(1, 5) { *r.pick(&weird) } else { v };
            let p = json!({"pr": pick(&mut r, pr), "co": pick(&mut r, co), "cl": pick(&mut r, cl), "bp": pick(&mut r, bp), "ec": *r.pick(&[0i64, 1, 2, -1])});
            if len == 1 && r.chance(1, 2) { p } else { json!((0..len).map(|j| if j == 0 || r.chance(1, 2) { p.clone() } else { Value::Null }).collect::<Vec<_>>()) }
        } else { Value::Null };
        let n2 = data.len() as u64;
        let c = json!({"filters": chain, "fname": r.chance(1, 2), "dp": dp, "data": hex(&data),
                       "lims": [0, 1, n2 / 2, n2, 2 * n2 + 4, 1u64 << 63]});
        emit_case(s, &c, "malformed");
    }
    // 7. no /Filter, empty filter array, known defect witnesses
    for n in [0usize, 1, 5] {
        let d = r.bytes(n);
        emit_case(s, &json!({"filters": null, "dp": null, "data": hex(&d), "lims": [0, 1, 4, 5, 6], "ref": {"x": hex(&d), "stages": []}}), "no_filter");
        emit_case(s, &json!({"filters": [], "dp": null, "data": hex(&d), "lims": [0, 1, 4, 5, 6], "ref": {"x": hex(&d), "stages": []}}), "empty_filter_array");
    }
    for (f, d) in [("ASCII85Decode", &b"uuuuu~>"[..]), ("ASCII85Decode", b"s8W-\"~>"), ("ASCII85Decode", b"s8W-!~>"), ("ASCII85Decode", b"tzzzz~>"),
                   ("ASCII85Decode", b"uu~>"), ("ASCII85Decode", b"<+U,m~>"), ("ASCII85Decode", b"<~<+U,m~>"), ("ASCII85Decode", b"<"), ("ASCII85Decode", b"<~"),
                   ("ASCIIHexDecode", b"41\x0042>"), ("ASCIIHexDecode", b"4>41"), ("ASCIIHexDecode", b"4\x0b1>"), ("ASCII85Decode", b"87c\x00URD~>")] {
        emit_case(s, &json!({"filters": [f], "fname": true, "dp": null, "data": hex(d), "lims": [0, 1, 2, 3, 4, 5, 8]}), "witness");
    }
    // TIFF predictor 2 with a row size far beyond the data (found by the thorough tier: /Colors 2^32+12 with empty data
    // made the MODEL convert the row size to a unary nat; the implementation returns the empty output / a size error)
    for (co, cl) in [(4294967308i64, 1i64), (1, 4294967308), (1 << 40, 3)] {
        for d in [&b""[..], b"41>", b"4142434445464748>"] {
            emit_case(s, &json!({"filters": ["ASCIIHexDecode"], "fname": true, "dp": {"pr": 2, "co": co, "cl": cl, "bp": 16, "ec": 1}, "data": hex(d), "lims": [0, 1, 4]}), "witness");
        }
    }
    for cl in [-1i64, 0, i64::MIN, 1 << 62] {
        let e = enc_flate(&[0, 1, 2, 3], 6);
        emit_case(s, &json!({"filters": ["FlateDecode"], "fname": true, "dp": {"pr": 12, "cl": cl, "co": 3}, "data": hex(&e), "lims": [0, 3, 4, 5]}), "witness");
    }
}

pub fn run_with(ctx: &Ctx, checker: &str, want_lims: bool, channel: &str) {
    let header = "From OxVerif Require Import Base.Util C07.Filters C07.Predictor C07.Lzw C07.Chain C07.Codecs C07.Check.";
    let mut out = Out::new(ctx, header, "kase", checker);
    out.shard_size = 120;
    let inner = if want_lims {
        let mut o = Out::new(ctx, header, "inner_case", "inner_code");
        o.shard_size = 250;
        Some(o)
    } else { None };
    let mut s = Sink { out, want_lims, inner };
    if let Some(cases) = ctx.replay_cases() {
        for c in cases { emit_case(&mut s, &c, "replay"); }
    } else {
        generate(ctx, &mut s);
    }
    s.out.finish(channel);
    if let Some(o) = s.inner { o.finish("inner"); }
}

pub fn run(ctx: &Ctx) { run_with(ctx, "c07_code", false, "filters"); }
