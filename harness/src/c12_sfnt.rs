//! Independent sfnt/TrueType reader (table directory, head/maxp/hhea/hmtx/loca/glyf, cmap 4/12) used by
//! the C12 and C13 harnesses to extract the ABSTRACT font the Coq side judges, plus a small sfnt encoder
//! for generated fonts (short/long loca, cmap format 12).  Written from the OpenType spec; shares no code
//! with the library.
#![allow(dead_code)]
use std::collections::{BTreeMap, BTreeSet};

pub fn be16(d: &[u8], o: usize) -> Result<u16, String> {
    d.get(o..o + 2).map(|b| u16::from_be_bytes([b[0], b[1]])).ok_or_else(|| format!("read u16 at {o} out of bounds"))
}
pub fn be32(d: &[u8], o: usize) -> Result<u32, String> {
    d.get(o..o + 4).map(|b| u32::from_be_bytes([b[0], b[1], b[2], b[3]])).ok_or_else(|| format!("read u32 at {o} out of bounds"))
}

#[derive(Clone, Debug, PartialEq)]
pub enum Glyph {
    Simple { outline: Vec<u8>, ilen: usize },
    Composite { comps: Vec<(u16, u16, Vec<u8>)>, ilen: usize },
}
impl Glyph {
    pub fn comp_gids(&self) -> Vec<u16> {
        match self {
            Glyph::Simple { .. } => vec![],
            Glyph::Composite { comps, .. } => comps.iter().map(|c| c.0).collect(),
        }
    }
}

pub struct Sfnt<'a> {
    pub d: &'a [u8],
    pub tabs: BTreeMap<[u8; 4], (usize, usize, u32)>,
    pub ng: usize,
    pub loca_fmt: i16,
    pub nhm: usize,
    pub upem: u16,
}

pub fn table_checksum(t: &[u8]) -> u32 {
    let mut s = 0u32;
    for ch in t.chunks(4) {
        let mut w = [0u8; 4];
        w[..ch.len()].copy_from_slice(ch);
        s = s.wrapping_add(u32::from_be_bytes(w));
    }
    s
}

impl<'a> Sfnt<'a> {
    pub fn parse(d: &'a [u8]) -> Result<Self, String> {
        let n = be16(d, 4)? as usize;
        let mut tabs = BTreeMap::new();
        for i in 0..n {
            let o = 12 + 16 * i;
            let tag: [u8; 4] = d.get(o..o + 4).ok_or("directory truncated")?.try_into().unwrap();
            let cs = be32(d, o + 4)?;
            let off = be32(d, o + 8)? as usize;
            let len = be32(d, o + 12)? as usize;
            if off.checked_add(len).map_or(true, |e| e > d.len()) {
                return Err(format!("table {} outside the file", String::from_utf8_lossy(&tag)));
            }
            tabs.insert(tag, (off, len, cs));
        }
        let mut s = Sfnt { d, tabs, ng: 0, loca_fmt: 0, nhm: 0, upem: 0 };
        let head = s.table(b"head").ok_or("no head")?;
        s.upem = be16(head, 18)?;
        s.loca_fmt = be16(head, 50)? as i16;
        s.ng = be16(s.table(b"maxp").ok_or("no maxp")?, 4)? as usize;
        s.nhm = be16(s.table(b"hhea").ok_or("no hhea")?, 34)? as usize;
        Ok(s)
    }
    pub fn table(&self, tag: &[u8; 4]) -> Option<&'a [u8]> {
        self.tabs.get(tag).map(|&(o, l, _)| &self.d[o..o + l])
    }
    pub fn loca(&self, g: usize) -> Result<usize, String> {
        let l = self.table(b"loca").ok_or("no loca")?;
        if self.loca_fmt == 0 {
            Ok(be16(l, 2 * g)? as usize * 2)
        } else {
            Ok(be32(l, 4 * g)? as usize)
        }
    }
    pub fn glyph_bytes(&self, g: usize) -> Result<&'a [u8], String> {
        if g >= self.ng {
            return Ok(&[]);
        }
        let (a, b) = (self.loca(g)?, self.loca(g + 1)?);
        let glyf = self.table(b"glyf").ok_or("no glyf")?;
        if a > b || b > glyf.len() {
            return Err(format!("glyph {g}: loca range {a}..{b} outside glyf ({})", glyf.len()));
        }
        Ok(&glyf[a..b])
    }
    pub fn glyph(&self, g: usize) -> Result<Glyph, String> {
        parse_glyph(self.glyph_bytes(g)?).map_err(|e| format!("glyph {g}: {e}"))
    }
    /// (advance, lsb) per the hmtx rules
    pub fn metrics(&self, g: usize) -> Result<(u16, i16), String> {
        let h = self.table(b"hmtx").ok_or("no hmtx")?;
        if self.nhm == 0 {
            return Err("numberOfHMetrics = 0".into());
        }
        if g < self.nhm {
            Ok((be16(h, 4 * g)?, be16(h, 4 * g + 2)? as i16))
        } else {
            let adv = be16(h, 4 * (self.nhm - 1))?;
            let lsb = be16(h, 4 * self.nhm + 2 * (g - self.nhm)).unwrap_or(0) as i16;
            Ok((adv, lsb))
        }
    }
    /// code point -> gid from the preferred Unicode subtable ((3,10) > (3,1) > (0,*)), formats 4 and 12
    pub fn cmap(&self) -> Result<BTreeMap<u32, u16>, String> {
        let c = self.table(b"cmap").ok_or("no cmap")?;
        let n = be16(c, 2)? as usize;
        let mut best: Option<(u8, usize)> = None;
        for i in 0..n {
            let (p, e, o) = (be16(c, 4 + 8 * i)?, be16(c, 6 + 8 * i)?, be32(c, 8 + 8 * i)? as usize);
            let fmt = be16(c, o)?;
            if fmt != 4 && fmt != 12 {
                continue;
            }
            let rank = match (p, e) {
                (3, 10) => 3,
                (3, 1) => 2,
                (0, _) => 1,
                _ => 0,
            };
            if rank > 0 && best.map_or(true, |(r, _)| rank >= r) {
                best = Some((rank, o));
            }
        }
        let (_, o) = best.ok_or("no Unicode cmap subtable")?;
        let mut m = BTreeMap::new();
        if be16(c, o)? == 12 {
            let ngr = be32(c, o + 12)? as usize;
            for k in 0..ngr {
                let (s, e, g) = (be32(c, o + 16 + 12 * k)?, be32(c, o + 20 + 12 * k)?, be32(c, o + 24 + 12 * k)?);
                for cp in s..=e {
                    m.insert(cp, (g + (cp - s)) as u16);
                }
            }
        } else {
            let segx2 = be16(c, o + 6)? as usize;
            let (endo, starto, deltao, rango) = (o + 14, o + 16 + segx2, o + 16 + 2 * segx2, o + 16 + 3 * segx2);
            for k in 0..segx2 / 2 {
                let (e, s, dl, ro) = (be16(c, endo + 2 * k)?, be16(c, starto + 2 * k)?, be16(c, deltao + 2 * k)?, be16(c, rango + 2 * k)?);
                for cp in s as u32..=e as u32 {
                    if cp == 0xFFFF {
                        continue;
                    }
                    let g = if ro == 0 {
                        (cp as u16).wrapping_add(dl)
                    } else {
                        let p = rango + 2 * k + ro as usize + 2 * (cp as usize - s as usize);
                        let v = be16(c, p)?;
                        if v == 0 {
                            0
                        } else {
                            v.wrapping_add(dl)
                        }
                    };
                    if g != 0 {
                        m.insert(cp, g);
                    }
                }
            }
        }
        Ok(m)
    }
    /// structural soundness of a glyf-flavoured sfnt (what a reader needs to get at every glyph and metric)
    pub fn problems(&self) -> Vec<String> {
        let mut p = vec![];
        for t in [b"head", b"hhea", b"maxp", b"hmtx", b"loca", b"glyf"] {
            if self.table(t).is_none() {
                p.push(format!("missing table {}", String::from_utf8_lossy(t)));
            }
        }
        if !p.is_empty() {
            return p;
        }
        for (tag, &(o, l, cs)) in &self.tabs {
            if o % 4 != 0 {
                p.push(format!("table {} not 4-byte aligned", String::from_utf8_lossy(tag)));
            }
            if tag != b"head" && table_checksum(&self.d[o..o + l]) != cs {
                p.push(format!("table {} checksum mismatch", String::from_utf8_lossy(tag)));
            }
        }
        let loca = self.table(b"loca").unwrap();
        let want = (self.ng + 1) * if self.loca_fmt == 0 { 2 } else { 4 };
        if loca.len() < want {
            p.push(format!("loca has {} bytes, {} glyphs need {}", loca.len(), self.ng, want));
            return p;
        }
        if self.nhm == 0 || self.nhm > self.ng || self.table(b"hmtx").unwrap().len() < 4 * self.nhm + 2 * (self.ng - self.nhm) {
            p.push("hmtx/hhea inconsistent with numGlyphs".into());
        }
        for g in 0..self.ng {
            match self.glyph(g) {
                Err(e) => {
                    p.push(e);
                    if p.len() > 4 {
                        break;
                    }
                }
                Ok(gl) => {
                    if gl.comp_gids().iter().any(|&c| c as usize >= self.ng) {
                        p.push(format!("glyph {g}: component gid out of range"));
                    }
                }
            }
        }
        p
    }
    /// gids reachable from the seeds through composite components
    pub fn closure(&self, seeds: &BTreeSet<u16>) -> Result<BTreeSet<u16>, String> {
        let mut s = seeds.clone();
        let mut todo: Vec<u16> = seeds.iter().copied().collect();
        while let Some(g) = todo.pop() {
            for c in self.glyph(g as usize)?.comp_gids() {
                if s.insert(c) {
                    todo.push(c);
                }
            }
        }
        Ok(s)
    }
}

/// abstract view of one glyph's bytes; trailing padding after the last coordinate is not part of the outline
pub fn parse_glyph(b: &[u8]) -> Result<Glyph, String> {
    if b.is_empty() {
        return Ok(Glyph::Simple { outline: vec![], ilen: 0 });
    }
    if b.len() < 10 {
        return Err("glyph header truncated".into());
    }
    let nc = be16(b, 0)? as i16;
    if nc >= 0 {
        let nc = nc as usize;
        let io = 10 + 2 * nc;
        if b.len() < io + 2 {
            return Ok(Glyph::Simple { outline: b.to_vec(), ilen: 0 });
        }
        let npts = if nc == 0 { 0 } else { be16(b, io - 2)? as usize + 1 };
        let ilen = be16(b, io)? as usize;
        let mut p = io + 2 + ilen;
        let (mut seen, mut xs, mut ys) = (0usize, 0usize, 0usize);
        while seen < npts {
            let f = *b.get(p).ok_or("flags truncated")?;
            p += 1;
            let mut rep = 1usize;
            if f & 8 != 0 {
                rep += *b.get(p).ok_or("repeat count truncated")? as usize;
                p += 1;
            }
            let x = if f & 2 != 0 { 1 } else if f & 16 != 0 { 0 } else { 2 };
            let y = if f & 4 != 0 { 1 } else if f & 32 != 0 { 0 } else { 2 };
            xs += x * rep;
            ys += y * rep;
            seen += rep;
        }
        let end = p + xs + ys;
        if end > b.len() {
            return Err(format!("coordinates end at {end}, glyph has {} bytes", b.len()));
        }
        let mut outline = b[..io].to_vec();
        outline.extend_from_slice(&b[io + 2 + ilen..end]);
        Ok(Glyph::Simple { outline, ilen })
    } else {
        let mut comps = vec![];
        let mut p = 10;
        loop {
            let fl = be16(b, p)?;
            let g = be16(b, p + 2)?;
            let mut n = if fl & 1 != 0 { 4 } else { 2 };
            n += if fl & 0x80 != 0 { 8 } else if fl & 0x40 != 0 { 4 } else if fl & 8 != 0 { 2 } else { 0 };
            let tr = b.get(p + 4..p + 4 + n).ok_or("component record truncated")?.to_vec();
            comps.push((g, fl, tr));
            p += 4 + n;
            if fl & 0x20 == 0 {
                break;
            }
        }
        let ilen = if comps.last().unwrap().1 & 0x100 != 0 {
            let l = be16(b, p)? as usize;
            if p + 2 + l > b.len() {
                return Err("composite instructions truncated".into());
            }
            l
        } else {
            0
        };
        Ok(Glyph::Composite { comps, ilen })
    }
}

/// Encode a glyf-flavoured sfnt from glyph byte strings (already renumbered), metrics and a cmap.
/// `short_loca`: offsets/2 in u16 (glyphs padded to even length), else u32 (padded to 4).
/// `pad_to`: a filler table makes the file at least this large (the subsetter only works on files >= 100 000 bytes).
pub fn encode(src: &Sfnt, glyphs: &[Vec<u8>], metrics: &[(u16, i16)], cmap: &BTreeMap<u32, u16>, short_loca: bool, pad_to: usize) -> Vec<u8> {
    let ng = glyphs.len();
    let mut glyf = vec![];
    let mut loca = vec![];
    for g in glyphs {
        if short_loca {
            loca.extend_from_slice(&((glyf.len() / 2) as u16).to_be_bytes());
        } else {
            loca.extend_from_slice(&(glyf.len() as u32).to_be_bytes());
        }
        glyf.extend_from_slice(g);
        let al = if short_loca { 2 } else { 4 };
        while glyf.len() % al != 0 {
            glyf.push(0);
        }
    }
    if short_loca {
        assert!(glyf.len() <= 0x1FFFE, "short loca cannot address {} bytes", glyf.len());
        loca.extend_from_slice(&((glyf.len() / 2) as u16).to_be_bytes());
    } else {
        loca.extend_from_slice(&(glyf.len() as u32).to_be_bytes());
    }
    let mut head = src.table(b"head").unwrap().to_vec();
    head[50] = 0;
    head[51] = if short_loca { 0 } else { 1 };
    let mut hhea = src.table(b"hhea").unwrap().to_vec();
    hhea[34..36].copy_from_slice(&(ng as u16).to_be_bytes());
    let mut maxp = src.table(b"maxp").unwrap().to_vec();
    maxp[4..6].copy_from_slice(&(ng as u16).to_be_bytes());
    let mut hmtx = vec![];
    for (a, l) in metrics {
        hmtx.extend_from_slice(&a.to_be_bytes());
        hmtx.extend_from_slice(&l.to_be_bytes());
    }
    // cmap: one format-12 subtable (3,10), one group per run of consecutive (cp, gid)
    let mut groups: Vec<(u32, u32, u32)> = vec![];
    for (&cp, &g) in cmap {
        if let Some(l) = groups.last_mut() {
            if l.1 + 1 == cp && l.2 + (l.1 - l.0) + 1 == g as u32 {
                l.1 = cp;
                continue;
            }
        }
        groups.push((cp, cp, g as u32));
    }
    let mut cm = vec![0, 0, 0, 1, 0, 3, 0, 10, 0, 0, 0, 12];
    cm.extend_from_slice(&[0, 12, 0, 0]);
    cm.extend_from_slice(&((16 + 12 * groups.len()) as u32).to_be_bytes());
    cm.extend_from_slice(&0u32.to_be_bytes());
    cm.extend_from_slice(&(groups.len() as u32).to_be_bytes());
    for (s, e, g) in &groups {
        cm.extend_from_slice(&s.to_be_bytes());
        cm.extend_from_slice(&e.to_be_bytes());
        cm.extend_from_slice(&g.to_be_bytes());
    }
    let mut post = vec![0, 3, 0, 0];
    post.resize(32, 0);
    let mut tabs: Vec<([u8; 4], Vec<u8>)> = vec![
        (*b"cmap", cm),
        (*b"glyf", glyf),
        (*b"head", head),
        (*b"hhea", hhea),
        (*b"hmtx", hmtx),
        (*b"loca", loca),
        (*b"maxp", maxp),
        (*b"post", post),
    ];
    let sz: usize = 12 + 16 * 9 + tabs.iter().map(|t| (t.1.len() + 3) & !3).sum::<usize>();
    tabs.push((*b"zpad", vec![0u8; pad_to.saturating_sub(sz).max(4)]));
    let n = tabs.len();
    let mut out = vec![0, 1, 0, 0];
    out.extend_from_slice(&(n as u16).to_be_bytes());
    out.extend_from_slice(&[0, 128, 0, 3, 0, (n * 16 - 128) as u8]);
    let mut off = 12 + 16 * n;
    for (tag, data) in &tabs {
        out.extend_from_slice(tag);
        out.extend_from_slice(&table_checksum(data).to_be_bytes());
        out.extend_from_slice(&(off as u32).to_be_bytes());
        out.extend_from_slice(&(data.len() as u32).to_be_bytes());
        off += (data.len() + 3) & !3;
    }
    for (_, data) in &tabs {
        out.extend_from_slice(data);
        while out.len() % 4 != 0 {
            out.push(0);
        }
    }
    out
}

/// Derive a smaller font from `src`: the closure of `want` gids, renumbered ascending, with the given loca format.
/// `composites_first`: glyph order .notdef, composites that carry a character (outermost first, so chains
/// refer forward too), other composites, simple glyphs — every component reference then points at a HIGHER gid.
pub fn derive(src: &Sfnt, want: &BTreeSet<u16>, short_loca: bool, pad_to: usize, composites_first: bool) -> Result<Vec<u8>, String> {
    let mut seeds = want.clone();
    seeds.insert(0);
    let mut keep: Vec<u16> = src.closure(&seeds)?.into_iter().collect();
    if composites_first {
        fn depth(src: &Sfnt, g: u16, fuel: usize) -> usize {
            if fuel == 0 {
                return 0;
            }
            src.glyph(g as usize).map(|gl| gl.comp_gids().iter().map(|&c| 1 + depth(src, c, fuel - 1)).max().unwrap_or(0)).unwrap_or(0)
        }
        let has_char: BTreeSet<u16> = src.cmap()?.values().copied().collect();
        let mut rest: Vec<(u8, usize, u16)> = keep.iter().filter(|&&g| g != 0).map(|&g| {
            let d = depth(src, g, 8);
            let class = if d == 0 { 2 } else if has_char.contains(&g) { 0 } else { 1 };
            (class, 100 - d.min(100), g)
        }).collect();
        rest.sort();
        keep = std::iter::once(0).chain(rest.into_iter().map(|x| x.2)).collect();
    }
    let idx: BTreeMap<u16, u16> = keep.iter().enumerate().map(|(i, &g)| (g, i as u16)).collect();
    let mut glyphs = vec![];
    let mut metrics = vec![];
    for &g in &keep {
        let mut b = src.glyph_bytes(g as usize)?.to_vec();
        if let Glyph::Composite { comps, .. } = parse_glyph(&b)? {
            let mut p = 10;
            for (cg, _, tr) in &comps {
                b[p + 2..p + 4].copy_from_slice(&idx[cg].to_be_bytes());
                p += 4 + tr.len();
            }
        }
        glyphs.push(b);
        metrics.push(src.metrics(g as usize)?);
    }
    let cm: BTreeMap<u32, u16> = src.cmap()?.into_iter().filter_map(|(cp, g)| idx.get(&g).map(|&n| (cp, n))).collect();
    Ok(encode(src, &glyphs, &metrics, &cm, short_loca, pad_to))
}
