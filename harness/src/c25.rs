//! C25 — the real single-byte encoders/decoders over their full domains vs the generated tables
//! (model) and the Annex D tables (spec).  Channels: cell (one table cell per case), bulk (whole-domain
//! sparse listing of each encoder, compared with the model by counting).
use crate::util::*;
use oxidize_pdf::parser::encoding::{decode_text_with_encoding, EncodingType};
use oxidize_pdf::parser::objects::PdfString;
use oxidize_pdf::text::verif_encoding::{macroman_encode_char, winansi_decode_char, winansi_encode_char};
use oxidize_pdf::text::TextEncoding;
use serde_json::json;

const ENC_TABLES: [u64; 8] = [0, 1, 2, 3, 4, 5, 6, 7];
const DEC_TABLES: [u64; 9] = [10, 11, 12, 13, 14, 15, 16, 17, 18];

fn strict(e: TextEncoding, ch: char) -> Option<Vec<u64>> {
    e.encode_strict(&ch.to_string()).ok().map(|v| v.into_iter().map(|b| b as u64).collect())
}
fn lossy(e: TextEncoding, ch: char) -> Option<Vec<u64>> {
    Some(e.encode(&ch.to_string()).into_iter().map(|b| b as u64).collect())
}
fn chars(s: String) -> Option<Vec<u64>> {
    Some(s.chars().map(|c| c as u64).collect())
}

/// the implementation's output for one cell; None = reported / error
fn cell(t: u64, key: u32) -> Option<Vec<u64>> {
    if t < 10 {
        let ch = char::from_u32(key)?;
        match t {
            0 => winansi_encode_char(ch).map(|b| vec![b as u64]),
            1 => lossy(TextEncoding::WinAnsiEncoding, ch),
            2 => macroman_encode_char(ch).map(|b| vec![b as u64]),
            3 => lossy(TextEncoding::MacRomanEncoding, ch),
            4 => strict(TextEncoding::StandardEncoding, ch),
            5 => strict(TextEncoding::PdfDocEncoding, ch),
            6 => lossy(TextEncoding::StandardEncoding, ch),
            _ => lossy(TextEncoding::PdfDocEncoding, ch),
        }
    } else {
        let b = key as u8;
        match t {
            10 => Some(vec![winansi_decode_char(b) as u64]),
            11 => chars(TextEncoding::WinAnsiEncoding.decode(&[b])),
            12 => chars(TextEncoding::MacRomanEncoding.decode(&[b])),
            13 => chars(TextEncoding::StandardEncoding.decode(&[b])),
            14 => chars(TextEncoding::PdfDocEncoding.decode(&[b])),
            15 => chars(PdfString::new(vec![b]).to_text()),
            16 => decode_text_with_encoding(&[b], EncodingType::Windows1252).ok().and_then(chars),
            17 => decode_text_with_encoding(&[b], EncodingType::MacRoman).ok().and_then(chars),
            _ => decode_text_with_encoding(&[b], EncodingType::PdfDocEncoding).ok().and_then(chars),
        }
    }
}

fn emit_cell(out: &mut Out, t: u64, key: u32, class: &str) {
    if t < 10 && char::from_u32(key).is_none() {
        return; // surrogates are not scalar values
    }
    let js = json!({"table": t, "key": key});
    match catch(move || cell(t, key)) {
        Ok(v) => {
            let o = coq_opt(v.map(|l| coq_list(l.into_iter().map(|x| x.to_string()))));
            out.push(format!("({}, {}, {})", t, key, o), js, class, key >= 128);
        }
        Err(m) => out.impl_failures.push(json!({"what": format!("panic: {m}"), "case": js})),
    }
}

pub fn run(ctx: &Ctx) {
    let header = "From OxVerif Require Import Base.Util C25.AnnexD C25.Model.";
    let mut cells = Out::new(ctx, header, "N * N * option bytes", "cell_code");
    cells.shard_size = 4000;
    let mut bulk = Out::new(ctx, header, "N * list (N * N)", "bulk_code");
    bulk.shard_size = 1;

    if let Some(cases) = ctx.replay_cases() {
        for c in cases {
            emit_cell(&mut cells, c["table"].as_u64().unwrap_or(0), c["key"].as_u64().unwrap_or(0) as u32, "replay");
        }
        cells.finish("cell");
        bulk.finish("bulk");
        return;
    }

    // ---- decode: every byte of every decoder
    for t in DEC_TABLES {
        for b in 0..=255u32 {
            emit_cell(&mut cells, t, b, &format!("decode_t{t}"));
        }
    }
    // ---- encode: key set = everything below U+0600, every code point any encoder accepts or any decoder
    //      produces, boundary and random scalar values
    let mut keys: std::collections::BTreeSet<u32> = (0..0x600u32).collect();
    for t in DEC_TABLES {
        for b in 0..=255u32 {
            if let Some(v) = cell(t, b) {
                keys.extend(v.into_iter().map(|c| c as u32));
            }
        }
    }
    let mut r = Rng::new(ctx.seed);
    for k in [0x2212u32, 0x4E2D, 0xD7FF, 0xE000, 0xF8FF, 0xFB01, 0xFB02, 0xFFFD, 0xFFFF, 0x10000, 0x1F600, 0x10FFFF] {
        keys.insert(k);
    }
    for _ in 0..(if ctx.thorough() { 3000 } else { 300 }) {
        keys.insert(r.below(0x110000) as u32);
        keys.insert(r.below(0x3000) as u32);
    }
    // whole-domain pass on the real code: sparse listing per encoder + consistency of the public entry points
    let mut pairs: Vec<Vec<(u32, u64)>> = vec![vec![]; 6];
    let defaults: Vec<Option<Vec<u64>>> = (0..6).map(|t| cell(t, 0x10FFFF)).collect();
    for cp in 0..0x110000u32 {
        let ch = match char::from_u32(cp) {
            Some(c) => c,
            None => continue,
        };
        for t in 0..6u64 {
            let v = cell(t, cp);
            if v != defaults[t as usize] {
                keys.insert(cp);
                match &v {
                    Some(l) if l.len() == 1 => pairs[t as usize].push((cp, l[0])),
                    _ => cells.impl_failures.push(json!({"what": "encoder output is not a single byte", "case": {"table": t, "key": cp}})),
                }
            }
        }
        // encode_strict on WinAnsi/MacRoman must be the per-character function
        let w = strict(TextEncoding::WinAnsiEncoding, ch);
        let m = strict(TextEncoding::MacRomanEncoding, ch);
        if w != cell(0, cp) {
            cells.impl_failures.push(json!({"what": "encode_strict(WinAnsi) differs from winansi_encode_char", "case": {"table": 0, "key": cp}}));
        }
        if m != cell(2, cp) {
            cells.impl_failures.push(json!({"what": "encode_strict(MacRoman) differs from macroman_encode_char", "case": {"table": 2, "key": cp}}));
        }
        // Standard/PDFDoc lossy encode is the UTF-8 pass-through on the whole domain (model: utf8)
        let u: Vec<u64> = ch.to_string().bytes().map(|b| b as u64).collect();
        for t in [6u64, 7] {
            if cell(t, cp) != Some(u.clone()) {
                keys.insert(cp);
            }
        }
        if cells.impl_failures.len() > 20 {
            break;
        }
    }
    for t in ENC_TABLES {
        for &k in &keys {
            emit_cell(&mut cells, t, k, &format!("encode_t{t}"));
        }
    }
    cells.extra.insert("encode_keys".into(), json!(keys.len()));
    cells.extra.insert("whole_domain_scalar_values_run".into(), json!(0x110000 - 0x800));
    for t in 0..6u64 {
        let coq = format!("({}, {})", t, coq_list(pairs[t as usize].iter().map(|(c, b)| format!("({c}, {b})"))));
        bulk.push(coq, json!({"table": t, "bulk": true, "pairs": pairs[t as usize].len()}), &format!("bulk_t{t}"), true);
    }
    cells.finish("cell");
    bulk.finish("bulk");
}
