//! C20 — document builder: a JSON "spec" deterministically describes a document; every process that is
//! given the same spec builds the same logical document through the public API.
use oxidize_pdf::annotations::{Annotation, AnnotationType};
use oxidize_pdf::forms::{create_checkbox_widget, ButtonWidget, CheckBox, FormManager, TextField, Widget, WidgetAppearance};
use oxidize_pdf::geometry::{Point, Rectangle};
use oxidize_pdf::graphics::{
    AxialShading, Color, DeviceColorSpace, FormXObject, Image, PageColorSpace, PaintType, ShadingDefinition, TilingPattern, TilingType,
};
use oxidize_pdf::objects::{Dictionary, Object};
use oxidize_pdf::structure::{Destination, OutlineItem, OutlineTree, PageDestination};
use oxidize_pdf::text::Font;
use oxidize_pdf::writer::{PdfWriter, WriterConfig};
use oxidize_pdf::{Document, Page};
use serde_json::{json, Value};

use crate::util::Rng;

pub const FEATURES: &[&str] = &[
    "stdfonts", "ttf", "images", "alpha", "formx", "extg", "cs", "patterns", "shadings", "notes", "userap", "checkbox", "textfield", "outline", "info",
];

pub fn cfg_of(i: u64) -> WriterConfig {
    // bit0 xref streams, bit1 object streams (only together with xref streams: the other combination writes a
    // file the library cannot open, see AGENT_GUIDE), bit2 = uncompressed streams, bit3 = version 1.4 header
    WriterConfig {
        use_xref_streams: i & 1 == 1,
        use_object_streams: i & 3 == 3,
        compress_streams: i & 4 == 0,
        pdf_version: if i & 8 == 8 { "1.4".into() } else if i & 1 == 1 { "1.5".into() } else { "1.7".into() },
        incremental_update: false,
    }
}
pub const N_CFG: u64 = 16;

pub fn gen_spec(r: &mut Rng, rich: bool) -> Value {
    let mut feats = vec![];
    for f in FEATURES {
        if rich || r.chance(1, 2) {
            feats.push(*f);
        }
    }
    json!({"pages": r.range(1, 3), "n": r.range(2, 5), "feats": feats, "salt": r.below(1000)})
}

fn rect(x: f64, y: f64, w: f64, h: f64) -> Rectangle {
    Rectangle::new(Point::new(x, y), Point::new(x + w, y + h))
}
fn has(spec: &Value, f: &str) -> bool {
    spec["feats"].as_array().map(|a| a.iter().any(|x| x.as_str() == Some(f))).unwrap_or(false)
}
fn small_stream(tag: &str) -> Object {
    let mut d = Dictionary::new();
    d.set("Type", Object::Name("XObject".into()));
    d.set("Subtype", Object::Name("Form".into()));
    d.set("BBox", Object::Array(vec![Object::Integer(0), Object::Integer(0), Object::Integer(20), Object::Integer(20)]));
    Object::Stream(d, format!("% {tag}\n0 0 20 20 re f\n").into_bytes())
}

/// names in a scrambled (salt-dependent) insertion order so that insertion order never coincides with sorted order by accident,
/// followed by families that differ as strings but collide under plausible normalisations of a sort key (a non-injective key
/// leaves ties of the stable sort in hash order): zero padding of the trailing counter, bare stem vs stem+0, letter case,
/// Unicode composed/decomposed forms, a counter beyond u64, natural order vs string order (2 / 10).
fn names(prefix: &str, n: u64, salt: u64) -> Vec<String> {
    let mut v: Vec<String> = (0..n).map(|i| format!("{prefix}{}", (i * 7 + salt) % 97)).collect();
    let k = 1 + salt % 9;
    let fam = [
        format!("{prefix}x{k}"), format!("{prefix}x0{k}"), format!("{prefix}x00{k}"),
        format!("{prefix}y"), format!("{prefix}y0"), format!("{prefix}y00"),
        format!("{prefix}z{k}"), format!("{}z{k}", prefix.to_lowercase()), format!("{}z{k}", prefix.to_uppercase()),
        format!("{prefix}\u{e9}{k}"), format!("{prefix}e\u{301}{k}"),
        format!("{prefix}w2"), format!("{prefix}w10"),
        format!("{prefix}v99999999999999999999991"), format!("{prefix}v99999999999999999999992"),
    ];
    let take = if n >= 3 { fam.len() } else { 6 + (salt as usize % 3) * 3 };
    for (i, f) in fam.iter().enumerate() {
        if i < take || (salt + i as u64) % 2 == 0 {
            v.push(f.clone());
        }
    }
    v.sort();
    v.dedup();
    // scramble deterministically
    let len = v.len();
    for i in (1..len).rev() {
        let j = ((salt + 1) * (i as u64 + 3) * 2654435761 % (i as u64 + 1)) as usize;
        v.swap(i, j);
    }
    v
}

pub fn build(spec: &Value) -> Result<Document, String> {
    let n = spec["n"].as_u64().unwrap_or(2);
    let salt = spec["salt"].as_u64().unwrap_or(0);
    let pages = spec["pages"].as_u64().unwrap_or(1);
    let mut doc = Document::new();
    // the clock: both dates given explicitly through the API
    doc.set_creation_date("2024-01-02T03:04:05Z".parse().map_err(|_| "date")?);
    doc.set_modification_date("2024-02-03T04:05:06Z".parse().map_err(|_| "date")?);
    if has(spec, "info") {
        doc.set_title(format!("Title {salt}"));
        doc.set_author("Author (paren) \\ back");
        doc.set_subject("Subject");
        doc.set_keywords("k1, k2");
        doc.set_creator("oxh c20");
        doc.set_producer("producer");
    }
    let ttf = has(spec, "ttf");
    if ttf {
        let data = std::fs::read("/usr/share/fonts/truetype/dejavu/DejaVuSans.ttf").map_err(|e| format!("ttf: {e}"))?;
        doc.add_font_from_bytes("DejaVu", data.clone()).map_err(|e| format!("add_font: {e:?}"))?;
        doc.add_font_from_bytes("Another", data.clone()).map_err(|e| format!("add_font: {e:?}"))?;
        doc.add_font_from_bytes("Face1", data.clone()).map_err(|e| format!("add_font: {e:?}"))?;
        doc.add_font_from_bytes("Face01", data).map_err(|e| format!("add_font: {e:?}"))?;
    }
    let mut fm = FormManager::new();
    let mut any_field = false;
    for p in 0..pages {
        let mut page = Page::a4();
        if has(spec, "stdfonts") {
            for (i, f) in [Font::Helvetica, Font::TimesBold, Font::Courier, Font::HelveticaOblique].iter().enumerate().take(n as usize) {
                page.text().set_font(f.clone(), 11.0).at(50.0, 780.0 - 14.0 * i as f64).write(&format!("std font line {i} page {p}")).map_err(|e| format!("{e:?}"))?;
            }
        }
        if ttf {
            page.text().set_font(Font::Custom("DejaVu".into()), 12.0).at(50.0, 700.0).write("Zażółć gęślą jaźń — ✓ αβγ").map_err(|e| format!("{e:?}"))?;
            page.text().set_font(Font::Custom("Another".into()), 9.0).at(50.0, 680.0).write("second face: ĄĆĘŁ 123").map_err(|e| format!("{e:?}"))?;
            page.text().set_font(Font::Custom("Face1".into()), 9.0).at(50.0, 660.0).write("tie one").map_err(|e| format!("{e:?}"))?;
            page.text().set_font(Font::Custom("Face01".into()), 9.0).at(50.0, 650.0).write("tie two").map_err(|e| format!("{e:?}"))?;
        }
        if has(spec, "images") {
            for (i, name) in names("Im", n, salt).iter().enumerate() {
                let w = 2 + i as u32;
                let img = Image::from_gray_data((0..w * 2).map(|k| (k * 37 + salt as u32) as u8).collect(), w, 2).map_err(|e| format!("img: {e:?}"))?;
                page.add_image(name.clone(), img);
                page.draw_image(name, 300.0, 700.0 - 30.0 * i as f64, 20.0, 20.0).map_err(|e| format!("{e:?}"))?;
            }
            // add_image accepts any string: names that differ only in trailing white space
            for (i, name) in ["ImT", "ImT ", "ImT  "].iter().enumerate() {
                let img = Image::from_gray_data(vec![(i as u8) * 40 + 3; 4], 2, 2).map_err(|e| format!("img: {e:?}"))?;
                page.add_image(name.to_string(), img);
            }
        }
        if has(spec, "alpha") {
            for (i, name) in names("Al", n.min(3), salt + 1).iter().enumerate() {
                let rgba: Vec<u8> = (0..2 * 2 * 4).map(|k| (k * 29 + i as u32 * 5) as u8).collect();
                let img = Image::from_rgba_data(rgba, 2, 2).map_err(|e| format!("rgba: {e:?}"))?;
                page.add_image(name.clone(), img);
            }
        }
        if has(spec, "formx") {
            for (i, name) in names("Fx", n, salt + 2).into_iter().enumerate() {
                page.add_form_xobject(name, FormXObject::new(Rectangle::from_position_and_size(0.0, 0.0, 50.0 + i as f64, 50.0))).map_err(|e| format!("{e:?}"))?;
            }
        }
        if has(spec, "extg") {
            let g = page.graphics();
            for i in 0..(n + 9) {
                g.set_alpha(0.05 + 0.06 * i as f64).map_err(|e| format!("{e:?}"))?;
                g.set_line_width(1.0 + i as f64);
                g.rect(60.0 + 30.0 * i as f64, 500.0, 25.0, 25.0).fill();
            }
            g.set_fill_opacity(0.33);
            g.rect(60.0, 460.0, 25.0, 25.0).fill();
        }
        if has(spec, "cs") {
            for (i, name) in names("CS", n, salt + 3).iter().enumerate() {
                let cs = if i % 2 == 0 { DeviceColorSpace::Rgb } else { DeviceColorSpace::Gray };
                page.add_color_space(name.clone(), PageColorSpace::DeviceAlias(cs)).map_err(|e| format!("{e:?}"))?;
            }
        }
        if has(spec, "patterns") {
            for (i, name) in names("Pt", n, salt + 4).iter().enumerate() {
                let mut t = TilingPattern::new(name.clone(), PaintType::Colored, TilingType::ConstantSpacing, [0.0, 0.0, 10.0, 10.0], 10.0, 10.0 + i as f64);
                t.add_rectangle(0.0, 0.0, 5.0, 5.0);
                t.fill();
                page.add_pattern(name.clone(), t).map_err(|e| format!("{e:?}"))?;
            }
        }
        if has(spec, "shadings") {
            for (i, name) in names("Sh", n, salt + 5).iter().enumerate() {
                let sh = AxialShading::linear_gradient(name.clone(), oxidize_pdf::graphics::Point::new(0.0, 0.0), oxidize_pdf::graphics::Point::new(100.0 + i as f64, 0.0), Color::rgb(1.0, 0.0, 0.0), Color::rgb(0.0, 0.0, 1.0));
                page.add_shading(name.clone(), ShadingDefinition::Axial(sh)).map_err(|e| format!("{e:?}"))?;
            }
        }
        if has(spec, "notes") {
            for i in 0..n {
                let a = Annotation::new(if i % 2 == 0 { AnnotationType::Text } else { AnnotationType::Highlight }, rect(400.0, 700.0 - 30.0 * i as f64, 20.0, 20.0))
                    .with_contents(format!("note {i} on page {p}"))
                    .with_subject("subj")
                    .with_name(format!("nm{p}-{i}"))
                    .with_color(Color::rgb(1.0, 1.0, 0.0));
                page.add_annotation(a);
            }
        }
        if has(spec, "userap") {
            // a caller-supplied appearance dictionary with three inline streams (/N /R /D), ISO 12.5.5
            let mut a = Annotation::new(AnnotationType::Stamp, rect(450.0, 400.0, 40.0, 40.0)).with_contents("stamp");
            let mut ap = Dictionary::new();
            ap.set("N", small_stream("normal"));
            ap.set("R", small_stream("rollover"));
            ap.set("D", small_stream("down"));
            a.properties.set("AP", Object::Dictionary(ap));
            page.add_annotation(a);
        }
        if has(spec, "checkbox") {
            for i in 0..n.min(3) {
                let mut cb = CheckBox::new(format!("cb{p}_{i}"));
                if i % 2 == 0 {
                    cb = cb.checked();
                }
                let bw = ButtonWidget::new(rect(100.0 + 30.0 * i as f64, 300.0, 15.0, 15.0));
                let annot = create_checkbox_widget(&cb, &bw).map_err(|e| format!("cbw: {e:?}"))?;
                page.add_annotation(annot);
            }
        }
        if has(spec, "textfield") {
            for i in 0..n.min(3) {
                let w = Widget::new(rect(100.0, 200.0 - 25.0 * i as f64, 150.0, 20.0)).with_appearance(WidgetAppearance::default());
                let f = TextField::new(format!("tf{}_{p}_{i}", (i * 5 + salt) % 11)).with_value(format!("value {i}"));
                let r = fm.add_text_field(f, w.clone(), None).map_err(|e| format!("tf: {e:?}"))?;
                page.add_form_widget_with_ref(w, r).map_err(|e| format!("{e:?}"))?;
                any_field = true;
            }
        }
        doc.add_page(page);
    }
    if any_field {
        doc.set_form_manager(fm);
    }
    if has(spec, "outline") {
        let mut tree = OutlineTree::new();
        for i in 0..n {
            let mut o = OutlineItem::new(format!("Chapter {i}")).with_destination(Destination::fit(PageDestination::PageNumber((i % pages) as u32)));
            for j in 0..(i % 3) {
                o.add_child(OutlineItem::new(format!("Section {i}.{j}")).with_destination(Destination::fit(PageDestination::PageNumber(0))));
            }
            tree.add_item(o);
        }
        doc.set_outline(tree);
    }
    Ok(doc)
}

/// clock held fixed: the public writer entry point that does not re-stamp the modification date
pub fn write_fixed(doc: &mut Document, cfg: WriterConfig) -> Result<Vec<u8>, String> {
    let mut buf = Vec::new();
    {
        let mut w = PdfWriter::with_config(&mut buf, cfg);
        w.write_document(doc).map_err(|e| format!("write_document: {e:?}"))?;
    }
    Ok(buf)
}
