//! C23 — RC4, AES-CBC/ECB wrappers and the standard security handler (R2–R6) of the real
//! library, run on generated inputs; every call becomes one Coq case
//! `(op, nums, args, result)` evaluated against C23/Model.v (model + standards' specs).
use crate::util::*;
use oxidize_pdf::encryption::{
    compute_hash_r6_algorithm_2b, Aes, AesKey, EncryptionKey, OwnerPassword, Permissions, Rc4, Rc4Key,
    SecurityHandlerRevision, StandardSecurityHandler, UserPassword,
};
use oxidize_pdf::objects::ObjectId;
use serde_json::{json, Value};

/// byte string or password (Unicode scalar values)
#[derive(Clone, Debug)]
enum Arg {
    B(Vec<u8>),
    P(Vec<u32>),
}
impl Arg {
    fn b(&self) -> &[u8] {
        match self {
            Arg::B(v) => v,
            _ => panic!("bytes expected"),
        }
    }
    fn s(&self) -> String {
        match self {
            Arg::P(v) => v.iter().filter_map(|c| char::from_u32(*c)).collect(),
            Arg::B(v) => String::from_utf8_lossy(v).to_string(),
        }
    }
    fn json(&self) -> Value {
        match self {
            Arg::B(v) => json!(hex(v)),
            Arg::P(v) => json!(v),
        }
    }
    fn from(v: &Value) -> Arg {
        match v {
            Value::String(s) => Arg::B(unhex(s)),
            Value::Array(a) => Arg::P(a.iter().map(|x| x.as_u64().unwrap_or(63) as u32).collect()),
            _ => Arg::B(vec![]),
        }
    }
    fn coq(&self) -> String {
        match self {
            Arg::B(v) => coq_bytes(v),
            Arg::P(v) => coq_list(v.iter().map(|c| c.to_string())),
        }
    }
}

#[derive(Clone, Debug)]
struct Case {
    op: u64,
    nums: Vec<u64>,
    args: Vec<Arg>,
}

fn handler(rev: u64, kl: u64) -> StandardSecurityHandler {
    let revision = match rev {
        2 => SecurityHandlerRevision::R2,
        3 => SecurityHandlerRevision::R3,
        4 => SecurityHandlerRevision::R4,
        5 => SecurityHandlerRevision::R5,
        _ => SecurityHandlerRevision::R6,
    };
    StandardSecurityHandler { revision, key_length: kl as usize }
}
fn aes(key: &[u8]) -> Option<Aes> {
    let k = if key.len() == 16 { AesKey::new_128(key.to_vec()) } else { AesKey::new_256(key.to_vec()) };
    k.ok().map(Aes::new)
}
fn bl(b: bool) -> Vec<u8> {
    vec![b as u8]
}

/// run the real code; None = Err
fn exec(c: &Case) -> Option<Vec<u8>> {
    let a = &c.args;
    let n = &c.nums;
    let idopt = |has: u64, id: &'_ [u8]| -> Option<Vec<u8>> { if has == 0 { None } else { Some(id.to_vec()) } };
    match c.op {
        1 => Some(Rc4::new(&Rc4Key::from_slice(a[0].b())).process(a[1].b())),
        2 => {
            let mut r = Rc4::new(&Rc4Key::new(a[0].b().to_vec()));
            let mut o = r.process(a[1].b());
            let mut d2 = a[2].b().to_vec();
            r.process_in_place(&mut d2);
            o.extend_from_slice(&d2);
            Some(o)
        }
        10 => aes(a[0].b())?.encrypt_cbc(a[2].b(), a[1].b()).ok(),
        11 => aes(a[0].b())?.decrypt_cbc(a[2].b(), a[1].b()).ok(),
        12 => aes(a[0].b())?.encrypt_cbc_raw(a[2].b(), a[1].b()).ok(),
        13 => aes(a[0].b())?.decrypt_cbc_raw(a[2].b(), a[1].b()).ok(),
        14 => aes(a[0].b())?.encrypt_ecb(a[1].b()).ok(),
        15 => aes(a[0].b())?.decrypt_ecb(a[1].b()).ok(),
        20 => Some(handler(n[0], n[1]).compute_owner_hash(&OwnerPassword(a[0].s()), &UserPassword(a[1].s()))),
        21 => handler(n[0], n[1])
            .compute_encryption_key(&UserPassword(a[0].s()), a[1].b(), Permissions::from_bits(n[2] as u32), idopt(n[3], a[2].b()).as_deref())
            .ok()
            .map(|k| k.as_bytes().to_vec()),
        22 => handler(n[0], n[1])
            .compute_user_hash(&UserPassword(a[0].s()), a[1].b(), Permissions::from_bits(n[2] as u32), idopt(n[3], a[2].b()).as_deref())
            .ok(),
        23 => handler(n[0], n[1])
            .validate_user_password(&UserPassword(a[0].s()), a[1].b(), a[2].b(), Permissions::from_bits(n[2] as u32), idopt(n[3], a[3].b()).as_deref())
            .ok()
            .map(bl),
        24 => handler(n[0], n[1])
            .validate_owner_password(
                &OwnerPassword(a[0].s()),
                a[1].b(),
                &UserPassword(String::new()),
                Permissions::from_bits(n[2] as u32),
                idopt(n[3], a[3].b()).as_deref(),
                Some(a[2].b()),
            )
            .ok()
            .map(bl),
        25 => Some(handler(3, 16).compute_object_key(&EncryptionKey::new(a[0].b().to_vec()), &ObjectId::new(n[0] as u32, n[1] as u16))),
        30 => {
            let h = handler(n[0], 32);
            if n[0] == 5 { h.compute_r5_user_hash(&UserPassword(a[0].s())).ok() } else { h.compute_r6_user_hash(&UserPassword(a[0].s())).ok() }
        }
        31 => {
            let h = handler(n[0], 32);
            let p = UserPassword(a[0].s());
            if n[0] == 5 { h.validate_r5_user_password(&p, a[1].b()).ok().map(bl) } else { h.validate_r6_user_password(&p, a[1].b()).ok().map(bl) }
        }
        32 => {
            let h = handler(n[0], 32);
            let p = UserPassword(a[0].s());
            let k = EncryptionKey::new(a[2].b().to_vec());
            if n[0] == 5 { h.compute_r5_ue_entry(&p, a[1].b(), &k).ok() } else { h.compute_r6_ue_entry(&p, a[1].b(), &k).ok() }
        }
        33 => {
            let h = handler(n[0], 32);
            let p = UserPassword(a[0].s());
            let r = if n[0] == 5 { h.recover_r5_encryption_key(&p, a[1].b(), a[2].b()) } else { h.recover_r6_encryption_key(&p, a[1].b(), a[2].b()) };
            r.ok().map(|k| k.as_bytes().to_vec())
        }
        34 => {
            let h = handler(n[0], 32);
            let p = OwnerPassword(a[0].s());
            if n[0] == 5 { h.compute_r5_owner_hash(&p, a[1].b()).ok() } else { h.compute_r6_owner_hash(&p, a[1].b()).ok() }
        }
        35 => {
            let h = handler(n[0], 32);
            let p = OwnerPassword(a[0].s());
            if n[0] == 5 { h.validate_r5_owner_password(&p, a[1].b(), a[2].b()).ok().map(bl) } else { h.validate_r6_owner_password(&p, a[1].b(), a[2].b()).ok().map(bl) }
        }
        36 => {
            let h = handler(n[0], 32);
            let p = OwnerPassword(a[0].s());
            if n[0] == 5 { h.compute_r5_oe_entry(&p, a[1].b(), a[2].b(), a[3].b()).ok() } else { h.compute_r6_oe_entry(&p, a[1].b(), a[2].b(), a[3].b()).ok() }
        }
        37 => {
            let h = handler(n[0], 32);
            let p = OwnerPassword(a[0].s());
            if n[0] == 5 { h.recover_r5_owner_encryption_key(&p, a[1].b(), a[2].b(), a[3].b()).ok() } else { h.recover_r6_owner_encryption_key(&p, a[1].b(), a[2].b(), a[3].b()).ok() }
        }
        40 => compute_hash_r6_algorithm_2b(a[0].b(), a[1].b(), a[2].b()).ok(),
        41 => handler(n[0], 32).compute_perms_entry(Permissions::from_bits(n[1] as u32), &EncryptionKey::new(a[0].b().to_vec()), n[2] != 0).ok(),
        42 => handler(6, 32).validate_r6_perms(a[0].b(), &EncryptionKey::new(a[1].b().to_vec()), Permissions::from_bits(n[0] as u32)).ok().map(bl),
        43 => handler(6, 32).extract_r6_encrypt_metadata(a[0].b(), &EncryptionKey::new(a[1].b().to_vec())).ok().map(|o| match o {
            None => vec![],
            Some(b) => vec![b as u8],
        }),
        _ => None,
    }
}

struct Chan {
    name: &'static str,
    out: Out,
}

/// executes the case on the real code, records it, returns the implementation's result
fn emit(ch: &mut Chan, c: Case, class: &str) -> Option<Vec<u8>> {
    let js = json!({"ch": ch.name, "op": c.op, "nums": c.nums, "args": c.args.iter().map(|a| a.json()).collect::<Vec<_>>()});
    let cc = c.clone();
    let res = catch(std::panic::AssertUnwindSafe(move || exec(&cc)));
    let out = match res {
        Ok(o) => o,
        Err(m) => {
            ch.out.impl_failures.push(json!({"what": format!("panic: {m}"), "case": js}));
            ch.out.count(&format!("{class}/panic"));
            return None;
        }
    };
    let coq = format!(
        "({}, {}, {}, {})",
        c.op,
        coq_list(c.nums.iter().map(|x| x.to_string())),
        coq_list(c.args.iter().map(|a| a.coq())),
        coq_opt(out.as_ref().map(|o| coq_bytes(o)))
    );
    // non-trivial: the implementation produced a value from a non-empty input
    let nt = out.as_ref().map(|o| !o.is_empty()).unwrap_or(false)
        && c.args.iter().any(|a| match a {
            Arg::B(v) => !v.is_empty(),
            Arg::P(v) => !v.is_empty(),
        });
    ch.out.push(coq, js, class, nt);
    out
}

fn fail(ch: &mut Chan, what: &str, c: &Case) {
    let js = json!({"ch": ch.name, "op": c.op, "nums": c.nums, "args": c.args.iter().map(|a| a.json()).collect::<Vec<_>>()});
    ch.out.impl_failures.push(json!({"what": what, "case": js}));
}

// ---------------------------------------------------------------- generators
const LATIN: (u32, u32) = (0xA1, 0xFF);

/// password of exactly `nbytes` UTF-8 bytes (when achievable); `kind` 0 ASCII, 1 Latin-1 mix (R2–R4
/// PDFDocEncoding range), 2 any Unicode (R5/R6)
fn password(r: &mut Rng, nbytes: usize, kind: u64) -> Vec<u32> {
    let mut v = vec![];
    let mut len = 0usize;
    while len < nbytes {
        let left = nbytes - len;
        let c: u32 = match kind {
            0 => r.range(0x20, 0x7E) as u32,
            1 => {
                if left >= 2 && r.chance(1, 2) {
                    let mut c = r.range(LATIN.0 as u64, LATIN.1 as u64) as u32;
                    if c == 0xAD {
                        c = 0xE9;
                    }
                    c
                } else {
                    r.range(0x20, 0x7E) as u32
                }
            }
            _ => match r.below(4) {
                0 if left >= 4 => r.range(0x1_0000, 0x1_FFFF) as u32,
                1 if left >= 3 => {
                    let c = r.range(0x800, 0xFFFD) as u32;
                    if (0xD800..=0xDFFF).contains(&c) {
                        0x4E2D
                    } else {
                        c
                    }
                }
                2 if left >= 2 => r.range(0x80, 0x7FF) as u32,
                _ => r.range(0x20, 0x7E) as u32,
            },
        };
        len += char::from_u32(c).map(|ch| ch.len_utf8()).unwrap_or(1);
        v.push(c);
    }
    // a '(' (0x28, first byte of the padding string) is interesting for owner validation
    if kind == 0 && !v.is_empty() && r.chance(1, 8) {
        let i = r.below(v.len() as u64) as usize;
        v[i] = 0x28;
    }
    v
}
fn pw_len(r: &mut Rng) -> usize {
    match r.below(10) {
        0 => 0,
        1 => 1,
        2 => 31,
        3 => 32,
        4 => 33,
        5 => 127,
        6 => r.range(34, 126) as usize,
        _ => r.range(2, 30) as usize,
    }
}
fn data_len(r: &mut Rng, large: usize) -> usize {
    match r.below(12) {
        0 => 0,
        1 => r.range(1, 15) as usize,
        2 => 16,
        3 => 32,
        4 => 16 * r.range(3, 8) as usize,
        5 => r.range(17, 31) as usize,
        6 => r.range(33, 200) as usize,
        7 => large,
        8 => 15,
        9 => 17,
        _ => r.range(1, 64) as usize,
    }
}
fn perm_word(r: &mut Rng) -> u64 {
    match r.below(4) {
        0 => 0xFFFF_F0C0,
        1 => 0xFFFF_FFFC,
        2 => 0xFFFF_F0C0 | (r.next() & 0x0F3C),
        _ => r.next() & 0xFFFF_FFFF,
    }
}

fn gen_rc4(ch: &mut Chan, r: &mut Rng, n: usize) {
    let klens = [1usize, 5, 16, 32, 255, 256, 257, 300];
    for i in 0..n {
        let kl = if i < klens.len() { klens[i] } else { r.range(1, 40) as usize };
        let key = r.bytes(kl);
        let dl = data_len(r, 1200);
        let data = r.bytes(dl);
        let c = Case { op: 1, nums: vec![], args: vec![Arg::B(key.clone()), Arg::B(data.clone())] };
        if let Some(enc) = emit(ch, c.clone(), &format!("rc4/key{}", if kl <= 16 { "<=16" } else if kl <= 256 { "<=256" } else { ">256" })) {
            // decrypt(encrypt(x)) = x on the real code
            let back = Rc4::new(&Rc4Key::from_slice(&key)).process(&enc);
            if back != data {
                fail(ch, "rc4 decrypt(encrypt(x)) != x", &c);
            }
        }
        if i % 3 == 0 {
            let cut = r.below(dl as u64 + 1) as usize;
            emit(ch, Case { op: 2, nums: vec![], args: vec![Arg::B(key), Arg::B(data[..cut].to_vec()), Arg::B(data[cut..].to_vec())] }, "rc4/streaming");
        }
    }
    // empty key: outside RC4's domain; the library divides by zero (known finding)
    emit(ch, Case { op: 1, nums: vec![], args: vec![Arg::B(vec![]), Arg::B(vec![1, 2, 3])] }, "rc4/key0");
}

fn gen_aes(ch: &mut Chan, r: &mut Rng, n: usize, large: usize) {
    for i in 0..n {
        let kl = if i % 2 == 0 { 16 } else { 32 };
        let key = r.bytes(kl);
        let iv = r.bytes(16);
        let dl = data_len(r, large);
        let data = r.bytes(dl);
        let lc = format!("aes{}/len{}", kl * 8, if dl == 0 { "0" } else if dl < 16 { "<16" } else if dl % 16 == 0 { "%16" } else if dl >= 1000 { "large" } else { "other" });
        let c = Case { op: 10, nums: vec![], args: vec![Arg::B(key.clone()), Arg::B(iv.clone()), Arg::B(data.clone())] };
        if let Some(enc) = emit(ch, c.clone(), &format!("{lc}/encrypt")) {
            let dc = Case { op: 11, nums: vec![], args: vec![Arg::B(key.clone()), Arg::B(iv.clone()), Arg::B(enc.clone())] };
            let back = emit(ch, dc, &format!("{lc}/decrypt"));
            if back.as_deref() != Some(&data[..]) {
                fail(ch, "aes decrypt_cbc(encrypt_cbc(x)) != x", &c);
            }
            if i % 4 == 0 && !enc.is_empty() {
                // tampered ciphertext / wrong IV: the padding check decides
                let mut t = enc.clone();
                let k = r.below(t.len() as u64) as usize;
                t[k] ^= 1 << r.below(8);
                emit(ch, Case { op: 11, nums: vec![], args: vec![Arg::B(key.clone()), Arg::B(iv.clone()), Arg::B(t)] }, "aes/decrypt-tampered");
            }
        }
        match i % 6 {
            0 => {
                let d = { let n_ = 16 * r.range(0, 5) as usize; r.bytes(n_) };
                emit(ch, Case { op: 11, nums: vec![], args: vec![Arg::B(key.clone()), Arg::B(iv.clone()), Arg::B(d)] }, "aes/decrypt-random");
            }
            1 => {
                let d = { let n_ = 16 * r.range(0, 6) as usize; r.bytes(n_) };
                if let Some(e) = emit(ch, Case { op: 12, nums: vec![], args: vec![Arg::B(key.clone()), Arg::B(iv.clone()), Arg::B(d.clone())] }, "aes/raw-encrypt") {
                    let b = emit(ch, Case { op: 13, nums: vec![], args: vec![Arg::B(key.clone()), Arg::B(iv.clone()), Arg::B(e)] }, "aes/raw-decrypt");
                    if b.as_deref() != Some(&d[..]) {
                        fail(ch, "aes decrypt_cbc_raw(encrypt_cbc_raw(x)) != x", &c);
                    }
                }
            }
            2 => {
                let d = { let n_ = 16 * r.range(0, 4) as usize; r.bytes(n_) };
                if let Some(e) = emit(ch, Case { op: 14, nums: vec![], args: vec![Arg::B(key.clone()), Arg::B(d.clone())] }, "aes/ecb-encrypt") {
                    emit(ch, Case { op: 15, nums: vec![], args: vec![Arg::B(key.clone()), Arg::B(e)] }, "aes/ecb-decrypt");
                }
            }
            3 => {
                // refused inputs: bad IV length, data not a multiple of 16
                let bad_iv = { let n_ = *r.pick(&[0usize, 15, 17, 32]); r.bytes(n_) };
                emit(ch, Case { op: 10, nums: vec![], args: vec![Arg::B(key.clone()), Arg::B(bad_iv), Arg::B(data.clone())] }, "aes/bad-iv");
                let d = { let n_ = 16 * r.range(0, 3) as usize + r.range(1, 15) as usize; r.bytes(n_) };
                emit(ch, Case { op: 11, nums: vec![], args: vec![Arg::B(key.clone()), Arg::B(iv.clone()), Arg::B(d.clone())] }, "aes/decrypt-bad-len");
                emit(ch, Case { op: 12, nums: vec![], args: vec![Arg::B(key.clone()), Arg::B(iv.clone()), Arg::B(d)] }, "aes/raw-bad-len");
            }
            _ => {}
        }
    }
}

fn gen_r234(ch: &mut Chan, r: &mut Rng, n: usize) {
    for i in 0..n {
        let (rev, kl) = match i % 5 {
            0 => (2u64, 5u64),
            1 => (3, 16),
            2 => (4, 16),
            3 => (3, r.range(5, 16)),
            _ => (*r.pick(&[2u64, 3, 4]), 0),
        };
        let kl = if kl == 0 { if rev == 2 { 5 } else { 16 } } else { kl };
        // 1 in 5 cases uses non-ASCII (Latin-1) passwords; 1 in 8 has no owner password
        let kind = if i % 5 == 4 { 1 } else { 0 };
        let ul = pw_len(r);
        let user = password(r, ul, kind);
        let ol = pw_len(r);
        let owner = if i % 8 == 7 { vec![] } else { password(r, ol.max(1), kind) };
        let cls = format!("R{rev}/{}{}", if kind == 1 { "latin1" } else { "ascii" }, if owner.is_empty() { "/no-owner" } else { "" });
        let p = perm_word(r);
        let (has_id, id) = match r.below(5) {
            0 => (0u64, vec![]),
            1 => (1, vec![]),
            2 => (1, r.bytes(32)),
            _ => (1, r.bytes(16)),
        };
        let nums = vec![rev, kl, p, has_id];
        let o = match emit(ch, Case { op: 20, nums: vec![rev, kl], args: vec![Arg::P(owner.clone()), Arg::P(user.clone())] }, &format!("{cls}/O")) {
            Some(o) => o,
            None => continue,
        };
        emit(ch, Case { op: 21, nums: nums.clone(), args: vec![Arg::P(user.clone()), Arg::B(o.clone()), Arg::B(id.clone())] }, &format!("{cls}/key"));
        let u = match emit(ch, Case { op: 22, nums: nums.clone(), args: vec![Arg::P(user.clone()), Arg::B(o.clone()), Arg::B(id.clone())] }, &format!("{cls}/U")) {
            Some(u) => u,
            None => continue,
        };
        emit(ch, Case { op: 23, nums: nums.clone(), args: vec![Arg::P(user.clone()), Arg::B(u.clone()), Arg::B(o.clone()), Arg::B(id.clone())] }, &format!("{cls}/auth-user"));
        if i % 2 == 0 {
            let wl = pw_len(r);
            let wrong = password(r, wl, kind);
            emit(ch, Case { op: 23, nums: nums.clone(), args: vec![Arg::P(wrong), Arg::B(u.clone()), Arg::B(o.clone()), Arg::B(id.clone())] }, &format!("{cls}/auth-user-wrong"));
        }
        emit(ch, Case { op: 24, nums: nums.clone(), args: vec![Arg::P(owner.clone()), Arg::B(o.clone()), Arg::B(u.clone()), Arg::B(id.clone())] }, &format!("{cls}/auth-owner"));
        if i % 3 == 0 {
            let wl = pw_len(r);
            let wrong = password(r, wl.max(1), kind);
            emit(ch, Case { op: 24, nums: nums.clone(), args: vec![Arg::P(wrong), Arg::B(o.clone()), Arg::B(u.clone()), Arg::B(id.clone())] }, &format!("{cls}/auth-owner-wrong"));
        }
        if i % 4 == 0 {
            let key = r.bytes(kl as usize);
            emit(ch, Case { op: 25, nums: vec![r.next() & 0xFFFF_FFFF, r.next() & 0xFFFF], args: vec![Arg::B(key)] }, "objkey");
        }
    }
}

/// one full R5 / R6 dictionary: U, UE, O, OE, authentication and key recovery
fn gen_r56(ch: &mut Chan, r: &mut Rng, rev: u64, n: usize, maxpw: usize, owner_half: bool) {
    for i in 0..n {
        let kind = if i % 3 == 2 { 2 } else { 0 };
        let ul = pw_len(r).min(maxpw);
        let ol = pw_len(r).min(maxpw);
        let user = password(r, ul, kind);
        let owner = password(r, ol, kind);
        let cls = format!("R{rev}/{}", if kind == 2 { "unicode" } else { "ascii" });
        let fkey = r.bytes(32);
        let u = match emit(ch, Case { op: 30, nums: vec![rev], args: vec![Arg::P(user.clone())] }, &format!("{cls}/U")) {
            Some(u) => u,
            None => continue,
        };
        let ok = emit(ch, Case { op: 31, nums: vec![rev], args: vec![Arg::P(user.clone()), Arg::B(u.clone())] }, &format!("{cls}/auth-user"));
        if ok != Some(vec![1]) {
            fail(ch, "R5/R6: the user password is not accepted against its own U", &Case { op: 31, nums: vec![rev], args: vec![Arg::P(user.clone()), Arg::B(u.clone())] });
        }
        let wl = pw_len(r).min(maxpw);
        let wrong = password(r, wl, 0);
        emit(ch, Case { op: 31, nums: vec![rev], args: vec![Arg::P(wrong.clone()), Arg::B(u.clone())] }, &format!("{cls}/auth-user-wrong"));
        if let Some(ue) = emit(ch, Case { op: 32, nums: vec![rev], args: vec![Arg::P(user.clone()), Arg::B(u.clone()), Arg::B(fkey.clone())] }, &format!("{cls}/UE")) {
            let c = Case { op: 33, nums: vec![rev], args: vec![Arg::P(user.clone()), Arg::B(u.clone()), Arg::B(ue)] };
            if emit(ch, c.clone(), &format!("{cls}/recover-user")).as_deref() != Some(&fkey[..]) {
                fail(ch, "R5/R6: UE does not unwrap to the file key", &c);
            }
        }
        if !owner_half {
            continue;
        }
        let o = match emit(ch, Case { op: 34, nums: vec![rev], args: vec![Arg::P(owner.clone()), Arg::B(u.clone())] }, &format!("{cls}/O")) {
            Some(o) => o,
            None => continue,
        };
        emit(ch, Case { op: 35, nums: vec![rev], args: vec![Arg::P(owner.clone()), Arg::B(o.clone()), Arg::B(u.clone())] }, &format!("{cls}/auth-owner"));
        if rev == 5 || i % 2 == 0 {
            emit(ch, Case { op: 35, nums: vec![rev], args: vec![Arg::P(wrong), Arg::B(o.clone()), Arg::B(u.clone())] }, &format!("{cls}/auth-owner-wrong"));
        }
        if let Some(oe) = emit(ch, Case { op: 36, nums: vec![rev], args: vec![Arg::P(owner.clone()), Arg::B(o.clone()), Arg::B(u.clone()), Arg::B(fkey.clone())] }, &format!("{cls}/OE")) {
            let c = Case { op: 37, nums: vec![rev], args: vec![Arg::P(owner.clone()), Arg::B(o.clone()), Arg::B(u.clone()), Arg::B(oe)] };
            if emit(ch, c.clone(), &format!("{cls}/recover-owner")).as_deref() != Some(&fkey[..]) {
                fail(ch, "R5/R6: OE does not unwrap to the file key", &c);
            }
        }
    }
}

fn gen_perms(ch: &mut Chan, r: &mut Rng, n: usize) {
    for i in 0..n {
        let rev = 5 + (i as u64 % 2);
        let p = perm_word(r);
        let em = r.below(2);
        let key = r.bytes(32);
        if let Some(pe) = emit(ch, Case { op: 41, nums: vec![rev, p, em], args: vec![Arg::B(key.clone())] }, "perms/compute") {
            emit(ch, Case { op: 42, nums: vec![p], args: vec![Arg::B(pe.clone()), Arg::B(key.clone())] }, "perms/validate");
            emit(ch, Case { op: 42, nums: vec![p ^ (1 << r.below(32))], args: vec![Arg::B(pe.clone()), Arg::B(key.clone())] }, "perms/validate-other-P");
            emit(ch, Case { op: 43, nums: vec![], args: vec![Arg::B(pe.clone()), Arg::B(key.clone())] }, "perms/extract");
            let mut t = pe.clone();
            t[r.below(16) as usize] ^= 0x40;
            emit(ch, Case { op: 42, nums: vec![p], args: vec![Arg::B(t.clone()), Arg::B(key.clone())] }, "perms/validate-tampered");
            emit(ch, Case { op: 43, nums: vec![], args: vec![Arg::B(t), Arg::B(key.clone())] }, "perms/extract-tampered");
        }
    }
}

fn gen_2b(ch: &mut Chan, r: &mut Rng, lens: &[usize]) {
    for (i, l) in lens.iter().enumerate() {
        let pw = r.bytes(*l);
        let salt = r.bytes(8);
        let u = if i % 2 == 0 { vec![] } else { r.bytes(48) };
        emit(ch, Case { op: 40, nums: vec![], args: vec![Arg::B(pw), Arg::B(salt), Arg::B(u)] }, &format!("2B/pw{}{}", l, if i % 2 == 0 { "" } else { "+U" }));
    }
}

pub fn run(ctx: &Ctx) {
    let header = "From OxVerif Require Import Base.Util C23.Model.";
    let mk = |name: &'static str, shard: usize| {
        let mut out = Out::new(ctx, header, "case", "case_code");
        out.shard_size = shard;
        Chan { name, out }
    };
    let mut rc4 = mk("rc4", 40);
    let mut aes = mk("aes", 24);
    let mut r234 = mk("r234", 12);
    let mut r5 = mk("r5", 24);
    let mut r6 = mk("r6", 1);
    if let Some(cases) = ctx.replay_cases() {
        for c in cases {
            let case = Case {
                op: c["op"].as_u64().unwrap_or(0),
                nums: c["nums"].as_array().map(|a| a.iter().map(|x| x.as_u64().unwrap_or(0)).collect()).unwrap_or_default(),
                args: c["args"].as_array().map(|a| a.iter().map(Arg::from).collect()).unwrap_or_default(),
            };
            let ch = match c["ch"].as_str().unwrap_or("rc4") {
                "aes" => &mut aes,
                "r234" => &mut r234,
                "r5" => &mut r5,
                "r6" => &mut r6,
                _ => &mut rc4,
            };
            emit(ch, case, "replay");
        }
    } else {
        let t = ctx.thorough();
        let mut r = Rng::new(ctx.seed ^ 0xC23);
        gen_rc4(&mut rc4, &mut r.fork(), if t { 600 } else { 120 });
        gen_aes(&mut aes, &mut r.fork(), if t { 400 } else { 90 }, if t { 4096 } else { 1024 });
        gen_r234(&mut r234, &mut r.fork(), if t { 400 } else { 70 });
        gen_r56(&mut r5, &mut r.fork(), 5, if t { 60 } else { 12 }, 127, true);
        gen_perms(&mut r5, &mut r.fork(), if t { 60 } else { 12 });
        // Algorithm 2.B costs seconds per evaluation inside Coq: few cases, short passwords in quick
        // quick: the user half of one dictionary (owner hashes carry 48 more bytes per repetition)
        gen_r56(&mut r6, &mut r.fork(), 6, if t { 6 } else { 1 }, if t { 40 } else { 12 }, t);
        gen_2b(&mut r6, &mut r.fork(), if t { &[0, 1, 16, 33, 64, 127, 127, 5] } else { &[0, 6, 9] });
    }
    for c in [rc4, aes, r234, r5, r6] {
        c.out.finish(c.name);
    }
}
